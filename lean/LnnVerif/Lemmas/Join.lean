/-
Helper lemmas on the first-order grounding management (`LnnVerif/Model/Fol.lean`):
de-duplication, `Rel.val`, the three branches of `foj` (`_full_outer_join`), `foldJoin`,
tables as finite maps (`Table.denote`), `FState.get/set`, `addAll`, `groundings`, `fUpConn`.

Used by `Props/C09.lean` (join completeness) and `Props/C10.lean` (order independence).
-/
import LnnVerif.Model.Fol
import Mathlib.Data.List.Nodup
import Mathlib.Data.List.Perm.Basic
import Mathlib.Tactic.Tauto

namespace LNN
namespace Join

/-! ### `dedup`, `dedupKeepFirst`, `unionKeys` -/

section Dedup
variable {β : Type} [BEq β] [LawfulBEq β]

theorem mem_dedup {x : β} : ∀ {l : List β}, x ∈ dedup l ↔ x ∈ l
  | [] => by simp [dedup]
  | y :: ys => by
    have ih := mem_dedup (x := x) (l := ys)
    simp only [dedup]
    split
    · rename_i h
      rw [List.contains_iff_mem] at h
      constructor
      · intro hx; exact List.mem_cons_of_mem _ (ih.mp hx)
      · intro hx
        rcases List.mem_cons.mp hx with rfl | hx
        · exact h
        · exact ih.mpr hx
    · simp [ih]

theorem nodup_dedup : ∀ (l : List β), (dedup l).Nodup
  | [] => by simp [dedup]
  | y :: ys => by
    have ih := nodup_dedup ys
    simp only [dedup]
    split
    · exact ih
    · rename_i h
      rw [List.contains_iff_mem] at h
      exact List.nodup_cons.mpr ⟨h, ih⟩

theorem mem_dedupKeepFirst {x : β} {l : List β} : x ∈ dedupKeepFirst l ↔ x ∈ l := by
  simp [dedupKeepFirst, mem_dedup]

theorem nodup_dedupKeepFirst (l : List β) : (dedupKeepFirst l).Nodup := by
  unfold dedupKeepFirst
  exact List.nodup_reverse.mpr (nodup_dedup _)

end Dedup

theorem mem_unionKeys {g : Gr} {ls : List (List Gr)} : g ∈ unionKeys ls ↔ ∃ l ∈ ls, g ∈ l := by
  simp [unionKeys, mem_dedupKeepFirst, List.mem_flatten]

theorem nodup_unionKeys (ls : List (List Gr)) : (unionKeys ls).Nodup := nodup_dedupKeepFirst _

/-! ### `Rel.val` and `Rel.project` -/

theorem idxOf?_spec {cols : List Nat} {c k : Nat} (h : cols.idxOf? c = some k) :
    ∃ hk : k < cols.length, cols[k] = c := by
  unfold List.idxOf? at h
  rw [List.findIdx?_eq_some_iff_getElem] at h
  obtain ⟨hk, hc, _⟩ := h
  exact ⟨hk, by simpa using hc⟩

theorem idxOf?_isSome_of_mem {cols : List Nat} {c : Nat} (h : c ∈ cols) :
    ∃ k, cols.idxOf? c = some k := by
  cases hk : cols.idxOf? c with
  | none => exact absurd h (List.idxOf?_eq_none_iff.mp hk)
  | some k => exact ⟨k, rfl⟩

/-- reading slot `c` in the row of an assignment gives the assignment's value (no `Nodup`
needed: `idxOf?` returns the first position and every position of `c` holds `σ c`) -/
theorem val_map_of_mem (σ : Nat → Nat) {cols : List Nat} {c : Nat} (h : c ∈ cols) :
    Rel.val cols (cols.map σ) c = some (σ c) := by
  obtain ⟨k, hk⟩ := idxOf?_isSome_of_mem h
  obtain ⟨hlt, hc⟩ := idxOf?_spec hk
  unfold Rel.val
  rw [hk]
  simp [List.getElem?_map, List.getElem?_eq_getElem hlt, hc]

theorem val_of_not_mem {cols row : List Nat} {c : Nat} (h : c ∉ cols) : Rel.val cols row c = none := by
  unfold Rel.val
  rw [List.idxOf?_eq_none_iff.mpr h]

theorem project_map (σ : Nat → Nat) {cols slots : List Nat} (h : ∀ c ∈ slots, c ∈ cols) :
    Rel.project cols (cols.map σ) slots = slots.map σ := by
  unfold Rel.project
  apply List.map_congr_left
  intro c hc
  rw [val_map_of_mem σ (h c hc)]
  rfl

/-! ### `foj` in named pieces -/

def sharedC (c1 c2 : List Nat) : List Nat := c1.filter c2.contains

def uniqC (c1 c2 : List Nat) : List Nat :=
  c1.filter (fun c => !c2.contains c) ++ c2.filter (fun c => !c1.contains c)

def mk (c1 c2 : List Nat) (left : Bool) (a b : List Nat) : List Nat :=
  (uniqC c1 c2).map (fun c => ((Rel.val c1 a c).orElse fun _ => Rel.val c2 b c).getD 0) ++
  (sharedC c1 c2).map (fun c => (if left then Rel.val c1 a c else Rel.val c2 b c).getD 0)

def side (c1 c2 : List Nat) (r1 r2 : List (List Nat)) (left : Bool) : List (List Nat) :=
  r1.flatMap fun a => r2.map fun b => mk c1 c2 left a b

def cuC (c1 c2 : List Nat) : List Nat := dedupKeepFirst (c1 ++ c2)

def pick (cu cols : List Nat) (rows : List (List Nat)) : List (List Nat) :=
  if cu.all cols.contains then rows.map (fun r => cu.map fun c => (Rel.val cols r c).getD 0) else []

theorem foj_eq (t1 t2 : Rel) :
    foj t1 t2 =
      if t1.rows.isEmpty || t2.rows.isEmpty then
        ⟨cuC t1.cols t2.cols,
          pick (cuC t1.cols t2.cols) t1.cols t1.rows ++ pick (cuC t1.cols t2.cols) t2.cols t2.rows⟩
      else if (sharedC t1.cols t2.cols).isEmpty then
        ⟨t1.cols ++ t2.cols, t1.rows.flatMap fun a => t2.rows.map fun b => a ++ b⟩
      else
        ⟨uniqC t1.cols t2.cols ++ sharedC t1.cols t2.cols,
          dedupKeepFirst (side t1.cols t2.cols t1.rows t2.rows true ++
            side t1.cols t2.cols t1.rows t2.rows false)⟩ := rfl

theorem mem_sharedC {c1 c2 : List Nat} {c : Nat} : c ∈ sharedC c1 c2 ↔ c ∈ c1 ∧ c ∈ c2 := by
  simp [sharedC, List.mem_filter]

theorem mem_uniqC {c1 c2 : List Nat} {c : Nat} :
    c ∈ uniqC c1 c2 ↔ (c ∈ c1 ∧ c ∉ c2) ∨ (c ∈ c2 ∧ c ∉ c1) := by
  simp [uniqC, List.mem_filter]

/-- the columns of a join are exactly the union of the columns of its inputs (all branches) -/
theorem mem_foj_cols (t1 t2 : Rel) (c : Nat) :
    c ∈ (foj t1 t2).cols ↔ c ∈ t1.cols ∨ c ∈ t2.cols := by
  rw [foj_eq]
  split
  · simp [cuC, mem_dedupKeepFirst]
  · split
    · simp
    · simp only [List.mem_append, mem_uniqC, mem_sharedC]
      by_cases h1 : c ∈ t1.cols <;> by_cases h2 : c ∈ t2.cols <;> simp [h1, h2]

/-- with both inputs holding the row of `σ`, the "take the shared columns from the left" row
built from the two `σ`-rows is the `σ`-row of the result -/
theorem mk_true_map (σ : Nat → Nat) (c1 c2 : List Nat) :
    mk c1 c2 true (c1.map σ) (c2.map σ) = (uniqC c1 c2 ++ sharedC c1 c2).map σ := by
  unfold mk
  rw [List.map_append]
  congr 1
  · apply List.map_congr_left
    intro c hc
    by_cases h1 : c ∈ c1
    · rw [val_map_of_mem σ h1]; rfl
    · have h2 : c ∈ c2 := by
        rcases mem_uniqC.mp hc with h | h
        · exact absurd h.1 h1
        · exact h.1
      rw [val_of_not_mem h1, val_map_of_mem σ h2]; rfl
  · apply List.map_congr_left
    intro c hc
    rw [if_pos rfl, val_map_of_mem σ (mem_sharedC.mp hc).1]; rfl

/-- the same for the right copy -/
theorem mk_false_map (σ : Nat → Nat) (c1 c2 : List Nat) :
    mk c1 c2 false (c1.map σ) (c2.map σ) = (uniqC c1 c2 ++ sharedC c1 c2).map σ := by
  unfold mk
  rw [List.map_append]
  congr 1
  · apply List.map_congr_left
    intro c hc
    by_cases h1 : c ∈ c1
    · rw [val_map_of_mem σ h1]; rfl
    · have h2 : c ∈ c2 := by
        rcases mem_uniqC.mp hc with h | h
        · exact absurd h.1 h1
        · exact h.1
      rw [val_of_not_mem h1, val_map_of_mem σ h2]; rfl
  · apply List.map_congr_left
    intro c hc
    simp [val_map_of_mem σ (mem_sharedC.mp hc).2]

theorem mem_side {c1 c2 : List Nat} {r1 r2 : List (List Nat)} {left : Bool} {r : List Nat} :
    r ∈ side c1 c2 r1 r2 left ↔ ∃ a ∈ r1, ∃ b ∈ r2, mk c1 c2 left a b = r := by
  simp [side, List.mem_flatMap, List.mem_map]

/-- JOIN COMPLETENESS, one step: a tuple of the natural join is in the implementation's join -/
theorem foj_complete (σ : Nat → Nat) (t1 t2 : Rel)
    (h1 : t1.cols.map σ ∈ t1.rows) (h2 : t2.cols.map σ ∈ t2.rows) :
    (foj t1 t2).cols.map σ ∈ (foj t1 t2).rows := by
  have e1 : t1.rows.isEmpty = false := by
    cases h : t1.rows with
    | nil => rw [h] at h1; cases h1
    | cons _ _ => rfl
  have e2 : t2.rows.isEmpty = false := by
    cases h : t2.rows with
    | nil => rw [h] at h2; cases h2
    | cons _ _ => rfl
  rw [foj_eq]
  simp only [e1, e2, Bool.or_self, Bool.false_eq_true, if_false]
  split
  · simp only [List.map_append, List.mem_flatMap, List.mem_map]
    exact ⟨_, h1, _, h2, rfl⟩
  · rw [mem_dedupKeepFirst, List.mem_append]
    left
    exact mem_side.mpr ⟨_, h1, _, h2, mk_true_map σ _ _⟩

/-! ### well-formed relations -/

/-- distinct column names, every row aligned with the columns -/
def WfRel (R : Rel) : Prop := R.cols.Nodup ∧ ∀ r ∈ R.rows, r.length = R.cols.length

theorem nodup_sharedC {c1 c2 : List Nat} (h1 : c1.Nodup) : (sharedC c1 c2).Nodup := h1.filter _

theorem nodup_uniqC {c1 c2 : List Nat} (h1 : c1.Nodup) (h2 : c2.Nodup) : (uniqC c1 c2).Nodup := by
  unfold uniqC
  refine List.Nodup.append (h1.filter _) (h2.filter _) ?_
  intro c ha hb
  simp only [List.mem_filter] at ha hb
  simp [ha.1] at hb

theorem nodup_uniq_shared {c1 c2 : List Nat} (h1 : c1.Nodup) (h2 : c2.Nodup) :
    (uniqC c1 c2 ++ sharedC c1 c2).Nodup := by
  refine List.Nodup.append (nodup_uniqC h1 h2) (nodup_sharedC h1) ?_
  intro c ha hb
  rw [mem_uniqC] at ha
  rw [mem_sharedC] at hb
  rcases ha with h | h
  · exact h.2 hb.2
  · exact h.2 hb.1

theorem length_mk (c1 c2 : List Nat) (left : Bool) (a b : List Nat) :
    (mk c1 c2 left a b).length = (uniqC c1 c2 ++ sharedC c1 c2).length := by
  simp [mk]

theorem mem_pick_length {cu cols : List Nat} {rows : List (List Nat)} {r : List Nat}
    (h : r ∈ pick cu cols rows) : r.length = cu.length := by
  unfold pick at h
  split at h
  · obtain ⟨x, _, rfl⟩ := List.mem_map.mp h
    simp
  · cases h

/-- a join of well-formed relations is well-formed (all branches) -/
theorem foj_wf {t1 t2 : Rel} (w1 : WfRel t1) (w2 : WfRel t2) : WfRel (foj t1 t2) := by
  rw [foj_eq]
  split
  · refine ⟨nodup_dedupKeepFirst _, ?_⟩
    intro r hr
    rcases List.mem_append.mp hr with h | h <;> exact mem_pick_length h
  · split
    · rename_i hs
      refine ⟨List.Nodup.append w1.1 w2.1 ?_, ?_⟩
      · intro c ha hb
        have : c ∈ sharedC t1.cols t2.cols := mem_sharedC.mpr ⟨ha, hb⟩
        rw [List.isEmpty_iff.mp hs] at this
        cases this
      · intro r hr
        simp only [List.mem_flatMap, List.mem_map] at hr
        obtain ⟨a, ha, b, hb, rfl⟩ := hr
        simp [w1.2 a ha, w2.2 b hb]
    · refine ⟨nodup_uniq_shared w1.1 w2.1, ?_⟩
      intro r hr
      rw [mem_dedupKeepFirst, List.mem_append] at hr
      rcases hr with h | h <;> obtain ⟨a, _, b, _, rfl⟩ := mem_side.mp h <;> exact length_mk _ _ _ _ _

/-! ### `foldJoin` -/

theorem foldl_foj_complete (σ : Nat → Nat) :
    ∀ (rs : List Rel) (acc : Rel), acc.cols.map σ ∈ acc.rows →
      (∀ R ∈ rs, R.cols.map σ ∈ R.rows) →
      (rs.foldl foj acc).cols.map σ ∈ (rs.foldl foj acc).rows
  | [], _, h, _ => h
  | R :: rs, acc, h, hr => by
    rw [List.foldl_cons]
    exact foldl_foj_complete σ rs (foj acc R)
      (foj_complete σ acc R h (hr R List.mem_cons_self))
      (fun R' hR' => hr R' (List.mem_cons_of_mem _ hR'))

theorem foldl_foj_cols (c : Nat) :
    ∀ (rs : List Rel) (acc : Rel),
      c ∈ (rs.foldl foj acc).cols ↔ c ∈ acc.cols ∨ ∃ R ∈ rs, c ∈ R.cols
  | [], _ => by simp
  | R :: rs, acc => by
    rw [List.foldl_cons, foldl_foj_cols c rs (foj acc R), mem_foj_cols]
    simp only [List.mem_cons, exists_eq_or_imp]
    tauto

theorem foldl_foj_wf :
    ∀ (rs : List Rel) (acc : Rel), WfRel acc → (∀ R ∈ rs, WfRel R) → WfRel (rs.foldl foj acc)
  | [], _, h, _ => h
  | R :: rs, acc, h, hr => by
    rw [List.foldl_cons]
    exact foldl_foj_wf rs (foj acc R) (foj_wf h (hr R List.mem_cons_self))
      (fun R' hR' => hr R' (List.mem_cons_of_mem _ hR'))

theorem foldJoin_complete (σ : Nat → Nat) (rels : List Rel) (hne : rels ≠ [])
    (h : ∀ R ∈ rels, R.cols.map σ ∈ R.rows) :
    ∃ J, foldJoin rels = some J ∧ J.cols.map σ ∈ J.rows ∧
      ∀ c, c ∈ J.cols ↔ ∃ R ∈ rels, c ∈ R.cols := by
  cases rels with
  | nil => exact absurd rfl hne
  | cons R rs =>
    refine ⟨rs.foldl foj R, rfl, ?_, ?_⟩
    · exact foldl_foj_complete σ rs R (h R List.mem_cons_self)
        (fun R' hR' => h R' (List.mem_cons_of_mem _ hR'))
    · intro c
      rw [foldl_foj_cols]
      simp only [List.mem_cons, exists_eq_or_imp]

theorem foldJoin_wf {rels : List Rel} {J : Rel} (hJ : foldJoin rels = some J)
    (h : ∀ R ∈ rels, WfRel R) : WfRel J := by
  cases rels with
  | nil => cases hJ
  | cons R rs =>
    simp only [foldJoin, Option.some.injEq] at hJ
    subst hJ
    exact foldl_foj_wf rs R (h R List.mem_cons_self) (fun R' hR' => h R' (List.mem_cons_of_mem _ hR'))

theorem exists_mem_zip_of_mem_right {A B : Type} :
    ∀ {l₁ : List A} {l₂ : List B}, l₁.length = l₂.length → ∀ {b : B}, b ∈ l₂ →
      ∃ a, (a, b) ∈ l₁.zip l₂
  | _, [], _, _, hb => by cases hb
  | [], _ :: _, hl, _, _ => by simp at hl
  | a :: l₁, b' :: l₂, hl, b, hb => by
    rcases List.mem_cons.mp hb with rfl | hb
    · exact ⟨a, by simp⟩
    · obtain ⟨a', ha'⟩ := exists_mem_zip_of_mem_right (l₁ := l₁) (l₂ := l₂) (by simpa using hl) hb
      exact ⟨a', by simp [ha']⟩

/-! ### tables: keys -/

section Tables
variable {ι : Type} [DecidableEq ι] {α : Type}

theorem has_iff_mem_keys {t : Table α} {g : Gr} : t.has g = true ↔ g ∈ t.keys := by
  simp [Table.has, Table.find?, Table.keys]

theorem mem_keys_addg {w : Bounds α} {g : Gr} :
    ∀ {gs : List Gr} {t : Table α}, g ∈ (Table.addg w t gs).keys ↔ g ∈ t.keys ∨ g ∈ gs
  | [], t => by simp [Table.addg]
  | g' :: gs, t => by
    simp only [Table.addg]
    split
    · rename_i h
      rw [mem_keys_addg (gs := gs), List.mem_cons]
      have hk := has_iff_mem_keys.mp h
      constructor
      · rintro (h | h)
        · exact .inl h
        · exact .inr (.inr h)
      · rintro (h | rfl | h)
        · exact .inl h
        · exact .inl hk
        · exact .inr h
    · rw [mem_keys_addg (gs := gs)]
      simp only [Table.keys, List.map_append, List.map_cons, List.map_nil, List.mem_append,
        List.mem_cons]
      tauto

theorem keys_setB (t : Table α) (g : Gr) (b : Bounds α) : (t.setB g b).keys = t.keys := by
  simp only [Table.setB, Table.keys, List.map_map]
  apply List.map_congr_left
  intro r _
  simp only [Function.comp]
  split <;> rfl

/-! ### `FState.get` / `FState.set` -/

theorem get_set_self (s : FState ι α) (i : ι) (t : Table α) : (s.set i t).get i = t := by
  simp [FState.get, FState.set]

theorem get_set_ne (s : FState ι α) {i j : ι} (h : i ≠ j) (t : Table α) :
    (s.set i t).get j = s.get j := by
  have e : (fun a : ι × Table α => decide ((!decide (a.1 = i)) = true ∧ decide (a.1 = j) = true)) =
      fun a => decide (a.1 = j) := by
    funext a
    by_cases ha : a.1 = j
    · simp [ha]
      exact fun h' => h (h'.symm)
    · simp [ha]
  simp only [FState.get, FState.set, List.find?_cons, h, decide_false, List.find?_filter, e]

/-! ### `addAll` -/

theorem addAll_cons (kb : FKB ι α) (s : FState ι α) (p : ι × List Gr) (ps : List (ι × List Gr)) :
    addAll kb s (p :: ps) =
      addAll kb (s.set p.1 (Table.addg (kb p.1).world (s.get p.1) p.2)) ps := rfl

/-- the keys after `addAll` are exactly the old keys plus the requested groundings -/
theorem mem_keys_addAll (kb : FKB ι α) (g : Gr) (j : ι) :
    ∀ (pairs : List (ι × List Gr)) (s : FState ι α),
      g ∈ ((addAll kb s pairs).get j).keys ↔ g ∈ (s.get j).keys ∨ ∃ p ∈ pairs, p.1 = j ∧ g ∈ p.2
  | [], s => by simp [addAll]
  | p :: ps, s => by
    rw [addAll_cons, mem_keys_addAll kb g j ps]
    simp only [List.mem_cons, exists_eq_or_imp]
    by_cases hp : p.1 = j
    · subst hp
      rw [get_set_self, mem_keys_addg]
      simp only [true_and]
      tauto
    · rw [get_set_ne _ hp]
      simp only [hp, false_and, false_or]

/-! ### `groundings` -/

def relsOf (kb : FKB ι α) (i : ι) (s : FState ι α) : List Rel :=
  (List.zip (kb i).ops (kb i).opmap).map fun p => (⟨p.2, (s.get p.1).keys⟩ : Rel)

def ogsOf (n : FNode ι α) (j : Rel) : List Gr :=
  j.rows.map fun r => Rel.project j.cols r (List.range (numVars n))

def perOf (n : FNode ι α) (j : Rel) : List (List Gr) :=
  n.opmap.map fun m => j.rows.map fun r => Rel.project j.cols r m

theorem groundings_hetero (kb : FKB ι α) (i : ι) (down : Bool) (s : FState ι α) {j : Rel}
    (hh : isHomogeneous (kb i) = false) (hj : foldJoin (relsOf kb i s) = some j)
    (hne : j.rows.isEmpty = false) :
    groundings kb i down s =
      (addAll kb (addAll kb s (List.zip (kb i).ops (perOf (kb i) j))) [(i, ogsOf (kb i) j)],
        some (ogsOf (kb i) j, perOf (kb i) j)) := by
  unfold relsOf at hj
  unfold groundings
  simp only [hh, Bool.false_eq_true, if_false, hj, hne]
  rfl

def homGs (kb : FKB ι α) (i : ι) (down : Bool) (s : FState ι α) : List Gr :=
  unionKeys (((kb i).ops.map fun j => (s.get j).keys) ++ (if down then [(s.get i).keys] else []))

theorem groundings_homog (kb : FKB ι α) (i : ι) (down : Bool) (s : FState ι α)
    (hh : isHomogeneous (kb i) = true) :
    groundings kb i down s =
      (addAll kb (addAll kb s ((kb i).ops.map fun j => (j, homGs kb i down s)))
          [(i, homGs kb i down s)],
        some (homGs kb i down s, (kb i).ops.map fun _ => homGs kb i down s)) := by
  unfold groundings
  simp only [hh, if_true]
  rfl

theorem mem_relsOf {kb : FKB ι α} {i : ι} {s : FState ι α} {R : Rel} :
    R ∈ relsOf kb i s ↔
      ∃ p ∈ List.zip (kb i).ops (kb i).opmap, R = ⟨p.2, (s.get p.1).keys⟩ := by
  unfold relsOf
  rw [List.mem_map]
  constructor
  · rintro ⟨p, hp, rfl⟩; exact ⟨p, hp, rfl⟩
  · rintro ⟨p, hp, rfl⟩; exact ⟨p, hp, rfl⟩

theorem relsOf_ne_nil {kb : FKB ι α} {i : ι} (s : FState ι α)
    (hh : isHomogeneous (kb i) = false) (hlen : (kb i).ops.length = (kb i).opmap.length) :
    relsOf kb i s ≠ [] := by
  unfold relsOf
  unfold isHomogeneous at hh
  cases hm : (kb i).opmap with
  | nil => rw [hm] at hh; simp at hh
  | cons m ms =>
    cases ho : (kb i).ops with
    | nil => rw [hm, ho] at hlen; simp at hlen
    | cons j js => simp

theorem groundings_hetero_none (kb : FKB ι α) (i : ι) (down : Bool) (s : FState ι α)
    (hh : isHomogeneous (kb i) = false) (hj : foldJoin (relsOf kb i s) = none) :
    groundings kb i down s = (s, none) := by
  unfold relsOf at hj
  unfold groundings
  simp only [hh, Bool.false_eq_true, if_false, hj]

theorem groundings_hetero_empty (kb : FKB ι α) (i : ι) (down : Bool) (s : FState ι α) {j : Rel}
    (hh : isHomogeneous (kb i) = false) (hj : foldJoin (relsOf kb i s) = some j)
    (hne : j.rows.isEmpty = true) :
    groundings kb i down s = (s, none) := by
  unfold relsOf at hj
  unfold groundings
  simp only [hh, Bool.false_eq_true, if_false, hj, hne, if_true]

/-- `groundings` never removes a row -/
theorem groundings_keys_mono (kb : FKB ι α) (i : ι) (down : Bool) (s : FState ι α) (j : ι) (g : Gr)
    (h : g ∈ (s.get j).keys) : g ∈ ((groundings kb i down s).1.get j).keys := by
  cases hh : isHomogeneous (kb i) with
  | true =>
    rw [groundings_homog kb i down s hh]
    simp only [mem_keys_addAll]
    exact .inl (.inl h)
  | false =>
    cases hj : foldJoin (relsOf kb i s) with
    | none => rw [groundings_hetero_none kb i down s hh hj]; exact h
    | some J =>
      cases hne : J.rows.isEmpty with
      | true => rw [groundings_hetero_empty kb i down s hh hj hne]; exact h
      | false =>
        rw [groundings_hetero kb i down s hh hj hne]
        simp only [mem_keys_addAll]
        exact .inl (.inl h)

/-! ### `fUpConn` only rewrites bounds -/

section Up
variable [Field α] [LinearOrder α]

theorem keys_aggRow (t : Table α) (g : Gr) (sel : BoundSel) (new : Bounds α) :
    (aggRow t g sel new).1.keys = t.keys := by
  unfold aggRow
  split
  · simp only [keys_setB]
  · rfl

theorem foldl_aggRow_keys (items : List (Gr × Bounds α)) :
    ∀ acc : Table α × α,
      (items.foldl (fun (acc : Table α × α) it =>
        ((aggRow acc.1 it.1 .both it.2).1, acc.2 + (aggRow acc.1 it.1 .both it.2).2)) acc).1.keys
        = acc.1.keys := by
  induction items with
  | nil => intro acc; rfl
  | cons it items ih =>
    intro acc
    rw [List.foldl_cons, ih]
    exact keys_aggRow _ _ _ _

/-- upward inference leaves the set of rows of every table as `groundings` made it -/
theorem fUpConn_keys (kb : FKB ι α) (i : ι) (s : FState ι α) (j : ι) :
    ((fUpConn kb i s).1.get j).keys = ((groundings kb i false s).1.get j).keys := by
  unfold fUpConn
  generalize groundings kb i false s = G
  obtain ⟨s1, _ | ⟨ogs, per⟩⟩ := G
  · rfl
  · simp only
    by_cases hij : i = j
    · subst hij
      rw [get_set_self]
      exact foldl_aggRow_keys _ _
    · rw [get_set_ne _ hij]

end Up

end Tables

end Join

/-! ### tables as finite maps -/

/-- the finite map denoted by a table: grounding ↦ (leaf bounds, working bounds) -/
def Table.denote {α : Type} (t : Table α) : Gr → Option (Bounds α × Bounds α) :=
  fun g => (t.find? g).map fun r => (r.leaf, r.b)

/-- two tables denote the same finite map -/
def TEq {α : Type} (t t' : Table α) : Prop := ∀ g, t.denote g = t'.denote g

namespace Join

section Denote
variable {α : Type}

theorem find?_nil (g : Gr) : Table.find? ([] : Table α) g = none := rfl

theorem find?_cons (r : Row α) (t : Table α) (g : Gr) :
    Table.find? (r :: t) g = if r.g = g then some r else Table.find? t g := by
  unfold Table.find?
  rw [List.find?_cons]
  by_cases h : r.g = g
  · simp [h]
  · have hb : (r.g == g) = false := beq_eq_false_iff_ne.mpr h
    simp [hb, h]

theorem find?_key {t : Table α} {g : Gr} {r : Row α} (h : Table.find? t g = some r) : r.g = g := by
  have := List.find?_some h
  simpa using this

theorem denote_nil (g : Gr) : Table.denote ([] : Table α) g = none := rfl

theorem denote_cons (r : Row α) (t : Table α) (g : Gr) :
    Table.denote (r :: t) g = if r.g = g then some (r.leaf, r.b) else Table.denote t g := by
  unfold Table.denote
  rw [find?_cons]
  split <;> rfl

theorem denote_append (t t' : Table α) (g : Gr) :
    Table.denote (t ++ t') g = (Table.denote t g).or (Table.denote t' g) := by
  simp only [Table.denote, Table.find?, List.find?_append, Option.map_or]

theorem denote_isSome (t : Table α) (g : Gr) : (Table.denote t g).isSome = t.has g := by
  simp [Table.denote, Table.has]

theorem denote_isSome_iff {t : Table α} {g : Gr} : (Table.denote t g).isSome = true ↔ g ∈ t.keys := by
  rw [denote_isSome, has_iff_mem_keys]

theorem denote_eq_none_iff {t : Table α} {g : Gr} : Table.denote t g = none ↔ g ∉ t.keys := by
  rw [← denote_isSome_iff]
  cases Table.denote t g <;> simp

/-- `_add_groundings` as a map operation: existing entries win, the listed groundings that are
missing appear at the world default. Only MEMBERSHIP in `gs` matters. -/
theorem denote_addg (w : Bounds α) (g : Gr) :
    ∀ (gs : List Gr) (t : Table α),
      Table.denote (Table.addg w t gs) g =
        (Table.denote t g).or (if g ∈ gs then some (w, w) else none)
  | [], t => by simp [Table.addg]
  | g' :: gs, t => by
    simp only [Table.addg]
    split
    · rename_i h
      rw [denote_addg w g gs t]
      by_cases hg : g = g'
      · subst hg
        have hs : (Table.denote t g).isSome = true := by rw [denote_isSome]; exact h
        obtain ⟨x, hx⟩ := Option.isSome_iff_exists.mp hs
        simp [hx]
      · simp [List.mem_cons, hg]
    · rename_i h
      rw [denote_addg w g gs _, denote_append, denote_cons, denote_nil]
      by_cases hg : g' = g
      · subst hg
        have hn : Table.denote t g' = none := by
          rw [denote_eq_none_iff, ← has_iff_mem_keys]; exact h
        simp [hn]
      · have hg' : ¬ g = g' := fun e => hg e.symm
        simp [hg, hg']

/-- a row-wise rewrite that keeps the keys acts pointwise on the denoted map -/
theorem find?_map_keep (f : Row α → Row α) (hf : ∀ r, (f r).g = r.g) (g : Gr) :
    ∀ t : Table α, Table.find? (t.map f) g = (Table.find? t g).map f
  | [] => rfl
  | r :: t => by
    rw [List.map_cons, find?_cons, find?_cons, hf, find?_map_keep f hf g t]
    split <;> rfl

theorem denote_setB (t : Table α) (g : Gr) (b : Bounds α) (g' : Gr) :
    Table.denote (t.setB g b) g' =
      if g' = g then (Table.denote t g').map (fun x => (x.1, b)) else Table.denote t g' := by
  unfold Table.setB Table.denote
  rw [find?_map_keep _ (by intro r; split <;> rfl)]
  cases h : Table.find? t g' with
  | none => simp
  | some r =>
    have hk := find?_key h
    by_cases hg : g' = g
    · subst hg; simp [hk]
    · have : ¬ r.g = g := by rw [hk]; exact hg
      simp [hg, this]

theorem denote_resetBounds (t : Table α) (g : Gr) :
    Table.denote t.resetBounds g = (Table.denote t g).map (fun x => (x.1, x.1)) := by
  unfold Table.resetBounds Table.denote
  rw [find?_map_keep (fun r : Row α => { r with b := r.leaf }) (fun _ => rfl)]
  cases Table.find? t g <;> rfl

theorem denote_flushB (b : Bounds α) (t : Table α) (g : Gr) :
    Table.denote (Table.flushB b t) g = (Table.denote t g).map (fun x => (x.1, b)) := by
  unfold Table.flushB Table.denote
  rw [find?_map_keep (fun r : Row α => { r with b := b }) (fun _ => rfl)]
  cases Table.find? t g <;> rfl

theorem denote_assertAll (b : Bounds α) (t : Table α) (g : Gr) :
    Table.denote (Table.assertAll b t) g = (Table.denote t g).map (fun _ => (b, b)) := by
  unfold Table.assertAll Table.denote
  rw [find?_map_keep (fun r : Row α => (⟨r.g, b, b⟩ : Row α)) (fun _ => rfl)]
  cases Table.find? t g <;> rfl

/-- `add_data` as a map operation: plain update at `g` -/
theorem denote_addData (w : Bounds α) (t : Table α) (g : Gr) (b : Bounds α) (g' : Gr) :
    Table.denote (Table.addData w t g b) g' = if g' = g then some (b, b) else Table.denote t g' := by
  have hmap : ∀ u : Table α,
      Table.denote (u.map fun r => if r.g == g then (⟨g, b, b⟩ : Row α) else r) g' =
        if g' = g then (Table.denote u g').map (fun _ => (b, b)) else Table.denote u g' := by
    intro u
    unfold Table.denote
    rw [find?_map_keep _ (by
      intro r
      by_cases hr : r.g = g
      · simp [hr]
      · simp [hr])]
    cases h : Table.find? u g' with
    | none => simp
    | some r =>
      have hk := find?_key h
      by_cases hg : g' = g
      · subst hg; simp [hk]
      · have : ¬ r.g = g := by rw [hk]; exact hg
        simp [hg, this]
  unfold Table.addData
  rw [hmap, denote_addg]
  by_cases hg : g' = g
  · subst hg
    cases Table.denote t g' <;> simp
  · simp [hg]

theorem getD_eq_denote (w : Bounds α) (t : Table α) (g : Gr) :
    Table.getD w t g = ((Table.denote t g).map (·.2)).getD w := by
  unfold Table.getD Table.denote
  cases Table.find? t g <;> rfl

end Denote

/-! ### the join only depends on the SETS of input rows -/

/-- same set of rows -/
def RowsEq (a b : List (List Nat)) : Prop := ∀ r, r ∈ a ↔ r ∈ b

/-- same columns (as a list), same set of rows -/
def RelEq (R R' : Rel) : Prop := R.cols = R'.cols ∧ RowsEq R.rows R'.rows

theorem RowsEq.refl (a : List (List Nat)) : RowsEq a a := fun _ => Iff.rfl

theorem RowsEq.of_perm {a b : List (List Nat)} (h : a.Perm b) : RowsEq a b := fun _ => h.mem_iff

theorem RelEq.refl (R : Rel) : RelEq R R := ⟨rfl, RowsEq.refl _⟩

theorem RowsEq.isEmpty {a b : List (List Nat)} (h : RowsEq a b) : a.isEmpty = b.isEmpty := by
  cases a with
  | nil =>
    cases b with
    | nil => rfl
    | cons y ys => exact absurd ((h y).mpr List.mem_cons_self) List.not_mem_nil
  | cons x xs =>
    cases b with
    | nil => exact absurd ((h x).mp List.mem_cons_self) List.not_mem_nil
    | cons y ys => rfl

theorem mem_pick {cu cols : List Nat} {rows : List (List Nat)} {r : List Nat} :
    r ∈ pick cu cols rows ↔
      cu.all cols.contains = true ∧ ∃ x ∈ rows, (cu.map fun c => (Rel.val cols x c).getD 0) = r := by
  unfold pick
  split
  · rename_i h
    simp only [h, true_and, List.mem_map]
  · rename_i h
    simp only [h, false_and, List.not_mem_nil, Bool.false_eq_true]

theorem RowsEq.pick (cu cols : List Nat) {a b : List (List Nat)} (h : RowsEq a b) :
    RowsEq (pick cu cols a) (pick cu cols b) := by
  intro r
  rw [mem_pick, mem_pick]
  constructor
  · rintro ⟨hc, x, hx, e⟩; exact ⟨hc, x, (h x).mp hx, e⟩
  · rintro ⟨hc, x, hx, e⟩; exact ⟨hc, x, (h x).mpr hx, e⟩

theorem RowsEq.side (c1 c2 : List Nat) (left : Bool) {a a' b b' : List (List Nat)}
    (h1 : RowsEq a a') (h2 : RowsEq b b') :
    RowsEq (side c1 c2 a b left) (side c1 c2 a' b' left) := by
  intro r
  rw [mem_side, mem_side]
  constructor
  · rintro ⟨x, hx, y, hy, e⟩; exact ⟨x, (h1 x).mp hx, y, (h2 y).mp hy, e⟩
  · rintro ⟨x, hx, y, hy, e⟩; exact ⟨x, (h1 x).mpr hx, y, (h2 y).mpr hy, e⟩

theorem RowsEq.append {a a' b b' : List (List Nat)} (h1 : RowsEq a a') (h2 : RowsEq b b') :
    RowsEq (a ++ b) (a' ++ b') := by
  intro r
  rw [List.mem_append, List.mem_append, h1 r, h2 r]

theorem RowsEq.cross {a a' b b' : List (List Nat)} (h1 : RowsEq a a') (h2 : RowsEq b b') :
    RowsEq (a.flatMap fun x => b.map fun y => x ++ y) (a'.flatMap fun x => b'.map fun y => x ++ y) := by
  intro r
  simp only [List.mem_flatMap, List.mem_map]
  constructor
  · rintro ⟨x, hx, y, hy, e⟩; exact ⟨x, (h1 x).mp hx, y, (h2 y).mp hy, e⟩
  · rintro ⟨x, hx, y, hy, e⟩; exact ⟨x, (h1 x).mpr hx, y, (h2 y).mpr hy, e⟩

/-- membership in the rows of a join is determined by the membership predicates of the inputs
(and the result columns do not depend on the rows beyond their emptiness) -/
theorem foj_congr {T1 T1' T2 T2' : Rel} (h1 : RelEq T1 T1') (h2 : RelEq T2 T2') :
    RelEq (foj T1 T2) (foj T1' T2') := by
  obtain ⟨c1, r1⟩ := T1
  obtain ⟨c1', r1'⟩ := T1'
  obtain ⟨c2, r2⟩ := T2
  obtain ⟨c2', r2'⟩ := T2'
  obtain ⟨e1, h1⟩ := h1
  obtain ⟨e2, h2⟩ := h2
  simp only at e1 e2 h1 h2
  subst e1 e2
  rw [foj_eq, foj_eq]
  simp only [h1.isEmpty, h2.isEmpty]
  split
  · exact ⟨rfl, RowsEq.append (h1.pick _ _) (h2.pick _ _)⟩
  · split
    · exact ⟨rfl, RowsEq.cross h1 h2⟩
    · refine ⟨rfl, ?_⟩
      intro r
      simp only [mem_dedupKeepFirst]
      exact RowsEq.append (RowsEq.side _ _ _ h1 h2) (RowsEq.side _ _ _ h1 h2) r

theorem foldl_foj_congr :
    ∀ {rs rs' : List Rel}, List.Forall₂ RelEq rs rs' → ∀ {acc acc' : Rel}, RelEq acc acc' →
      RelEq (rs.foldl foj acc) (rs'.foldl foj acc')
  | _, _, .nil, _, _, h => h
  | _, _, .cons hR hrs, _, _, h => by
    rw [List.foldl_cons, List.foldl_cons]
    exact foldl_foj_congr hrs (foj_congr h hR)

/-- the n-ary join: same shape of result, same columns, same set of rows -/
theorem foldJoin_congr {rs rs' : List Rel} (h : List.Forall₂ RelEq rs rs') :
    (foldJoin rs = none ∧ foldJoin rs' = none) ∨
      ∃ J J', foldJoin rs = some J ∧ foldJoin rs' = some J' ∧ RelEq J J' := by
  cases h with
  | nil => exact .inl ⟨rfl, rfl⟩
  | cons hR hrs => exact .inr ⟨_, _, rfl, rfl, foldl_foj_congr hrs hR⟩

end Join

/-- two first-order states denote the same family of finite maps -/
def SEq {ι : Type} [DecidableEq ι] {α : Type} (s s' : FState ι α) : Prop :=
  ∀ j, TEq (s.get j) (s'.get j)

/-- the duplicate merge of `writeMerged` on a whole (non-empty) list of candidates -/
def mergeAll {α : Type} [LinearOrder α] : List (Bounds α) → Option (Bounds α)
  | [] => none
  | c :: cs => some (cs.foldl mergeB c)

namespace Join

/-! ### `TEq`, `SEq` are congruences for the table and state operations -/

section Congr
variable {ι : Type} [DecidableEq ι] {α : Type}

theorem _root_.LNN.TEq.refl (t : Table α) : TEq t t := fun _ => rfl
theorem _root_.LNN.TEq.symm {t t' : Table α} (h : TEq t t') : TEq t' t := fun g => (h g).symm
theorem _root_.LNN.TEq.trans {t t' t'' : Table α} (h : TEq t t') (h' : TEq t' t'') : TEq t t'' :=
  fun g => (h g).trans (h' g)

theorem _root_.LNN.TEq.mem_keys {t t' : Table α} (h : TEq t t') (g : Gr) : g ∈ t.keys ↔ g ∈ t'.keys := by
  rw [← denote_isSome_iff, ← denote_isSome_iff, h g]

theorem _root_.LNN.TEq.addg {t t' : Table α} (h : TEq t t') (w : Bounds α) {gs gs' : List Gr}
    (hg : ∀ g, g ∈ gs ↔ g ∈ gs') : TEq (Table.addg w t gs) (Table.addg w t' gs') := by
  intro g
  rw [denote_addg, denote_addg, h g]
  simp only [hg g]

theorem _root_.LNN.TEq.setB {t t' : Table α} (h : TEq t t') (g : Gr) (b : Bounds α) :
    TEq (t.setB g b) (t'.setB g b) := by
  intro g'
  rw [denote_setB, denote_setB, h g']

theorem _root_.LNN.TEq.addData {t t' : Table α} (h : TEq t t') (w : Bounds α) (g : Gr) (b : Bounds α) :
    TEq (Table.addData w t g b) (Table.addData w t' g b) := by
  intro g'
  rw [denote_addData, denote_addData, h g']

theorem _root_.LNN.TEq.resetBounds {t t' : Table α} (h : TEq t t') : TEq t.resetBounds t'.resetBounds := by
  intro g
  rw [denote_resetBounds, denote_resetBounds, h g]

theorem _root_.LNN.TEq.flushB {t t' : Table α} (h : TEq t t') (b : Bounds α) :
    TEq (Table.flushB b t) (Table.flushB b t') := by
  intro g
  rw [denote_flushB, denote_flushB, h g]

theorem _root_.LNN.TEq.assertAll {t t' : Table α} (h : TEq t t') (b : Bounds α) :
    TEq (Table.assertAll b t) (Table.assertAll b t') := by
  intro g
  rw [denote_assertAll, denote_assertAll, h g]

theorem _root_.LNN.TEq.getD {t t' : Table α} (h : TEq t t') (w : Bounds α) (g : Gr) :
    Table.getD w t g = Table.getD w t' g := by
  rw [getD_eq_denote, getD_eq_denote, h g]

theorem _root_.LNN.TEq.has {t t' : Table α} (h : TEq t t') (g : Gr) : t.has g = t'.has g := by
  rw [← denote_isSome, ← denote_isSome, h g]

theorem get_set (s : FState ι α) (i j : ι) (t : Table α) :
    (s.set i t).get j = if i = j then t else s.get j := by
  by_cases h : i = j
  · subst h; rw [get_set_self, if_pos rfl]
  · rw [get_set_ne _ h, if_neg h]

theorem _root_.LNN.SEq.refl (s : FState ι α) : SEq s s := fun _ => TEq.refl _

theorem _root_.LNN.SEq.set {s s' : FState ι α} (h : SEq s s') (i : ι) {t t' : Table α} (ht : TEq t t') :
    SEq (s.set i t) (s'.set i t') := by
  intro j
  rw [get_set, get_set]
  split
  · exact ht
  · exact h j

/-- same formulae in the same order, same SETS of groundings -/
def PairsEq (p p' : ι × List Gr) : Prop := p.1 = p'.1 ∧ ∀ g, g ∈ p.2 ↔ g ∈ p'.2

theorem _root_.LNN.SEq.addAll (kb : FKB ι α) :
    ∀ {ps ps' : List (ι × List Gr)}, List.Forall₂ PairsEq ps ps' →
      ∀ {s s' : FState ι α}, SEq s s' → SEq (addAll kb s ps) (addAll kb s' ps')
  | _, _, .nil, _, _, h => h
  | _, _, .cons (a := p) (b := p') hp hps, s, s', h => by
    rw [addAll_cons, addAll_cons]
    apply LNN.SEq.addAll kb hps
    obtain ⟨e, hg⟩ := hp
    rw [← e]
    exact LNN.SEq.set h _ (LNN.TEq.addg (h p.1) _ hg)

theorem _root_.LNN.SEq.addAll_single (kb : FKB ι α) (i : ι) {gs gs' : List Gr}
    (hg : ∀ g, g ∈ gs ↔ g ∈ gs') {s s' : FState ι α} (h : SEq s s') :
    SEq (addAll kb s [(i, gs)]) (addAll kb s' [(i, gs')]) :=
  LNN.SEq.addAll kb (List.Forall₂.cons (a := (i, gs)) (b := (i, gs')) ⟨rfl, hg⟩ .nil) h

theorem forall₂_map_map {A B : Type} {R : B → B → Prop} {f f' : A → B} :
    ∀ {l : List A}, (∀ x ∈ l, R (f x) (f' x)) → List.Forall₂ R (l.map f) (l.map f')
  | [], _ => .nil
  | x :: _, h => .cons (h x List.mem_cons_self)
      (forall₂_map_map fun y hy => h y (List.mem_cons_of_mem _ hy))

theorem forall₂_zip_map {A B C : Type} {R : A × C → A × C → Prop} {f f' : B → C} :
    ∀ {l₁ : List A} {l₂ : List B}, (∀ a, ∀ b ∈ l₂, R (a, f b) (a, f' b)) →
      List.Forall₂ R (l₁.zip (l₂.map f)) (l₁.zip (l₂.map f'))
  | [], _, _ => by simp
  | _ :: _, [], _ => by simp
  | a :: l₁, b :: l₂, h => by
    simp only [List.map_cons, List.zip_cons_cons]
    exact .cons (h a b List.mem_cons_self)
      (forall₂_zip_map fun a' b' hb' => h a' b' (List.mem_cons_of_mem _ hb'))

theorem relsOf_congr (kb : FKB ι α) (i : ι) {s s' : FState ι α} (h : SEq s s') :
    List.Forall₂ RelEq (relsOf kb i s) (relsOf kb i s') := by
  unfold relsOf
  apply forall₂_map_map
  intro p _
  exact ⟨rfl, fun g => LNN.TEq.mem_keys (h p.1) g⟩

theorem homGs_congr (kb : FKB ι α) (i : ι) (down : Bool) {s s' : FState ι α} (h : SEq s s')
    (g : Gr) : g ∈ homGs kb i down s ↔ g ∈ homGs kb i down s' := by
  unfold homGs
  rw [mem_unionKeys, mem_unionKeys]
  simp only [List.mem_append, List.mem_map]
  constructor
  · rintro ⟨l, (⟨j, hj, rfl⟩ | hl), hg⟩
    · exact ⟨_, .inl ⟨j, hj, rfl⟩, (LNN.TEq.mem_keys (h j) g).mp hg⟩
    · cases down with
      | false => simp at hl
      | true =>
        simp only [if_true, List.mem_singleton] at hl
        subst hl
        exact ⟨_, .inr (by simp), (LNN.TEq.mem_keys (h i) g).mp hg⟩
  · rintro ⟨l, (⟨j, hj, rfl⟩ | hl), hg⟩
    · exact ⟨_, .inl ⟨j, hj, rfl⟩, (LNN.TEq.mem_keys (h j) g).mpr hg⟩
    · cases down with
      | false => simp at hl
      | true =>
        simp only [if_true, List.mem_singleton] at hl
        subst hl
        exact ⟨_, .inr (by simp), (LNN.TEq.mem_keys (h i) g).mpr hg⟩

omit [DecidableEq ι] in
theorem mem_ogsOf {n : FNode ι α} {J : Rel} {g : Gr} :
    g ∈ ogsOf n J ↔ ∃ r ∈ J.rows, Rel.project J.cols r (List.range (numVars n)) = g := by
  simp [ogsOf]

omit [DecidableEq ι] in
theorem ogsOf_congr (n : FNode ι α) {J J' : Rel} (h : RelEq J J') (g : Gr) :
    g ∈ ogsOf n J ↔ g ∈ ogsOf n J' := by
  rw [mem_ogsOf, mem_ogsOf, h.1]
  constructor
  · rintro ⟨r, hr, e⟩; exact ⟨r, (h.2 r).mp hr, e⟩
  · rintro ⟨r, hr, e⟩; exact ⟨r, (h.2 r).mpr hr, e⟩

/-- GROUNDING MANAGEMENT IS ORDER-FREE: on states that denote the same finite maps it produces
states that denote the same finite maps, and returns the same SET of operator groundings. -/
theorem groundings_congr (kb : FKB ι α) (i : ι) (down : Bool) {s s' : FState ι α} (h : SEq s s') :
    SEq (groundings kb i down s).1 (groundings kb i down s').1 ∧
      (((groundings kb i down s).2 = none ∧ (groundings kb i down s').2 = none) ∨
        ∃ ogs per ogs' per', (groundings kb i down s).2 = some (ogs, per) ∧
          (groundings kb i down s').2 = some (ogs', per') ∧ ∀ g, g ∈ ogs ↔ g ∈ ogs') := by
  cases hh : isHomogeneous (kb i) with
  | true =>
    rw [groundings_homog kb i down s hh, groundings_homog kb i down s' hh]
    refine ⟨?_, .inr ⟨_, _, _, _, rfl, rfl, homGs_congr kb i down h⟩⟩
    dsimp only
    refine LNN.SEq.addAll_single kb i (homGs_congr kb i down h) ?_
    refine LNN.SEq.addAll kb ?_ h
    apply forall₂_map_map
    intro j _
    exact ⟨rfl, homGs_congr kb i down h⟩
  | false =>
    rcases foldJoin_congr (relsOf_congr kb i h) with ⟨h1, h2⟩ | ⟨J, J', h1, h2, hJ⟩
    · rw [groundings_hetero_none kb i down s hh h1, groundings_hetero_none kb i down s' hh h2]
      exact ⟨h, .inl ⟨rfl, rfl⟩⟩
    · cases hne : J.rows.isEmpty with
      | true =>
        have hne' : J'.rows.isEmpty = true := by rw [← hJ.2.isEmpty]; exact hne
        rw [groundings_hetero_empty kb i down s hh h1 hne,
          groundings_hetero_empty kb i down s' hh h2 hne']
        exact ⟨h, .inl ⟨rfl, rfl⟩⟩
      | false =>
        have hne' : J'.rows.isEmpty = false := by rw [← hJ.2.isEmpty]; exact hne
        rw [groundings_hetero kb i down s hh h1 hne, groundings_hetero kb i down s' hh h2 hne']
        refine ⟨?_, .inr ⟨_, _, _, _, rfl, rfl, ogsOf_congr _ hJ⟩⟩
        dsimp only
        refine LNN.SEq.addAll_single kb i (ogsOf_congr _ hJ) ?_
        refine LNN.SEq.addAll kb ?_ h
        unfold perOf
        apply forall₂_zip_map
        intro a m _
        refine ⟨rfl, fun g => ?_⟩
        simp only [List.mem_map, hJ.1]
        constructor
        · rintro ⟨r, hr, e⟩; exact ⟨r, (hJ.2 r).mp hr, e⟩
        · rintro ⟨r, hr, e⟩; exact ⟨r, (hJ.2 r).mpr hr, e⟩

end Congr

/-! ### the duplicate merge -/

section Merge
variable {α : Type} [LinearOrder α]

theorem mergeB_comm (a b : Bounds α) : mergeB a b = mergeB b a := by
  simp only [mergeB, max_comm, min_comm]

theorem mergeB_assoc (a b c : Bounds α) : mergeB (mergeB a b) c = mergeB a (mergeB b c) := by
  simp only [mergeB, max_assoc, min_assoc]

theorem mergeB_right_comm (a b c : Bounds α) : mergeB (mergeB a b) c = mergeB (mergeB a c) b := by
  rw [mergeB_assoc, mergeB_comm b c, ← mergeB_assoc]

theorem foldl_mergeB_perm {cs cs' : List (Bounds α)} (h : cs.Perm cs') (c : Bounds α) :
    cs.foldl mergeB c = cs'.foldl mergeB c :=
  h.foldl_eq' (fun x _ y _ z => mergeB_right_comm z x y) c

theorem mergeAll_perm {l l' : List (Bounds α)} (h : l.Perm l') : mergeAll l = mergeAll l' := by
  induction h with
  | nil => rfl
  | cons x h _ => simp only [mergeAll, foldl_mergeB_perm h]
  | swap x y l => simp only [mergeAll, List.foldl_cons, mergeB_comm x y]
  | trans _ _ ih1 ih2 => exact ih1.trans ih2

end Merge

/-! ### `writeMerged` does not depend on the order of the proposals -/

section Write
variable {α : Type} [Field α] [LinearOrder α]

omit [Field α] [LinearOrder α] in
theorem setB_comm (t : Table α) {x y : Gr} (h : x ≠ y) (b b' : Bounds α) :
    (t.setB x b).setB y b' = (t.setB y b').setB x b := by
  simp only [Table.setB, List.map_map]
  apply List.map_congr_left
  intro r _
  simp only [Function.comp]
  by_cases hx : r.g = x
  · simp [hx, h]
  · by_cases hy : r.g = y
    · simp [hy, Ne.symm h]
    · simp [hx, hy]

/-- the candidates that land on row `r` (key `g`) -/
def candsOf (r : Row α) (props : List (Gr × Bounds α)) (g : Gr) : List (Bounds α) :=
  (props.filter (·.1 == g)).map fun p => (aggregate .both r.b p.2).1

def mergeStep (acc : Table α × α) (g : Gr) (r : Row α) : Option (Bounds α) → Table α × α
  | none => acc
  | some m => (acc.1.setB g m, acc.2 + (|m.lo - r.b.lo| + |m.hi - r.b.hi|))

/-- one step of the fold inside `writeMerged` -/
def stepW (t : Table α) (props : List (Gr × Bounds α)) (acc : Table α × α) (g : Gr) : Table α × α :=
  match t.find? g with
  | none => acc
  | some r => mergeStep acc g r (mergeAll (candsOf r props g))

theorem writeMerged_eq (t : Table α) (props : List (Gr × Bounds α)) :
    writeMerged t props = (dedupKeepFirst (props.map (·.1))).foldl (stepW t props) (t, 0) := by
  unfold writeMerged
  apply List.foldl_ext
  intro acc g _
  unfold stepW
  cases t.find? g with
  | none => rfl
  | some r =>
    simp only
    unfold candsOf
    cases (List.map (fun p : Gr × Bounds α => (aggregate BoundSel.both r.b p.2).1)
      (List.filter (fun x => x.1 == g) props)) with
    | nil => rfl
    | cons c cs => rfl

theorem candsOf_perm (r : Row α) {props props' : List (Gr × Bounds α)} (h : props.Perm props')
    (g : Gr) : (candsOf r props g).Perm (candsOf r props' g) :=
  (h.filter _).map _

theorem stepW_perm (t : Table α) {props props' : List (Gr × Bounds α)} (h : props.Perm props') :
    stepW t props = stepW t props' := by
  funext acc g
  unfold stepW
  cases t.find? g with
  | none => rfl
  | some r => simp only [mergeAll_perm (candsOf_perm r h g)]

theorem stepW_comm (t : Table α) (props : List (Gr × Bounds α)) (x y : Gr) (z : Table α × α) :
    stepW t props (stepW t props z x) y = stepW t props (stepW t props z y) x := by
  by_cases hxy : x = y
  · subst hxy; rfl
  · unfold stepW
    cases t.find? x with
    | none => rfl
    | some rx =>
      cases t.find? y with
      | none => rfl
      | some ry =>
        simp only
        cases mergeAll (candsOf rx props x) with
        | none => rfl
        | some mx =>
          cases mergeAll (candsOf ry props y) with
          | none => rfl
          | some my =>
            simp only [mergeStep]
            rw [setB_comm _ hxy, add_right_comm]

/-- the downward write-back onto an operand table is invariant under any reordering of the
proposals (new table AND reported amount, as values — not just up to `TEq`) -/
theorem writeMerged_perm (t : Table α) {props props' : List (Gr × Bounds α)}
    (h : props.Perm props') : writeMerged t props = writeMerged t props' := by
  rw [writeMerged_eq, writeMerged_eq, stepW_perm t h]
  have hk : (dedupKeepFirst (props.map (·.1))).Perm (dedupKeepFirst (props'.map (·.1))) := by
    rw [List.perm_ext_iff_of_nodup (nodup_dedupKeepFirst _) (nodup_dedupKeepFirst _)]
    intro a
    rw [mem_dedupKeepFirst, mem_dedupKeepFirst]
    exact (h.map _).mem_iff
  exact hk.foldl_eq' (fun x _ y _ z => stepW_comm t props' x y z) _

end Write

end Join

/-- `add_data` with a whole dictionary of facts, entry by entry -/
def loadFacts {α : Type} (w : Bounds α) (t : Table α) (fs : List (Gr × Bounds α)) : Table α :=
  fs.foldl (fun t f => Table.addData w t f.1 f.2) t

namespace Join

section Load
variable {α : Type}

theorem loadFacts_cons (w : Bounds α) (t : Table α) (f : Gr × Bounds α) (fs : List (Gr × Bounds α)) :
    loadFacts w t (f :: fs) = loadFacts w (Table.addData w t f.1 f.2) fs := rfl

theorem denote_loadFacts_of_not_mem (w : Bounds α) (g : Gr) :
    ∀ (fs : List (Gr × Bounds α)) (t : Table α), g ∉ fs.map (·.1) →
      Table.denote (loadFacts w t fs) g = Table.denote t g
  | [], _, _ => rfl
  | f :: fs, t, h => by
    simp only [List.map_cons, List.mem_cons, not_or] at h
    rw [loadFacts_cons, denote_loadFacts_of_not_mem w g fs _ h.2, denote_addData, if_neg h.1]

theorem denote_loadFacts_of_mem (w : Bounds α) (g : Gr) (b : Bounds α) :
    ∀ (fs : List (Gr × Bounds α)) (t : Table α), (fs.map (·.1)).Nodup → (g, b) ∈ fs →
      Table.denote (loadFacts w t fs) g = some (b, b)
  | [], _, _, h => by cases h
  | f :: fs, t, hn, h => by
    simp only [List.map_cons, List.nodup_cons] at hn
    rw [loadFacts_cons]
    rcases List.mem_cons.mp h with rfl | h
    · rw [denote_loadFacts_of_not_mem w _ fs _ hn.1, denote_addData, if_pos rfl]
    · exact denote_loadFacts_of_mem w g b fs _ hn.2 h

theorem loadFacts_congr (w : Bounds α) :
    ∀ (fs : List (Gr × Bounds α)) {t t' : Table α}, TEq t t' →
      TEq (loadFacts w t fs) (loadFacts w t' fs)
  | [], _, _, h => h
  | f :: fs, _, _, h => by
    rw [loadFacts_cons, loadFacts_cons]
    exact loadFacts_congr w fs (h.addData w f.1 f.2)

end Load

/-! ### folds of commuting idempotent steps depend only on the SET of inputs -/

section FoldSet
variable {β γ : Type}

/-- an element that occurs in `l` is absorbed when applied before `l` -/
theorem foldl_absorb (f : β → γ → β) (S : γ → Prop)
    (hcomm : ∀ x y, S x → S y → ∀ z, f (f z x) y = f (f z y) x)
    (hidem : ∀ x, S x → ∀ z, f (f z x) x = f z x) (x : γ) (hx : S x) :
    ∀ (l : List γ), (∀ y ∈ l, S y) → x ∈ l → ∀ z, l.foldl f (f z x) = l.foldl f z
  | [], _, h, _ => by cases h
  | y :: l, hS, h, z => by
    rw [List.foldl_cons, List.foldl_cons]
    by_cases hyx : y = x
    · subst hyx; rw [hidem y hx]
    · have hxl : x ∈ l := by
        rcases List.mem_cons.mp h with e | e
        · exact absurd e.symm hyx
        · exact e
      rw [hcomm x y hx (hS y List.mem_cons_self),
        foldl_absorb f S hcomm hidem x hx l (fun y' hy' => hS y' (List.mem_cons_of_mem _ hy')) hxl]

theorem foldl_append_absorb (f : β → γ → β) (S : γ → Prop)
    (hcomm : ∀ x y, S x → S y → ∀ z, f (f z x) y = f (f z y) x)
    (hidem : ∀ x, S x → ∀ z, f (f z x) x = f z x) (z : β) :
    ∀ (l' l : List γ), (∀ y ∈ l, S y) → (∀ y ∈ l', y ∈ l) → (l ++ l').foldl f z = l.foldl f z
  | [], l, _, _ => by rw [List.append_nil]
  | x :: l', l, hS, hsub => by
    have hx : x ∈ l := hsub x List.mem_cons_self
    have hS' : ∀ y ∈ l ++ [x], S y := by
      intro y hy
      rcases List.mem_append.mp hy with h | h
      · exact hS y h
      · rw [List.mem_singleton.mp h]; exact hS x hx
    have e : l ++ x :: l' = (l ++ [x]) ++ l' := by simp
    rw [e, foldl_append_absorb f S hcomm hidem z l' (l ++ [x]) hS'
      (fun y hy => List.mem_append_left _ (hsub y (List.mem_cons_of_mem _ hy)))]
    have hp : (l ++ [x]).Perm (x :: l) := List.perm_append_singleton x l
    rw [hp.foldl_eq' (fun a ha b hb z => hcomm a b (hS' a ha) (hS' b hb) z) z, List.foldl_cons,
      foldl_absorb f S hcomm hidem x (hS x hx) l hS hx]

/-- a fold of pairwise commuting, idempotent steps gives the same result on any two lists with
the same set of elements (order and multiplicity are irrelevant) -/
theorem foldl_eq_of_mem_iff (f : β → γ → β) (S : γ → Prop)
    (hcomm : ∀ x y, S x → S y → ∀ z, f (f z x) y = f (f z y) x)
    (hidem : ∀ x, S x → ∀ z, f (f z x) x = f z x) {l l' : List γ}
    (hS : ∀ y ∈ l, S y) (hset : ∀ y, y ∈ l ↔ y ∈ l') (z : β) : l.foldl f z = l'.foldl f z := by
  have hS' : ∀ y ∈ l', S y := fun y hy => hS y ((hset y).mpr hy)
  rw [← foldl_append_absorb f S hcomm hidem z l' l hS (fun y hy => (hset y).mpr hy),
    ← foldl_append_absorb f S hcomm hidem z l l' hS' (fun y hy => (hset y).mp hy)]
  have hSa : ∀ y ∈ l ++ l', S y := by
    intro y hy
    rcases List.mem_append.mp hy with h | h
    · exact hS y h
    · exact hS' y h
  exact (List.perm_append_comm (l₁ := l) (l₂ := l')).foldl_eq'
    (fun a ha b hb z => hcomm a b (hSa a ha) (hSa b hb) z) z

end FoldSet

/-! ### `aggRow`: steps on different rows commute, a repeated step is absorbed -/

section AggRow
variable {α : Type}

theorem find?_setB (t : Table α) (g : Gr) (b : Bounds α) (g' : Gr) :
    Table.find? (t.setB g b) g' =
      (Table.find? t g').map fun r => if r.g == g then { r with b := b } else r := by
  unfold Table.setB
  exact find?_map_keep _ (by intro r; split <;> rfl) g' t

theorem find?_setB_ne (t : Table α) {g g' : Gr} (h : g' ≠ g) (b : Bounds α) :
    Table.find? (t.setB g b) g' = Table.find? t g' := by
  rw [find?_setB]
  cases h' : Table.find? t g' with
  | none => rfl
  | some r =>
    have hk := find?_key h'
    have : ¬ r.g = g := by rw [hk]; exact h
    simp [this]

theorem find?_setB_self (t : Table α) (g : Gr) (b : Bounds α) :
    Table.find? (t.setB g b) g = (Table.find? t g).map fun r => { r with b := b } := by
  rw [find?_setB]
  cases h' : Table.find? t g with
  | none => rfl
  | some r =>
    have hk := find?_key h'
    simp [hk]

theorem setB_setB (t : Table α) (g : Gr) (b b' : Bounds α) :
    (t.setB g b).setB g b' = t.setB g b' := by
  simp only [Table.setB, List.map_map]
  apply List.map_congr_left
  intro r _
  simp only [Function.comp]
  by_cases hr : r.g = g
  · simp [hr]
  · simp [hr]

variable [Field α] [LinearOrder α]

theorem aggRow_some {t : Table α} {g : Gr} {r : Row α} (h : Table.find? t g = some r)
    (sel : BoundSel) (new : Bounds α) :
    aggRow t g sel new = (t.setB g (aggregate sel r.b new).1, (aggregate sel r.b new).2) := by
  unfold aggRow
  rw [h]

theorem aggRow_none {t : Table α} {g : Gr} (h : Table.find? t g = none)
    (sel : BoundSel) (new : Bounds α) : aggRow t g sel new = (t, 0) := by
  unfold aggRow
  rw [h]

theorem find?_aggRow_ne (t : Table α) {g g' : Gr} (h : g' ≠ g) (sel : BoundSel) (new : Bounds α) :
    Table.find? (aggRow t g sel new).1 g' = Table.find? t g' := by
  cases hx : Table.find? t g with
  | none => rw [aggRow_none hx]
  | some r => rw [aggRow_some hx]; exact find?_setB_ne t h _

theorem aggRow_comm (t : Table α) {g₁ g₂ : Gr} (h : g₁ ≠ g₂) (sel : BoundSel) (p₁ p₂ : Bounds α) :
    (aggRow (aggRow t g₁ sel p₁).1 g₂ sel p₂).1 = (aggRow (aggRow t g₂ sel p₂).1 g₁ sel p₁).1 ∧
      (aggRow (aggRow t g₁ sel p₁).1 g₂ sel p₂).2 = (aggRow t g₂ sel p₂).2 ∧
      (aggRow (aggRow t g₂ sel p₂).1 g₁ sel p₁).2 = (aggRow t g₁ sel p₁).2 := by
  have e2 := find?_aggRow_ne t (Ne.symm h) sel p₁
  have e1 := find?_aggRow_ne t h sel p₂
  cases h1 : Table.find? t g₁ with
  | none =>
    cases h2 : Table.find? t g₂ with
    | none =>
      rw [h2] at e2; rw [h1] at e1
      rw [aggRow_none e2, aggRow_none e1, aggRow_none h1, aggRow_none h2]
      exact ⟨rfl, rfl, rfl⟩
    | some r2 =>
      rw [h2] at e2; rw [h1] at e1
      rw [aggRow_some e2, aggRow_none e1, aggRow_none h1, aggRow_some h2]
      exact ⟨rfl, rfl, rfl⟩
  | some r1 =>
    cases h2 : Table.find? t g₂ with
    | none =>
      rw [h2] at e2; rw [h1] at e1
      rw [aggRow_none e2, aggRow_some e1, aggRow_some h1, aggRow_none h2]
      exact ⟨rfl, rfl, rfl⟩
    | some r2 =>
      rw [h2] at e2; rw [h1] at e1
      rw [aggRow_some e2, aggRow_some e1, aggRow_some h1, aggRow_some h2]
      exact ⟨setB_comm t h _ _, rfl, rfl⟩

/-- `aggRow` is a function of the denoted map -/
theorem aggRow_congr {t t' : Table α} (h : TEq t t') (g : Gr) (sel : BoundSel) (p : Bounds α) :
    TEq (aggRow t g sel p).1 (aggRow t' g sel p).1 ∧ (aggRow t g sel p).2 = (aggRow t' g sel p).2 := by
  have hg := h g
  unfold Table.denote at hg
  cases hx : Table.find? t g with
  | none =>
    cases hx' : Table.find? t' g with
    | none => rw [aggRow_none hx, aggRow_none hx']; exact ⟨h, rfl⟩
    | some r' => rw [hx, hx'] at hg; cases hg
  | some r =>
    cases hx' : Table.find? t' g with
    | none => rw [hx, hx'] at hg; cases hg
    | some r' =>
      rw [hx, hx'] at hg
      simp only [Option.map_some, Option.some.injEq, Prod.mk.injEq] at hg
      rw [aggRow_some hx, aggRow_some hx', hg.2]
      exact ⟨h.setB _ _, rfl⟩

/-- the step of the fold in `fUpConn` (and `fUpNot`) -/
def stepA (acc : Table α × α) (it : Gr × Bounds α) : Table α × α :=
  ((aggRow acc.1 it.1 .both it.2).1, acc.2 + (aggRow acc.1 it.1 .both it.2).2)

theorem stepA_comm {x y : Gr × Bounds α} (h : x.1 ≠ y.1) (z : Table α × α) :
    stepA (stepA z x) y = stepA (stepA z y) x := by
  obtain ⟨e1, e2, e3⟩ := aggRow_comm z.1 h .both x.2 y.2
  simp only [stepA]
  rw [e1, e2, e3, add_right_comm]

theorem foldl_stepA_congr :
    ∀ (l : List (Gr × Bounds α)) {z z' : Table α × α}, TEq z.1 z'.1 → z.2 = z'.2 →
      TEq (l.foldl stepA z).1 (l.foldl stepA z').1 ∧ (l.foldl stepA z).2 = (l.foldl stepA z').2
  | [], _, _, h1, h2 => ⟨h1, h2⟩
  | x :: l, z, z', h1, h2 => by
    rw [List.foldl_cons, List.foldl_cons]
    obtain ⟨e1, e2⟩ := aggRow_congr h1 x.1 .both x.2
    exact foldl_stepA_congr l (z := stepA z x) (z' := stepA z' x) e1 (by simp only [stepA, e2, h2])

variable [IsStrictOrderedRing α]

omit [IsStrictOrderedRing α] in
theorem clamp01_monotone : Monotone (clamp01 : α → α) := by
  intro x y h
  exact min_le_min le_rfl (max_le_max le_rfl h)

theorem clamp01_clamp01 (x : α) : clamp01 (clamp01 x) = clamp01 x := by
  unfold clamp01
  have h0 : (0 : α) ≤ min 1 (max 0 x) := le_min zero_le_one (le_max_left _ _)
  rw [max_eq_right h0]
  exact min_eq_right (min_le_left _ _)

theorem aggregate_idem (prev new : Bounds α) :
    aggregate .both (aggregate .both prev new).1 new = ((aggregate .both prev new).1, 0) := by
  have hlo : clamp01 (max (clamp01 (max prev.lo new.lo)) new.lo) = clamp01 (max prev.lo new.lo) := by
    rw [clamp01_monotone.map_max, clamp01_clamp01]
    exact max_eq_left (clamp01_monotone (le_max_right _ _))
  have hhi : clamp01 (min (clamp01 (min prev.hi new.hi)) new.hi) = clamp01 (min prev.hi new.hi) := by
    rw [clamp01_monotone.map_min, clamp01_clamp01]
    exact min_eq_left (clamp01_monotone (min_le_right _ _))
  simp [aggregate, hlo, hhi]

theorem aggRow_idem (t : Table α) (g : Gr) (p : Bounds α) :
    aggRow (aggRow t g .both p).1 g .both p = ((aggRow t g .both p).1, 0) := by
  cases hx : Table.find? t g with
  | none => rw [aggRow_none hx, aggRow_none hx]
  | some r =>
    rw [aggRow_some hx]
    have hx' : Table.find? (t.setB g (aggregate .both r.b p).1) g =
        some { r with b := (aggregate .both r.b p).1 } := by
      rw [find?_setB_self, hx]; rfl
    rw [aggRow_some hx']
    simp only [aggregate_idem, setB_setB]

theorem stepA_idem (x : Gr × Bounds α) (z : Table α × α) : stepA (stepA z x) x = stepA z x := by
  simp only [stepA, aggRow_idem, add_zero]

/-- the aggregation fold over a list of proposals in which a grounding always carries the same
proposal depends only on the SET of proposals -/
theorem foldl_stepA_set {l l' : List (Gr × Bounds α)}
    (hfun : ∀ x ∈ l, ∀ y ∈ l, x.1 = y.1 → x = y) (hset : ∀ y, y ∈ l ↔ y ∈ l')
    (z : Table α × α) : l.foldl stepA z = l'.foldl stepA z := by
  refine foldl_eq_of_mem_iff stepA (· ∈ l) ?_ (fun x _ z => stepA_idem x z) (fun _ h => h) hset z
  intro x y hx hy z
  by_cases hxy : x.1 = y.1
  · rw [hfun x hx y hy hxy]
  · exact stepA_comm hxy z

end AggRow

/-! ### the upward pass of a connective is order-free -/

section UpCongr
variable {ι : Type} [DecidableEq ι] {α : Type} [Field α] [LinearOrder α]

/-- the proposal for operator grounding `g` reading the operand groundings `opgs` -/
def itemOf (kb : FKB ι α) (i : ι) (s1 : FState ι α) (g : Gr) (opgs : List Gr) :
    Option (Gr × Bounds α) :=
  let bs := List.zipWith (fun j g => Table.getD (kb j).world (s1.get j) g) (kb i).ops opgs
  if (bs.take 2).any (isContra (kb i).alpha) then none else some (g, fActUp (kb i) bs)

def upItems (kb : FKB ι α) (i : ι) (s1 : FState ι α) (ogs : List Gr) (per : List (List Gr)) :
    List (Gr × Bounds α) :=
  (List.range ogs.length).filterMap fun k => itemOf kb i s1 (ogs.getD k []) (rowsOf per k)

theorem fUpConn_eq (kb : FKB ι α) (i : ι) (s : FState ι α) :
    fUpConn kb i s =
      match groundings kb i false s with
      | (s1, none) => (s1, 0)
      | (s1, some (ogs, per)) =>
        (s1.set i ((upItems kb i s1 ogs per).foldl stepA (s1.get i, 0)).1,
          ((upItems kb i s1 ogs per).foldl stepA (s1.get i, 0)).2) := rfl

theorem map_getD_range {A : Type} (l : List A) (d : A) :
    (List.range l.length).map (fun k => l.getD k d) = l := by
  apply List.ext_getElem
  · simp
  · intro k h1 h2
    simp [List.getD_eq_getElem?_getD, List.getElem?_eq_getElem h2]

theorem upItems_eq (kb : FKB ι α) (i : ι) (s1 : FState ι α) (ogs : List Gr) (per : List (List Gr))
    (opF : Gr → List Gr) (hF : ∀ k < ogs.length, rowsOf per k = opF (ogs.getD k [])) :
    upItems kb i s1 ogs per = ogs.filterMap fun g => itemOf kb i s1 g (opF g) := by
  unfold upItems
  conv_rhs => rw [← map_getD_range ogs []]
  rw [List.filterMap_map]
  apply List.filterMap_congr
  intro k hk
  simp only [Function.comp, hF k (List.mem_range.mp hk)]

theorem itemOf_fst {kb : FKB ι α} {i : ι} {s1 : FState ι α} {g : Gr} {o : List Gr}
    {x : Gr × Bounds α} (h : itemOf kb i s1 g o = some x) : x.1 = g := by
  unfold itemOf at h
  simp only at h
  split at h
  · cases h
  · simp only [Option.some.injEq] at h
    rw [← h]

theorem itemOf_congr (kb : FKB ι α) (i : ι) {s1 s1' : FState ι α} (h : SEq s1 s1') (g : Gr)
    (o : List Gr) : itemOf kb i s1 g o = itemOf kb i s1' g o := by
  have e : (fun j g => Table.getD (kb j).world (s1.get j) g) =
      fun j g => Table.getD (kb j).world (s1'.get j) g := by
    funext j g
    exact (h j).getD _ _
  unfold itemOf
  rw [e]

/-- operand groundings as a function of the operator grounding, join branch -/
def hetF (n : FNode ι α) (g : Gr) : List Gr := n.opmap.map fun m => m.map fun c => g.getD c 0

/-- … and union branch -/
def homF (n : FNode ι α) (g : Gr) : List Gr := n.ops.map fun _ => g

omit [DecidableEq ι] [Field α] [LinearOrder α] in
theorem rowsOf_hom (n : FNode ι α) (gs : List Gr) (k : Nat) :
    rowsOf (n.ops.map fun _ => gs) k = homF n (gs.getD k []) := by
  simp [rowsOf, homF]

theorem project_eq_of_slots {cols r m : List Nat} {N : Nat} (hm : ∀ c ∈ m, c < N) :
    Rel.project cols r m = m.map fun c => (Rel.project cols r (List.range N)).getD c 0 := by
  unfold Rel.project
  apply List.map_congr_left
  intro c hc
  simp [List.getD_eq_getElem?_getD, hm c hc]

omit [DecidableEq ι] [Field α] [LinearOrder α] in
theorem rowsOf_het (n : FNode ι α) (J : Rel) (hslots : ∀ m ∈ n.opmap, ∀ c ∈ m, c < numVars n)
    (k : Nat) (hk : k < (ogsOf n J).length) :
    rowsOf (perOf n J) k = hetF n ((ogsOf n J).getD k []) := by
  have hk' : k < J.rows.length := by simpa [ogsOf] using hk
  simp only [rowsOf, perOf, hetF, ogsOf, List.map_map]
  apply List.map_congr_left
  intro m hm
  simp only [Function.comp, List.getD_eq_getElem?_getD, List.getElem?_map,
    List.getElem?_eq_getElem hk', Option.map_some, Option.getD_some]
  exact project_eq_of_slots (hslots m hm)

variable [IsStrictOrderedRing α]

/-- the fold of `fUpConn`, from `SEq` states and lists of operator groundings with the same set
of elements whose operand groundings are given by one function `opF` -/
theorem up_core (kb : FKB ι α) (i : ι) {s1 s1' : FState ι α} (h1 : SEq s1 s1')
    {ogs ogs' : List Gr} {per per' : List (List Gr)} (opF : Gr → List Gr)
    (hF : ∀ k < ogs.length, rowsOf per k = opF (ogs.getD k []))
    (hF' : ∀ k < ogs'.length, rowsOf per' k = opF (ogs'.getD k []))
    (hset : ∀ g, g ∈ ogs ↔ g ∈ ogs') :
    TEq ((upItems kb i s1 ogs per).foldl stepA (s1.get i, 0)).1
        ((upItems kb i s1' ogs' per').foldl stepA (s1'.get i, 0)).1 ∧
      ((upItems kb i s1 ogs per).foldl stepA (s1.get i, 0)).2 =
        ((upItems kb i s1' ogs' per').foldl stepA (s1'.get i, 0)).2 := by
  rw [upItems_eq kb i s1 ogs per opF hF, upItems_eq kb i s1' ogs' per' opF hF']
  have hG : (fun g => itemOf kb i s1' g (opF g)) = fun g => itemOf kb i s1 g (opF g) := by
    funext g
    exact (itemOf_congr kb i h1 g _).symm
  rw [hG]
  have hfun : ∀ x ∈ ogs.filterMap (fun g => itemOf kb i s1 g (opF g)),
      ∀ y ∈ ogs.filterMap (fun g => itemOf kb i s1 g (opF g)), x.1 = y.1 → x = y := by
    intro x hx y hy hxy
    obtain ⟨gx, _, ex⟩ := List.mem_filterMap.mp hx
    obtain ⟨gy, _, ey⟩ := List.mem_filterMap.mp hy
    have e1 := itemOf_fst ex
    have e2 := itemOf_fst ey
    have : gx = gy := by rw [← e1, ← e2, hxy]
    subst this
    rw [ex] at ey
    exact Option.some.inj ey
  have hmem : ∀ y, y ∈ ogs.filterMap (fun g => itemOf kb i s1 g (opF g)) ↔
      y ∈ ogs'.filterMap (fun g => itemOf kb i s1 g (opF g)) := by
    intro y
    simp only [List.mem_filterMap]
    constructor
    · rintro ⟨g, hg, e⟩; exact ⟨g, (hset g).mp hg, e⟩
    · rintro ⟨g, hg, e⟩; exact ⟨g, (hset g).mpr hg, e⟩
  rw [foldl_stepA_set hfun hmem]
  exact foldl_stepA_congr _ (h1 i) rfl

/-- UPWARD INFERENCE OVER A CONNECTIVE IS ORDER-FREE: on states that denote the same finite maps
`fUpConn` produces states that denote the same finite maps and reports the same amount.
`hslots`: the variable maps only use slots `0 … numVars-1`. -/
theorem fUpConn_congr (kb : FKB ι α) (i : ι) {s s' : FState ι α} (h : SEq s s')
    (hslots : ∀ m ∈ (kb i).opmap, ∀ c ∈ m, c < numVars (kb i)) :
    SEq (fUpConn kb i s).1 (fUpConn kb i s').1 ∧ (fUpConn kb i s).2 = (fUpConn kb i s').2 := by
  have hG := (groundings_congr kb i false h).1
  rw [fUpConn_eq, fUpConn_eq]
  cases hh : isHomogeneous (kb i) with
  | true =>
    rw [groundings_homog kb i false s hh, groundings_homog kb i false s' hh] at hG
    rw [groundings_homog kb i false s hh, groundings_homog kb i false s' hh]
    dsimp only at hG ⊢
    obtain ⟨e1, e2⟩ := up_core kb i hG (homF (kb i)) (fun k _ => rowsOf_hom (kb i) _ k)
      (fun k _ => rowsOf_hom (kb i) _ k) (homGs_congr kb i false h)
    exact ⟨hG.set i e1, e2⟩
  | false =>
    rcases foldJoin_congr (relsOf_congr kb i h) with ⟨h1, h2⟩ | ⟨J, J', h1, h2, hJ⟩
    · rw [groundings_hetero_none kb i false s hh h1, groundings_hetero_none kb i false s' hh h2]
      exact ⟨h, rfl⟩
    · cases hne : J.rows.isEmpty with
      | true =>
        have hne' : J'.rows.isEmpty = true := by rw [← hJ.2.isEmpty]; exact hne
        rw [groundings_hetero_empty kb i false s hh h1 hne,
          groundings_hetero_empty kb i false s' hh h2 hne']
        exact ⟨h, rfl⟩
      | false =>
        have hne' : J'.rows.isEmpty = false := by rw [← hJ.2.isEmpty]; exact hne
        rw [groundings_hetero kb i false s hh h1 hne, groundings_hetero kb i false s' hh h2 hne']
          at hG
        rw [groundings_hetero kb i false s hh h1 hne, groundings_hetero kb i false s' hh h2 hne']
        dsimp only at hG ⊢
        obtain ⟨e1, e2⟩ := up_core kb i hG (hetF (kb i)) (rowsOf_het (kb i) J hslots)
          (rowsOf_het (kb i) J' hslots) (ogsOf_congr (kb i) hJ)
        exact ⟨hG.set i e1, e2⟩

/-- a fold of `aggRow` over a list of groundings with proposals given by a function of the
grounding: only the set of groundings and the denoted start table matter -/
theorem foldl_keys_congr {gs gs' : List Gr} (hset : ∀ g, g ∈ gs ↔ g ∈ gs') {P P' : Gr → Bounds α}
    (hP : ∀ g, P g = P' g) {t0 t0' : Table α} (ht : TEq t0 t0') :
    TEq (gs.foldl (fun (acc : Table α × α) g => stepA acc (g, P g)) (t0, 0)).1
        (gs'.foldl (fun (acc : Table α × α) g => stepA acc (g, P' g)) (t0', 0)).1 ∧
      (gs.foldl (fun (acc : Table α × α) g => stepA acc (g, P g)) (t0, 0)).2 =
        (gs'.foldl (fun (acc : Table α × α) g => stepA acc (g, P' g)) (t0', 0)).2 := by
  have e : P' = P := (funext hP).symm
  subst e
  have hm : ∀ (l : List Gr) (z : Table α × α),
      l.foldl (fun (acc : Table α × α) g => stepA acc (g, P' g)) z =
        (l.map fun g => (g, P' g)).foldl stepA z := by
    intro l z
    rw [List.foldl_map]
  rw [hm, hm]
  have hfun : ∀ x ∈ gs.map (fun g => (g, P' g)), ∀ y ∈ gs.map (fun g => (g, P' g)),
      x.1 = y.1 → x = y := by
    intro x hx y hy hxy
    obtain ⟨gx, _, rfl⟩ := List.mem_map.mp hx
    obtain ⟨gy, _, rfl⟩ := List.mem_map.mp hy
    simp only at hxy
    rw [hxy]
  have hmem : ∀ y, y ∈ gs.map (fun g => (g, P' g)) ↔ y ∈ gs'.map (fun g => (g, P' g)) := by
    intro y
    simp only [List.mem_map]
    constructor
    · rintro ⟨g, hg, e⟩; exact ⟨g, (hset g).mp hg, e⟩
    · rintro ⟨g, hg, e⟩; exact ⟨g, (hset g).mpr hg, e⟩
  rw [foldl_stepA_set hfun hmem]
  exact foldl_stepA_congr _ ht rfl

omit [DecidableEq ι] [Field α] [LinearOrder α] [IsStrictOrderedRing α] in
theorem keys_isEmpty_congr {t t' : Table α} (h : TEq t t') : t.keys.isEmpty = t'.keys.isEmpty := by
  cases hk : t.keys with
  | nil =>
    cases hk' : t'.keys with
    | nil => rfl
    | cons g _ =>
      have : g ∈ t.keys := (h.mem_keys g).mpr (by rw [hk']; exact List.mem_cons_self)
      rw [hk] at this; cases this
  | cons g _ =>
    cases hk' : t'.keys with
    | nil =>
      have : g ∈ t'.keys := (h.mem_keys g).mp (by rw [hk]; exact List.mem_cons_self)
      rw [hk'] at this; cases this
    | cons _ _ => rfl

omit [IsStrictOrderedRing α] in
theorem fUpNot_eq (kb : FKB ι α) (i : ι) (s : FState ι α) :
    fUpNot kb i s =
      match (kb i).ops with
      | [] => (s, 0)
      | j :: _ =>
        if (s.get j).keys.isEmpty then (s, 0) else
          (s.set i (((s.get j).keys.foldl (fun (acc : Table α × α) g =>
              stepA acc (g, negB (Table.getD (kb j).world (s.get j) g)))
              (Table.addg (kb i).world (s.get i) (s.get j).keys, 0)).1),
            ((s.get j).keys.foldl (fun (acc : Table α × α) g =>
              stepA acc (g, negB (Table.getD (kb j).world (s.get j) g)))
              (Table.addg (kb i).world (s.get i) (s.get j).keys, 0)).2) := rfl

omit [IsStrictOrderedRing α] in
theorem fDownNot_eq (kb : FKB ι α) (i : ι) (s : FState ι α) :
    fDownNot kb i s =
      match (kb i).ops with
      | [] => (s, 0)
      | j :: _ =>
        if (s.get i).keys.isEmpty then (s, 0) else
          (s.set j (((s.get i).keys.foldl (fun (acc : Table α × α) g =>
              stepA acc (g, negB (Table.getD (kb i).world (s.get i) g)))
              (Table.addg (kb j).world (s.get j) (s.get i).keys, 0)).1),
            ((s.get i).keys.foldl (fun (acc : Table α × α) g =>
              stepA acc (g, negB (Table.getD (kb i).world (s.get i) g)))
              (Table.addg (kb j).world (s.get j) (s.get i).keys, 0)).2) := rfl

/-- first-order negation, upward: order-free -/
theorem fUpNot_congr (kb : FKB ι α) (i : ι) {s s' : FState ι α} (h : SEq s s') :
    SEq (fUpNot kb i s).1 (fUpNot kb i s').1 ∧ (fUpNot kb i s).2 = (fUpNot kb i s').2 := by
  rw [fUpNot_eq, fUpNot_eq]
  cases (kb i).ops with
  | nil => exact ⟨h, rfl⟩
  | cons j _ =>
    simp only [keys_isEmpty_congr (h j)]
    split
    · exact ⟨h, rfl⟩
    · obtain ⟨e1, e2⟩ := foldl_keys_congr (fun g => (h j).mem_keys g)
        (P := fun g => negB (Table.getD (kb j).world (s.get j) g))
        (P' := fun g => negB (Table.getD (kb j).world (s'.get j) g))
        (fun g => by rw [(h j).getD])
        ((h i).addg (kb i).world fun g => (h j).mem_keys g)
      exact ⟨h.set i e1, e2⟩

/-- first-order negation, downward: order-free -/
theorem fDownNot_congr (kb : FKB ι α) (i : ι) {s s' : FState ι α} (h : SEq s s') :
    SEq (fDownNot kb i s).1 (fDownNot kb i s').1 ∧ (fDownNot kb i s).2 = (fDownNot kb i s').2 := by
  rw [fDownNot_eq, fDownNot_eq]
  cases (kb i).ops with
  | nil => exact ⟨h, rfl⟩
  | cons j _ =>
    simp only [keys_isEmpty_congr (h i)]
    split
    · exact ⟨h, rfl⟩
    · obtain ⟨e1, e2⟩ := foldl_keys_congr (fun g => (h i).mem_keys g)
        (P := fun g => negB (Table.getD (kb i).world (s.get i) g))
        (P' := fun g => negB (Table.getD (kb i).world (s'.get i) g))
        (fun g => by rw [(h i).getD])
        ((h j).addg (kb j).world fun g => (h i).mem_keys g)
      exact ⟨h.set j e1, e2⟩

end UpCongr

end Join
end LNN
