/-
Helper lemmas about the first-order tables (`Model/Fol.lean`) and the data API (`Model/Store.lean`),
shared by C14 (world defaults) and C15 (asserted data).

* reading: `find?`, `has`, `keys`, `getD`;
* row creation: `addg` only appends world-default rows for the missing groundings;
* every writer that is a `List.map` of a grounding-preserving function (`setB`, `addData`,
  `resetBounds`, `flushB`) reads back as "the same function applied to what was read before";
* the invariant `NodupKeys` (a grounding is stored at most once) is preserved by every operation;
* `FState.get` / `FState.set`, `addAll`, `groundings`;
* `List.mapM` in `Except` (validation of every entry before the first mutation).
-/
import LnnVerif.Model.Store
import Mathlib.Tactic.Tauto
import Mathlib.Data.List.Induction
import Mathlib.Data.List.Forall2

set_option linter.unusedSectionVars false

namespace LNN

/-! ## tables: no arithmetic involved -/

section plain

variable {α : Type}

namespace Table

/-- a grounding is stored at most once -/
def NodupKeys (t : Table α) : Prop := (Table.keys t).Nodup

/-! ### reading -/

@[simp] theorem find?_nil (g : Gr) : Table.find? ([] : Table α) g = none := rfl

theorem find?_cons (r : Row α) (t : Table α) (g : Gr) :
    Table.find? (r :: t) g = if r.g = g then some r else Table.find? t g := by
  unfold Table.find?
  by_cases h : r.g = g <;> simp [h]

@[simp] theorem keys_nil : Table.keys ([] : Table α) = [] := rfl

@[simp] theorem keys_cons (r : Row α) (t : Table α) : Table.keys (r :: t) = r.g :: Table.keys t := rfl

@[simp] theorem keys_append (t u : Table α) : Table.keys (t ++ u) = Table.keys t ++ Table.keys u := by
  unfold Table.keys; exact List.map_append

theorem mem_keys {t : Table α} {g : Gr} : g ∈ Table.keys t ↔ ∃ r ∈ t, r.g = g := by
  unfold Table.keys; exact List.mem_map

theorem find?_eq_none_iff {t : Table α} {g : Gr} : Table.find? t g = none ↔ g ∉ Table.keys t := by
  induction t with
  | nil => simp
  | cons r t ih =>
    rw [find?_cons, keys_cons, List.mem_cons]
    by_cases h : r.g = g
    · simp [h]
    · rw [if_neg h, ih]
      constructor
      · rintro h1 (h2 | h2)
        · exact h h2.symm
        · exact h1 h2
      · intro h1 h2; exact h1 (Or.inr h2)

theorem find?_some {t : Table α} {g : Gr} {r : Row α} (h : Table.find? t g = some r) :
    r ∈ t ∧ r.g = g := by
  unfold Table.find? at h
  refine ⟨List.mem_of_find?_eq_some h, ?_⟩
  have := List.find?_some h
  simpa using this

theorem find?_isSome_iff {t : Table α} {g : Gr} : (Table.find? t g).isSome = true ↔ g ∈ Table.keys t := by
  rw [← not_iff_not, ← find?_eq_none_iff]
  cases Table.find? t g <;> simp

theorem has_eq_true_iff {t : Table α} {g : Gr} : Table.has t g = true ↔ g ∈ Table.keys t :=
  find?_isSome_iff

theorem has_eq_false_iff {t : Table α} {g : Gr} : Table.has t g = false ↔ Table.find? t g = none := by
  unfold Table.has
  cases Table.find? t g <;> simp

theorem has_eq_false_iff_not_mem {t : Table α} {g : Gr} : Table.has t g = false ↔ g ∉ Table.keys t := by
  rw [has_eq_false_iff, find?_eq_none_iff]

theorem exists_find?_of_mem_keys {t : Table α} {g : Gr} (h : g ∈ Table.keys t) :
    ∃ r, Table.find? t g = some r := by
  cases hf : Table.find? t g with
  | none => exact absurd h (find?_eq_none_iff.mp hf)
  | some r => exact ⟨r, rfl⟩

theorem find?_append (t u : Table α) (g : Gr) :
    Table.find? (t ++ u) g = (Table.find? t g).or (Table.find? u g) := by
  unfold Table.find?; exact List.find?_append

/-- with at most one row per grounding, `find?` returns *the* row of that grounding -/
theorem NodupKeys.find?_of_mem {t : Table α} (hn : NodupKeys t) {r : Row α} (hr : r ∈ t) :
    Table.find? t r.g = some r := by
  induction t with
  | nil => simp at hr
  | cons x t ih =>
    unfold NodupKeys at hn
    rw [keys_cons, List.nodup_cons] at hn
    rw [find?_cons]
    rcases List.mem_cons.mp hr with e | e
    · subst e; simp
    · have : x.g ≠ r.g := fun h => hn.1 (h ▸ mem_keys.mpr ⟨r, e, rfl⟩)
      rw [if_neg this]
      exact ih hn.2 e

theorem NodupKeys.find?_eq_some_iff {t : Table α} (hn : NodupKeys t) {g : Gr} {r : Row α} :
    Table.find? t g = some r ↔ r ∈ t ∧ r.g = g := by
  constructor
  · exact find?_some
  · rintro ⟨h1, rfl⟩; exact hn.find?_of_mem h1

theorem getD_of_none {w : Bounds α} {t : Table α} {g : Gr} (h : Table.find? t g = none) :
    Table.getD w t g = w := by
  unfold Table.getD; rw [h]

theorem getD_of_some {w : Bounds α} {t : Table α} {g : Gr} {r : Row α} (h : Table.find? t g = some r) :
    Table.getD w t g = r.b := by
  unfold Table.getD; rw [h]

theorem getD_eq (w : Bounds α) (t : Table α) (g : Gr) :
    Table.getD w t g = ((Table.find? t g).map (·.b)).getD w := by
  unfold Table.getD; cases Table.find? t g <;> rfl

/-! ### writers that map a grounding-preserving function over the rows -/

theorem keys_map (f : Row α → Row α) (hf : ∀ r, (f r).g = r.g) (t : Table α) :
    Table.keys (t.map f) = Table.keys t := by
  unfold Table.keys
  rw [List.map_map]
  apply List.map_congr_left
  intro r _; exact hf r

theorem find?_map (f : Row α → Row α) (hf : ∀ r, (f r).g = r.g) (t : Table α) (g : Gr) :
    Table.find? (t.map f) g = (Table.find? t g).map f := by
  induction t with
  | nil => rfl
  | cons r t ih =>
    rw [List.map_cons, find?_cons, find?_cons, hf r]
    by_cases h : r.g = g
    · simp [h]
    · rw [if_neg h, if_neg h, ih]

theorem NodupKeys.map (f : Row α → Row α) (hf : ∀ r, (f r).g = r.g) {t : Table α}
    (h : NodupKeys t) : NodupKeys (t.map f) := by
  unfold NodupKeys; rw [keys_map f hf]; exact h

/-! ### `addg` -/

/-- `addg` appends, for the groundings of `gs` that are missing (each once, in order), a row at the
world default in both leaf and working bounds — and does nothing else. -/
theorem addg_eq_append (w : Bounds α) (t : Table α) (gs : List Gr) :
    ∃ ex : Table α, Table.addg w t gs = t ++ ex ∧
      (∀ r ∈ ex, r = ⟨r.g, w, w⟩ ∧ r.g ∈ gs ∧ r.g ∉ Table.keys t) ∧
      NodupKeys ex ∧ (∀ g ∈ gs, g ∈ Table.keys t ∨ g ∈ Table.keys ex) := by
  induction gs generalizing t with
  | nil => exact ⟨[], by simp [Table.addg], by simp, by simp [NodupKeys], by simp⟩
  | cons g gs ih =>
    unfold Table.addg
    by_cases hg : Table.has t g = true
    · rw [if_pos hg]
      obtain ⟨ex, h1, h2, h3, h4⟩ := ih t
      refine ⟨ex, h1, ?_, h3, ?_⟩
      · intro r hr
        obtain ⟨a, b, c⟩ := h2 r hr
        exact ⟨a, List.mem_cons_of_mem _ b, c⟩
      · intro g' hg'
        rcases List.mem_cons.mp hg' with e | e
        · subst e; exact Or.inl (has_eq_true_iff.mp hg)
        · exact h4 g' e
    · rw [if_neg hg]
      have hg' : g ∉ Table.keys t := fun h => hg (has_eq_true_iff.mpr h)
      obtain ⟨ex, h1, h2, h3, h4⟩ := ih (t ++ [⟨g, w, w⟩])
      refine ⟨⟨g, w, w⟩ :: ex, ?_, ?_, ?_, ?_⟩
      · rw [h1, List.append_assoc]; rfl
      · intro r hr
        rcases List.mem_cons.mp hr with e | e
        · subst e; exact ⟨rfl, List.mem_cons_self .., hg'⟩
        · obtain ⟨a, b, c⟩ := h2 r e
          refine ⟨a, List.mem_cons_of_mem _ b, ?_⟩
          intro h; apply c; rw [keys_append]; exact List.mem_append_left _ h
      · unfold NodupKeys
        rw [keys_cons, List.nodup_cons]
        refine ⟨?_, h3⟩
        intro h
        obtain ⟨r, hr, e⟩ := mem_keys.mp h
        apply (h2 r hr).2.2
        rw [keys_append, e]
        exact List.mem_append_right _ (by simp)
      · intro g'' hg''
        rw [keys_cons, List.mem_cons]
        rcases List.mem_cons.mp hg'' with e | e
        · exact Or.inr (Or.inl e)
        · rcases h4 g'' e with h | h
          · rw [keys_append, List.mem_append] at h
            rcases h with h | h
            · exact Or.inl h
            · simp at h; exact Or.inr (Or.inl h)
          · exact Or.inr (Or.inr h)

theorem addg_keeps {w : Bounds α} {t : Table α} {g : Gr} {r : Row α} (gs : List Gr)
    (h : Table.find? t g = some r) : Table.find? (Table.addg w t gs) g = some r := by
  obtain ⟨ex, h1, _⟩ := addg_eq_append w t gs
  rw [h1, find?_append, h]; rfl

theorem mem_keys_addg {w : Bounds α} {t : Table α} {gs : List Gr} {g : Gr} :
    g ∈ Table.keys (Table.addg w t gs) ↔ g ∈ Table.keys t ∨ g ∈ gs := by
  obtain ⟨ex, h1, h2, _, h4⟩ := addg_eq_append w t gs
  rw [h1, keys_append, List.mem_append]
  constructor
  · rintro (h | h)
    · exact Or.inl h
    · obtain ⟨r, hr, e⟩ := mem_keys.mp h
      exact Or.inr (e ▸ (h2 r hr).2.1)
  · rintro (h | h)
    · exact Or.inl h
    · exact h4 g h

theorem addg_new_row {w : Bounds α} {t : Table α} {gs : List Gr} {g : Gr} (hg : g ∈ gs)
    (hn : Table.has t g = false) : Table.find? (Table.addg w t gs) g = some ⟨g, w, w⟩ := by
  obtain ⟨ex, h1, h2, _, h4⟩ := addg_eq_append w t gs
  have hk : g ∉ Table.keys t := has_eq_false_iff_not_mem.mp hn
  rw [h1, find?_append, find?_eq_none_iff.mpr hk, Option.none_or]
  rcases h4 g hg with h | h
  · exact absurd h hk
  · obtain ⟨r, hr⟩ := exists_find?_of_mem_keys h
    obtain ⟨hm, e⟩ := find?_some hr
    rw [hr, (h2 r hm).1, e]

theorem addg_only_world (w : Bounds α) (t : Table α) (gs : List Gr) :
    ∀ r ∈ Table.addg w t gs, r ∈ t ∨ r = ⟨r.g, w, w⟩ := by
  obtain ⟨ex, h1, h2, _⟩ := addg_eq_append w t gs
  intro r hr
  rw [h1, List.mem_append] at hr
  rcases hr with h | h
  · exact Or.inl h
  · exact Or.inr (h2 r h).1

theorem mem_addg_of_mem {w : Bounds α} {t : Table α} (gs : List Gr) {r : Row α} (h : r ∈ t) :
    r ∈ Table.addg w t gs := by
  obtain ⟨ex, h1, _⟩ := addg_eq_append w t gs
  rw [h1]; exact List.mem_append_left _ h

/-- a grounding read after `addg` : what was stored before, else the world default if it was
requested, else still nothing -/
theorem find?_addg (w : Bounds α) (t : Table α) (gs : List Gr) (g : Gr) :
    Table.find? (Table.addg w t gs) g =
      match Table.find? t g with
      | some r => some r
      | none => if g ∈ gs then some ⟨g, w, w⟩ else none := by
  cases hf : Table.find? t g with
  | some r => exact addg_keeps gs hf
  | none =>
    simp only
    by_cases hg : g ∈ gs
    · rw [if_pos hg]; exact addg_new_row hg (has_eq_false_iff.mpr hf)
    · rw [if_neg hg, find?_eq_none_iff, mem_keys_addg]
      rintro (h | h)
      · exact find?_eq_none_iff.mp hf h
      · exact hg h

/-- reading through the world default does not see row creation -/
theorem getD_addg (w : Bounds α) (t : Table α) (gs : List Gr) (g : Gr) :
    Table.getD w (Table.addg w t gs) g = Table.getD w t g := by
  unfold Table.getD
  rw [find?_addg]
  cases Table.find? t g with
  | some r => rfl
  | none => simp only; split_ifs <;> rfl

theorem NodupKeys.addg {t : Table α} (h : NodupKeys t) (w : Bounds α) (gs : List Gr) :
    NodupKeys (Table.addg w t gs) := by
  obtain ⟨ex, h1, h2, h3, _⟩ := addg_eq_append w t gs
  unfold NodupKeys at *
  rw [h1, keys_append, List.nodup_append]
  refine ⟨h, h3, ?_⟩
  intro a ha b hb e
  obtain ⟨r, hr, e'⟩ := mem_keys.mp hb
  apply (h2 r hr).2.2
  rw [e', ← e]; exact ha

/-! ### `setB`, `addData`, `resetBounds`, `flushB` -/

theorem keys_setB (t : Table α) (g : Gr) (b : Bounds α) : Table.keys (Table.setB t g b) = Table.keys t := by
  unfold Table.setB
  apply keys_map
  intro r; split <;> rfl

theorem find?_setB (t : Table α) (g : Gr) (b : Bounds α) (g' : Gr) :
    Table.find? (Table.setB t g b) g' =
      (Table.find? t g').map fun r => if r.g == g then { r with b := b } else r := by
  unfold Table.setB
  apply find?_map
  intro r; split <;> rfl

theorem find?_setB_self (t : Table α) (g : Gr) (b : Bounds α) :
    Table.find? (Table.setB t g b) g = (Table.find? t g).map fun r => { r with b := b } := by
  rw [find?_setB]
  cases hf : Table.find? t g with
  | none => rfl
  | some r => simp [(find?_some hf).2]

theorem find?_setB_of_ne (t : Table α) {g g' : Gr} (b : Bounds α) (h : g' ≠ g) :
    Table.find? (Table.setB t g b) g' = Table.find? t g' := by
  rw [find?_setB]
  cases hf : Table.find? t g' with
  | none => rfl
  | some r => simp [(find?_some hf).2, h]

theorem leaf_setB (t : Table α) (g : Gr) (b : Bounds α) (g' : Gr) :
    (Table.find? (Table.setB t g b) g').map (·.leaf) = (Table.find? t g').map (·.leaf) := by
  rw [find?_setB, Option.map_map]
  cases Table.find? t g' with
  | none => rfl
  | some r => simp only [Option.map_some, Function.comp]; split <;> rfl

theorem NodupKeys.setB {t : Table α} (h : NodupKeys t) (g : Gr) (b : Bounds α) :
    NodupKeys (Table.setB t g b) := by
  unfold NodupKeys; rw [keys_setB]; exact h

theorem keys_resetBounds (t : Table α) : Table.keys (Table.resetBounds t) = Table.keys t :=
  keys_map (fun r => { r with b := r.leaf }) (fun _ => rfl) t

theorem find?_resetBounds (t : Table α) (g : Gr) :
    Table.find? (Table.resetBounds t) g = (Table.find? t g).map fun r => ⟨r.g, r.leaf, r.leaf⟩ :=
  find?_map (fun r => { r with b := r.leaf }) (fun _ => rfl) t g

theorem NodupKeys.resetBounds {t : Table α} (h : NodupKeys t) : NodupKeys (Table.resetBounds t) := by
  unfold NodupKeys; rw [keys_resetBounds]; exact h

theorem keys_flushB (b : Bounds α) (t : Table α) : Table.keys (Table.flushB b t) = Table.keys t :=
  keys_map (fun r => { r with b := b }) (fun _ => rfl) t

theorem find?_flushB (b : Bounds α) (t : Table α) (g : Gr) :
    Table.find? (Table.flushB b t) g = (Table.find? t g).map fun r => { r with b := b } :=
  find?_map (fun r => { r with b := b }) (fun _ => rfl) t g

theorem NodupKeys.flushB {t : Table α} (h : NodupKeys t) (b : Bounds α) :
    NodupKeys (Table.flushB b t) := by
  unfold NodupKeys; rw [keys_flushB]; exact h

theorem keys_assertAll (b : Bounds α) (t : Table α) : Table.keys (Table.assertAll b t) = Table.keys t :=
  keys_map (fun r => ⟨r.g, b, b⟩) (fun _ => rfl) t

theorem find?_assertAll (b : Bounds α) (t : Table α) (g : Gr) :
    Table.find? (Table.assertAll b t) g = (Table.find? t g).map fun r => ⟨r.g, b, b⟩ :=
  find?_map (fun r => ⟨r.g, b, b⟩) (fun _ => rfl) t g

theorem NodupKeys.assertAll {t : Table α} (h : NodupKeys t) (b : Bounds α) :
    NodupKeys (Table.assertAll b t) := by
  unfold NodupKeys; rw [keys_assertAll]; exact h

theorem addData_keyPres (g : Gr) (b : Bounds α) (r : Row α) :
    (if r.g == g then (⟨g, b, b⟩ : Row α) else r).g = r.g := by
  by_cases h : r.g = g
  · simp [h]
  · simp [h]

theorem mem_keys_addData {w : Bounds α} {t : Table α} {g : Gr} {b : Bounds α} {g' : Gr} :
    g' ∈ Table.keys (Table.addData w t g b) ↔ g' ∈ Table.keys t ∨ g' = g := by
  unfold Table.addData
  rw [keys_map _ (addData_keyPres g b), mem_keys_addg, List.mem_singleton]

theorem find?_addData_self (w : Bounds α) (t : Table α) (g : Gr) (b : Bounds α) :
    Table.find? (Table.addData w t g b) g = some ⟨g, b, b⟩ := by
  unfold Table.addData
  rw [find?_map _ (addData_keyPres g b)]
  have hk : g ∈ Table.keys (Table.addg w t [g]) := mem_keys_addg.mpr (Or.inr (List.mem_singleton.mpr rfl))
  obtain ⟨r, hr⟩ := exists_find?_of_mem_keys hk
  rw [hr]
  simp [(find?_some hr).2]

theorem find?_addData_of_ne (w : Bounds α) (t : Table α) {g g' : Gr} (b : Bounds α) (h : g' ≠ g) :
    Table.find? (Table.addData w t g b) g' = Table.find? t g' := by
  unfold Table.addData
  rw [find?_map _ (addData_keyPres g b), find?_addg]
  cases hf : Table.find? t g' with
  | some r => simp [(find?_some hf).2, h]
  | none => simp [h]

theorem getD_addData_self (w : Bounds α) (t : Table α) (g : Gr) (b : Bounds α) :
    Table.getD w (Table.addData w t g b) g = b :=
  getD_of_some (find?_addData_self w t g b)

theorem getD_addData_of_ne (w : Bounds α) (t : Table α) {g g' : Gr} (b : Bounds α) (h : g' ≠ g) :
    Table.getD w (Table.addData w t g b) g' = Table.getD w t g' := by
  unfold Table.getD; rw [find?_addData_of_ne w t b h]

theorem NodupKeys.addData {t : Table α} (h : NodupKeys t) (w : Bounds α) (g : Gr) (b : Bounds α) :
    NodupKeys (Table.addData w t g b) := by
  unfold Table.addData
  exact (h.addg w [g]).map _ (addData_keyPres g b)

/-! ### a sequence of `addData` (the body of a validated `add_data` on a first-order formula) -/

/-- the last value asserted for `g` in a list of assertions -/
def lastFor (bs : List (Gr × Bounds α)) (g : Gr) : Option (Bounds α) :=
  (bs.reverse.find? fun p => p.1 == g).map (·.2)

theorem lastFor_nil (g : Gr) : lastFor ([] : List (Gr × Bounds α)) g = none := rfl

theorem lastFor_concat (bs : List (Gr × Bounds α)) (p : Gr × Bounds α) (g : Gr) :
    lastFor (bs ++ [p]) g = if p.1 = g then some p.2 else lastFor bs g := by
  unfold lastFor
  rw [List.reverse_append, List.reverse_singleton, List.singleton_append]
  by_cases h : p.1 = g <;> simp [h]

theorem lastFor_eq_none_iff {bs : List (Gr × Bounds α)} {g : Gr} :
    lastFor bs g = none ↔ g ∉ bs.map (·.1) := by
  unfold lastFor
  rw [Option.map_eq_none_iff, List.find?_eq_none]
  simp only [List.mem_reverse, beq_iff_eq, List.mem_map, not_exists, not_and]

theorem getD_foldl_addData (w : Bounds α) (t : Table α) (bs : List (Gr × Bounds α)) (g : Gr) :
    Table.getD w (bs.foldl (fun t e => Table.addData w t e.1 e.2) t) g =
      (lastFor bs g).getD (Table.getD w t g) := by
  induction bs using List.reverseRecOn with
  | nil => rfl
  | append_singleton bs p ih =>
    rw [List.foldl_append, List.foldl_cons, List.foldl_nil, lastFor_concat]
    by_cases h : p.1 = g
    · rw [if_pos h, ← h, getD_addData_self]; rfl
    · rw [if_neg h, getD_addData_of_ne _ _ _ (Ne.symm h), ih]

theorem leaf_foldl_addData (w : Bounds α) (t : Table α) (bs : List (Gr × Bounds α)) (g : Gr) :
    Table.find? (bs.foldl (fun t e => Table.addData w t e.1 e.2) t) g =
      match lastFor bs g with
      | some b => some ⟨g, b, b⟩
      | none => Table.find? t g := by
  induction bs using List.reverseRecOn with
  | nil => rfl
  | append_singleton bs p ih =>
    rw [List.foldl_append, List.foldl_cons, List.foldl_nil, lastFor_concat]
    by_cases h : p.1 = g
    · rw [if_pos h, ← h, find?_addData_self]
    · rw [if_neg h, find?_addData_of_ne _ _ _ (Ne.symm h), ih]

theorem mem_keys_foldl_addData (w : Bounds α) (t : Table α) (bs : List (Gr × Bounds α)) (g : Gr) :
    g ∈ Table.keys (bs.foldl (fun t e => Table.addData w t e.1 e.2) t) ↔
      g ∈ Table.keys t ∨ g ∈ bs.map (·.1) := by
  induction bs generalizing t with
  | nil => simp
  | cons p bs ih =>
    rw [List.foldl_cons, ih, mem_keys_addData, List.map_cons, List.mem_cons]
    tauto

theorem NodupKeys.foldl_addData {t : Table α} (h : NodupKeys t) (w : Bounds α)
    (bs : List (Gr × Bounds α)) :
    NodupKeys (bs.foldl (fun t e => Table.addData w t e.1 e.2) t) := by
  induction bs generalizing t with
  | nil => exact h
  | cons p bs ih => exact ih (h.addData w p.1 p.2)

end Table

/-! ## states -/

section state

variable {ι : Type} [DecidableEq ι]

theorem FState.get_set_self (s : FState ι α) (i : ι) (t : Table α) : (s.set i t).get i = t := by
  unfold FState.get FState.set
  simp

theorem FState.get_set_of_ne (s : FState ι α) {i j : ι} (t : Table α) (h : j ≠ i) :
    (s.set i t).get j = s.get j := by
  unfold FState.get FState.set
  simp only
  rw [List.find?_cons_of_neg (by simpa using Ne.symm h), List.find?_filter]
  have : (fun a : ι × Table α => decide ((!decide (a.1 = i)) = true ∧ decide (a.1 = j) = true))
      = fun a => decide (a.1 = j) := by
    funext a
    by_cases e : a.1 = j
    · simp [e, h]
    · simp [e]
  rw [this]

theorem FState.get_set (s : FState ι α) (i j : ι) (t : Table α) :
    (s.set i t).get j = if j = i then t else s.get j := by
  by_cases h : j = i
  · rw [if_pos h, h, FState.get_set_self]
  · rw [if_neg h, FState.get_set_of_ne s t h]

end state

end plain

/-! ## grounding management, aggregation onto rows -/

variable {ι : Type} [DecidableEq ι] {α : Type} [Field α] [LinearOrder α]

/-- whatever is true of every table and preserved by `addg` at the table's own world default holds
after `addAll` -/
theorem addAll_induct (kb : FKB ι α) (P : ι → Table α → Prop)
    (hP : ∀ j t gs, P j t → P j (Table.addg (kb j).world t gs))
    (s : FState ι α) (pairs : List (ι × List Gr)) (h : ∀ j, P j (s.get j)) :
    ∀ j, P j ((addAll kb s pairs).get j) := by
  unfold addAll
  induction pairs generalizing s with
  | nil => exact h
  | cons p ps ih =>
    rw [List.foldl_cons]
    apply ih
    intro j
    rw [FState.get_set]
    split
    · next e => subst e; exact hP _ _ _ (h _)
    · exact h j

/-- the same for the grounding management of a connective -/
theorem groundings_induct (kb : FKB ι α) (P : ι → Table α → Prop)
    (hP : ∀ j t gs, P j t → P j (Table.addg (kb j).world t gs))
    (i : ι) (down : Bool) (s : FState ι α) (h : ∀ j, P j (s.get j)) :
    ∀ j, P j ((groundings kb i down s).1.get j) := by
  unfold groundings
  simp only
  split
  · exact addAll_induct kb P hP _ _ (addAll_induct kb P hP _ _ h)
  · split
    · exact h
    · split
      · exact h
      · exact addAll_induct kb P hP _ _ (addAll_induct kb P hP _ _ h)

namespace Table

theorem aggRow_fst (t : Table α) (g : Gr) (sel : BoundSel) (new : Bounds α) :
    (aggRow t g sel new).1 =
      match Table.find? t g with
      | some r => Table.setB t g (aggregate sel r.b new).1
      | none => t := by
  unfold aggRow
  cases Table.find? t g <;> rfl

/-- `aggRow` writes at most the working bounds of one row -/
theorem aggRow_cases (t : Table α) (g : Gr) (sel : BoundSel) (new : Bounds α) :
    (aggRow t g sel new).1 = t ∨ ∃ b, (aggRow t g sel new).1 = Table.setB t g b := by
  rw [aggRow_fst]
  cases Table.find? t g with
  | none => exact Or.inl rfl
  | some r => exact Or.inr ⟨_, rfl⟩

/-- whatever is preserved by `setB` is preserved by `aggRow` -/
theorem aggRow_induct (P : Table α → Prop) (hP : ∀ t g b, P t → P (Table.setB t g b))
    (t : Table α) (g : Gr) (sel : BoundSel) (new : Bounds α) (h : P t) : P (aggRow t g sel new).1 := by
  rcases aggRow_cases t g sel new with e | ⟨b, e⟩ <;> rw [e]
  · exact h
  · exact hP _ _ _ h

/-- what `writeMerged` does, as an induction principle: it starts from `t` and repeatedly overwrites
the working bounds of a row `g` that `t` stores (as `r`) by the `(max L, min U)` merge of a
non-empty list of aggregations of proposals against `r.b` — the bounds *before* the call. -/
theorem writeMerged_induct' (t : Table α) (props : List (Gr × Bounds α)) (P : Table α → Prop)
    (hP : ∀ acc g r c cs, P acc → Table.find? t g = some r →
      (∀ x ∈ c :: cs, ∃ p, x = (aggregate .both r.b p).1) →
      P (Table.setB acc g (cs.foldl mergeB c)))
    (h : P t) : P (writeMerged t props).1 := by
  unfold writeMerged
  simp only
  generalize dedupKeepFirst (props.map (·.1)) = ks
  suffices H : ∀ (acc : Table α × α), P acc.1 → P (ks.foldl (fun (acc : Table α × α) g =>
      match Table.find? t g with
      | none => acc
      | some r =>
        match (props.filter (·.1 == g)).map fun p => (aggregate .both r.b p.2).1 with
        | [] => acc
        | c :: cs =>
          (acc.1.setB g (cs.foldl mergeB c),
            acc.2 + (|(cs.foldl mergeB c).lo - r.b.lo| + |(cs.foldl mergeB c).hi - r.b.hi|))) acc).1 from
    H (t, 0) h
  induction ks with
  | nil => intro acc ha; exact ha
  | cons k ks ih =>
    intro acc ha
    rw [List.foldl_cons]
    apply ih
    split
    · exact ha
    · next r hr =>
      split
      · exact ha
      · next c cs hc =>
        refine hP _ _ _ _ _ ha hr ?_
        intro x hx
        rw [← hc, List.mem_map] at hx
        obtain ⟨p, _, e⟩ := hx
        exact ⟨p.2, e.symm⟩

/-- whatever is preserved by `setB` is preserved by `writeMerged` -/
theorem writeMerged_induct (P : Table α → Prop) (hP : ∀ t g b, P t → P (Table.setB t g b))
    (t : Table α) (props : List (Gr × Bounds α)) (h : P t) : P (writeMerged t props).1 :=
  writeMerged_induct' t props P (fun _ _ _ _ _ ha _ _ => hP _ _ _ ha) h

theorem foldl_mergeB_induct (Q : Bounds α → Prop) (hQ : ∀ a b, Q a → Q b → Q (mergeB a b))
    (c : Bounds α) (cs : List (Bounds α)) (h : ∀ x ∈ c :: cs, Q x) : Q (cs.foldl mergeB c) := by
  induction cs generalizing c with
  | nil => exact h c (List.mem_cons_self ..)
  | cons d ds ih =>
    rw [List.foldl_cons]
    apply ih
    intro x hx
    rcases List.mem_cons.mp hx with e | e
    · rw [e]
      exact hQ _ _ (h c (List.mem_cons_self ..)) (h d (List.mem_cons_of_mem _ (List.mem_cons_self ..)))
    · exact h x (List.mem_cons_of_mem _ (List.mem_cons_of_mem _ e))

/-- the working bounds of the row of `g` satisfy `Q` -/
def RowSat (Q : Bounds α → Prop) (t : Table α) (g : Gr) : Prop :=
  ∃ r, Table.find? t g = some r ∧ Q r.b

theorem RowSat.setB_of_ne {Q : Bounds α → Prop} {t : Table α} {g g' : Gr} (h : RowSat Q t g)
    (b : Bounds α) (hne : g ≠ g') : RowSat Q (Table.setB t g' b) g := by
  obtain ⟨r, hr, hq⟩ := h
  exact ⟨r, by rw [find?_setB_of_ne t b hne]; exact hr, hq⟩

theorem RowSat.setB_self {Q : Bounds α → Prop} {t : Table α} {g : Gr} (h : RowSat Q t g)
    {b : Bounds α} (hb : Q b) : RowSat Q (Table.setB t g b) g := by
  obtain ⟨r, hr, _⟩ := h
  exact ⟨{ r with b := b }, by rw [find?_setB_self, hr]; rfl, hb⟩

/-- a property of bounds that every aggregation preserves is preserved, row by row, by `aggRow` -/
theorem RowSat.aggRow {Q : Bounds α → Prop}
    (hagg : ∀ sel prev new, Q prev → Q (aggregate sel prev new).1)
    {t : Table α} {g : Gr} (h : RowSat Q t g) (g' : Gr) (sel : BoundSel) (new : Bounds α) :
    RowSat Q (aggRow t g' sel new).1 g := by
  by_cases e : g = g'
  · subst e
    obtain ⟨r, hr, hq⟩ := h
    rw [aggRow_fst, hr]
    exact RowSat.setB_self ⟨r, hr, hq⟩ (hagg _ _ _ hq)
  · rcases aggRow_cases t g' sel new with e' | ⟨b, e'⟩ <;> rw [e']
    · exact h
    · exact h.setB_of_ne b e

/-- … and, if also preserved by the duplicate merge, by `writeMerged` -/
theorem RowSat.writeMerged {Q : Bounds α → Prop}
    (hagg : ∀ sel prev new, Q prev → Q (aggregate sel prev new).1)
    (hmerge : ∀ a b, Q a → Q b → Q (mergeB a b))
    {t : Table α} {g : Gr} (h : RowSat Q t g) (props : List (Gr × Bounds α)) :
    RowSat Q (writeMerged t props).1 g := by
  apply writeMerged_induct' t props (fun acc => RowSat Q acc g) _ h
  intro acc g' r c cs ha hr hx
  by_cases e : g = g'
  · subst e
    obtain ⟨r0, hr0, hq0⟩ := h
    rw [hr] at hr0; cases hr0
    apply ha.setB_self
    apply foldl_mergeB_induct Q hmerge
    intro x hx'
    obtain ⟨p, rfl⟩ := hx x hx'
    exact hagg _ _ _ hq0
  · exact ha.setB_of_ne _ e

theorem NodupKeys.aggRow {t : Table α} (h : NodupKeys t) (g : Gr) (sel : BoundSel) (new : Bounds α) :
    NodupKeys (aggRow t g sel new).1 :=
  aggRow_induct NodupKeys (fun _ g b h => h.setB g b) t g sel new h

theorem NodupKeys.writeMerged {t : Table α} (h : NodupKeys t) (props : List (Gr × Bounds α)) :
    NodupKeys (writeMerged t props).1 :=
  writeMerged_induct NodupKeys (fun _ g b h => h.setB g b) t props h

theorem find?_aggRow_self {t : Table α} {g : Gr} {r : Row α} (h : Table.find? t g = some r)
    (sel : BoundSel) (new : Bounds α) :
    Table.find? (aggRow t g sel new).1 g = some { r with b := (aggregate sel r.b new).1 } := by
  rw [aggRow_fst, h]
  simp only
  rw [find?_setB_self, h]; rfl

theorem find?_aggRow_of_ne (t : Table α) {g g' : Gr} (sel : BoundSel) (new : Bounds α) (h : g' ≠ g) :
    Table.find? (aggRow t g sel new).1 g' = Table.find? t g' := by
  rcases aggRow_cases t g sel new with e | ⟨b, e⟩ <;> rw [e]
  exact find?_setB_of_ne t b h

end Table

/-! ## `mapM` in `Except`: all entries are validated, in order, before anything else happens -/

section mapM

variable {ε β γ : Type}

theorem mapM_except_ok_iff (f : β → Except ε γ) (l : List β) (bs : List γ) :
    l.mapM f = .ok bs ↔ List.Forall₂ (fun e b => f e = .ok b) l bs := by
  induction l generalizing bs with
  | nil =>
    rw [List.mapM_nil]
    constructor
    · intro h; cases h; exact List.Forall₂.nil
    · intro h; cases h; rfl
  | cons e l ih =>
    rw [List.mapM_cons]
    cases hf : f e with
    | error err =>
      constructor
      · intro h; cases h
      · intro h; cases h with | cons h1 _ => rw [hf] at h1; cases h1
    | ok b =>
      cases hl : l.mapM f with
      | error err =>
        constructor
        · intro h; cases h
        · intro h
          cases h with
          | cons h1 h2 => rw [(ih _).mpr h2] at hl; cases hl
      | ok bs' =>
        constructor
        · intro h
          cases h
          exact List.Forall₂.cons hf ((ih _).mp hl)
        · intro h
          cases h with
          | cons h1 h2 =>
            rw [hf] at h1; cases h1
            rw [(ih _).mpr h2] at hl; cases hl
            rfl

theorem mapM_except_isOk_iff (f : β → Except ε γ) (l : List β) :
    (∃ bs, l.mapM f = .ok bs) ↔ ∀ e ∈ l, ∃ b, f e = .ok b := by
  induction l with
  | nil => simp [List.mapM_nil]; exact ⟨[], rfl⟩
  | cons e l ih =>
    constructor
    · rintro ⟨bs, h⟩
      rw [mapM_except_ok_iff] at h
      cases h with
      | cons h1 h2 =>
        intro e' he'
        rcases List.mem_cons.mp he' with rfl | h'
        · exact ⟨_, h1⟩
        · exact ih.mp ⟨_, (mapM_except_ok_iff f l _).mpr h2⟩ e' h'
    · intro h
      obtain ⟨b, hb⟩ := h e (List.mem_cons_self ..)
      obtain ⟨bs, hbs⟩ := ih.mpr (fun e' he' => h e' (List.mem_cons_of_mem _ he'))
      exact ⟨b :: bs, (mapM_except_ok_iff f _ _).mpr
        (List.Forall₂.cons hb ((mapM_except_ok_iff f l bs).mp hbs))⟩

/-- the error reported is that of the first entry that fails -/
theorem mapM_except_first_error (f : β → Except ε γ) (pre : List β) (e : β) (post : List β) (err : ε)
    (hpre : ∀ x ∈ pre, ∃ b, f x = .ok b) (he : f e = .error err) :
    (pre ++ e :: post).mapM f = .error err := by
  induction pre with
  | nil => rw [List.nil_append, List.mapM_cons, he]; rfl
  | cons x pre ih =>
    obtain ⟨b, hb⟩ := hpre x (List.mem_cons_self ..)
    rw [List.cons_append, List.mapM_cons, hb, ih (fun y hy => hpre y (List.mem_cons_of_mem _ hy))]
    rfl

theorem except_ok_or_error (x : Except ε γ) : (∃ b, x = .ok b) ∨ ∃ e, x = .error e := by
  cases x with
  | ok b => exact Or.inl ⟨b, rfl⟩
  | error e => exact Or.inr ⟨e, rfl⟩

end mapM

/-! ## association lists keyed by groundings -/

section assoc

variable {β γ : Type}

theorem find?_key_of_forall₂ {R : Gr × β → Gr × γ → Prop} (hkey : ∀ e p, R e p → p.1 = e.1)
    {l₁ : List (Gr × β)} {l₂ : List (Gr × γ)} (h : List.Forall₂ R l₁ l₂) (g : Gr) (e : Gr × β)
    (he : l₁.find? (fun e => e.1 == g) = some e) :
    ∃ p, l₂.find? (fun p => p.1 == g) = some p ∧ R e p := by
  induction h with
  | nil => simp at he
  | @cons a b l₁ l₂ hab _ ih =>
    have hk := hkey a b hab
    by_cases ha : a.1 = g
    · have : (a.1 == g) = true := by simpa using ha
      rw [List.find?_cons_of_pos (p := fun e : Gr × β => e.1 == g) this] at he
      cases he
      exact ⟨b, List.find?_cons_of_pos (p := fun p : Gr × γ => p.1 == g) (by simpa [hk] using ha), hab⟩
    · have : ¬ (a.1 == g) = true := by simpa using ha
      rw [List.find?_cons_of_neg (p := fun e : Gr × β => e.1 == g) this] at he
      obtain ⟨p, hp, hr⟩ := ih he
      exact ⟨p, by
        rw [List.find?_cons_of_neg (p := fun p : Gr × γ => p.1 == g) (by simpa [hk] using ha)]; exact hp, hr⟩

theorem map_fst_of_forall₂ {R : Gr × β → Gr × γ → Prop} (hkey : ∀ e p, R e p → p.1 = e.1)
    {l₁ : List (Gr × β)} {l₂ : List (Gr × γ)} (h : List.Forall₂ R l₁ l₂) :
    l₂.map (·.1) = l₁.map (·.1) := by
  induction h with
  | nil => rfl
  | cons hab _ ih => rw [List.map_cons, List.map_cons, ih, hkey _ _ hab]

theorem find?_key_of_nodup {l : List (Gr × β)} (hn : (l.map (·.1)).Nodup) {e : Gr × β} (he : e ∈ l) :
    l.find? (fun x => x.1 == e.1) = some e := by
  induction l with
  | nil => simp at he
  | cons a l ih =>
    rw [List.map_cons, List.nodup_cons] at hn
    rcases List.mem_cons.mp he with rfl | h
    · exact List.find?_cons_of_pos (p := fun x : Gr × β => x.1 == e.1) (by simp)
    · have : a.1 ≠ e.1 := fun h' => hn.1 (h' ▸ List.mem_map.mpr ⟨e, h, rfl⟩)
      rw [List.find?_cons_of_neg (p := fun x : Gr × β => x.1 == e.1) (by simpa using this)]
      exact ih hn.2 h

end assoc

end LNN
