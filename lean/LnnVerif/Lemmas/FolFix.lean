/-
A CONVERGED first-order `fInfer` leaves a GENUINE FIXPOINT.

* tables: `setB` with the stored value, `addg` of stored groundings and `addg` that does not make
  the table longer are the identity;
* every call only overwrites working bounds (`setB`) and appends rows (`addg`): `Ev t t'`; hence no
  table ever gets shorter, `SNodup` (a grounding is stored at most once) is kept, and a call that
  reports `0` (no query sees a change, `FolAmount`) and creates no row is the IDENTITY on every table;
* every call reads the state only through `FState.get` (`SG`, `*_congr`);
* `fInfer` that returns `converged = true` returns a state on which every call of the two sweeps is
  the identity and reports `0`; a second `fInfer` takes one sweep, reports `0`, and returns the same
  tables.

Everything lives in the namespace `LNN.FolFix`.
-/
import LnnVerif.Model.Fol
import LnnVerif.Lemmas.TableLemmas
import LnnVerif.Lemmas.FolSound
import LnnVerif.Lemmas.FolAmount

set_option linter.unusedSectionVars false

namespace LNN
namespace FolFix

open FolAmount

/-! ## 1. tables (no arithmetic) -/

section plain

variable {α : Type}

/-- overwriting the working bound of a stored row by what it stores changes nothing -/
theorem setB_self {t : Table α} {g : Gr} {r : Row α} (hn : Table.NodupKeys t)
    (hr : Table.find? t g = some r) : Table.setB t g r.b = t := by
  unfold Table.setB
  conv_rhs => rw [← List.map_id t]
  apply List.map_congr_left
  intro x hx
  by_cases e : x.g = g
  · have h1 : Table.find? t x.g = some x := hn.find?_of_mem hx
    rw [e, hr] at h1
    cases h1
    subst e
    simp
  · simp [e]

/-- creating groundings that are all stored already changes nothing -/
theorem addg_of_subset (w : Bounds α) (t : Table α) (gs : List Gr)
    (h : ∀ g ∈ gs, g ∈ Table.keys t) : Table.addg w t gs = t := by
  induction gs with
  | nil => rfl
  | cons g gs ih =>
    unfold Table.addg
    rw [if_pos (Table.has_eq_true_iff.mpr (h g (List.mem_cons_self ..)))]
    exact ih (fun g' hg' => h g' (List.mem_cons_of_mem _ hg'))

theorem length_addg_ge (w : Bounds α) (t : Table α) (gs : List Gr) :
    t.length ≤ (Table.addg w t gs).length := by
  obtain ⟨ex, h1, _⟩ := Table.addg_eq_append w t gs
  rw [h1, List.length_append]
  omega

/-- row creation that does not make the table longer changes nothing -/
theorem addg_eq_of_length {w : Bounds α} {t : Table α} {gs : List Gr}
    (h : (Table.addg w t gs).length = t.length) : Table.addg w t gs = t := by
  obtain ⟨ex, h1, _⟩ := Table.addg_eq_append w t gs
  rw [h1, List.length_append] at h
  have : ex = [] := List.eq_nil_of_length_eq_zero (by omega)
  rw [h1, this, List.append_nil]

/-- what no call ever changes of a stored row: its grounding and its leaf, in storage order -/
def skel (t : Table α) : List (Gr × Bounds α) := t.map fun r => (r.g, r.leaf)

theorem skel_setB (t : Table α) (g : Gr) (b : Bounds α) : skel (Table.setB t g b) = skel t := by
  unfold skel Table.setB
  rw [List.map_map]
  apply List.map_congr_left
  intro r _
  simp only [Function.comp]
  split <;> rfl

theorem keys_eq_skel (t : Table α) : Table.keys t = (skel t).map Prod.fst := by
  unfold skel Table.keys
  rw [List.map_map]
  rfl

theorem length_skel (t : Table α) : (skel t).length = t.length := List.length_map _

/-- `Ev t t'`: `t'` comes from `t` by overwriting working bounds and creating rows -/
inductive Ev : Table α → Table α → Prop
  | refl (t : Table α) : Ev t t
  | setB {t u : Table α} (g : Gr) (b : Bounds α) : Ev t u → Ev t (Table.setB u g b)
  | addg {t u : Table α} (w : Bounds α) (gs : List Gr) : Ev t u → Ev t (Table.addg w u gs)

theorem Ev.trans {t u v : Table α} (h1 : Ev t u) (h2 : Ev u v) : Ev t v := by
  induction h2 with
  | refl => exact h1
  | setB g b _ ih => exact Ev.setB g b ih
  | addg w gs _ ih => exact Ev.addg w gs ih

/-- the stored groundings and leaves stay where they are; rows are only appended -/
theorem Ev.skel_prefix {t u : Table α} (h : Ev t u) : skel t <+: skel u := by
  induction h with
  | refl => exact List.prefix_refl _
  | setB g b _ ih => rw [skel_setB]; exact ih
  | @addg u' w gs _ ih =>
    obtain ⟨ex, h1, _⟩ := Table.addg_eq_append w u' gs
    rw [h1]
    unfold skel at ih ⊢
    rw [List.map_append]
    exact ih.trans (List.prefix_append _ _)

theorem Ev.nodup {t u : Table α} (h : Ev t u) (hn : Table.NodupKeys t) : Table.NodupKeys u := by
  induction h with
  | refl => exact hn
  | setB g b _ ih => exact ih.setB g b
  | addg w gs _ ih => exact ih.addg w gs

theorem Ev.length_le {t u : Table α} (h : Ev t u) : t.length ≤ u.length := by
  have := h.skel_prefix.length_le
  rwa [length_skel, length_skel] at this

theorem Ev.skel_eq {t u : Table α} (h : Ev t u) (hl : u.length = t.length) : skel u = skel t :=
  (h.skel_prefix.eq_of_length (by rw [length_skel, length_skel, hl])).symm

/-- two tables with the same groundings and leaves in the same order, each grounding stored once,
that read the same everywhere are the same table -/
theorem eq_of_skel_getD (w : Bounds α) : ∀ (t u : Table α), Table.NodupKeys t → skel u = skel t →
    (∀ g, Table.getD w u g = Table.getD w t g) → u = t
  | [], u, _, hs, _ => by simpa [skel] using hs
  | r :: t, [], _, hs, _ => by simp [skel] at hs
  | r :: t, r' :: u, hn, hs, hg => by
    simp only [skel, List.map_cons, List.cons.injEq, Prod.mk.injEq] at hs
    obtain ⟨⟨e1, e2⟩, hs'⟩ := hs
    unfold Table.NodupKeys at hn
    rw [Table.keys_cons, List.nodup_cons] at hn
    have hb : r'.b = r.b := by
      have := hg r.g
      unfold Table.getD at this
      rw [Table.find?_cons, Table.find?_cons, if_pos e1, if_pos rfl] at this
      exact this
    have hr : r' = r := by
      cases r; cases r'; simp_all
    subst hr
    congr 1
    apply eq_of_skel_getD w t u hn.2 hs'
    intro g
    by_cases e : r'.g = g
    · have h1 : Table.find? t g = none := Table.find?_eq_none_iff.mpr (e ▸ hn.1)
      have h2 : Table.find? u g = none := by
        rw [Table.find?_eq_none_iff, keys_eq_skel]
        have hs'' : skel u = skel t := hs'
        rw [hs'', ← keys_eq_skel]
        exact e ▸ hn.1
      rw [Table.getD_of_none h1, Table.getD_of_none h2]
    · have := hg g
      unfold Table.getD at this ⊢
      rwa [Table.find?_cons, Table.find?_cons, if_neg e, if_neg e] at this

/-- a table that evolved from `t` without getting longer and reads the same is `t` -/
theorem Ev.eq_of_same {t u : Table α} (h : Ev t u) (hn : Table.NodupKeys t) (w : Bounds α)
    (hl : u.length = t.length) (hg : ∀ g, Table.getD w u g = Table.getD w t g) : u = t :=
  eq_of_skel_getD w t u hn (h.skel_eq hl) hg

end plain

variable {ι : Type} [DecidableEq ι] {α : Type} [Field α] [LinearOrder α] [IsStrictOrderedRing α]

/-! ## 2. every call only overwrites working bounds and appends rows -/

/-- a grounding is stored at most once, in every table -/
def SNodup (s : FState ι α) : Prop := ∀ i, Table.NodupKeys (s.get i)

/-- every table of `s'` evolved from the table of `s` -/
def SEv (s s' : FState ι α) : Prop := ∀ k, Ev (s.get k) (s'.get k)

theorem SEv.refl (s : FState ι α) : SEv s s := fun _ => Ev.refl _

theorem SEv.trans {s t u : FState ι α} (h1 : SEv s t) (h2 : SEv t u) : SEv s u :=
  fun k => (h1 k).trans (h2 k)

theorem SEv.set {s0 s : FState ι α} (h : SEv s0 s) (i : ι) {t : Table α} (ht : Ev (s.get i) t) :
    SEv s0 (s.set i t) := by
  intro k
  rw [FState.get_set]
  split
  · next e => subst e; exact (h k).trans ht
  · exact h k

theorem ev_aggRow (t : Table α) (g : Gr) (sel : BoundSel) (new : Bounds α) :
    Ev t (aggRow t g sel new).1 := by
  rcases Table.aggRow_cases t g sel new with e | ⟨b, e⟩ <;> rw [e]
  · exact Ev.refl t
  · exact Ev.setB g b (Ev.refl t)

theorem ev_writeMerged (t : Table α) (props : List (Gr × Bounds α)) :
    Ev t (writeMerged t props).1 :=
  Table.writeMerged_induct (Ev t) (fun _ g b h => Ev.setB g b h) t props (Ev.refl t)

/-- a fold of `aggRow` -/
theorem ev_foldAgg {β : Type} (key : β → Gr) (pr : β → Bounds α) (sel : BoundSel)
    (l : List β) (t0 : Table α) (acc : Table α × α) (h : Ev t0 acc.1) :
    Ev t0 (l.foldl (fun (acc : Table α × α) x =>
        let a := aggRow acc.1 (key x) sel (pr x)
        (a.1, acc.2 + a.2)) acc).1 := by
  apply FolSound.foldl_inv (fun acc : Table α × α => Ev t0 acc.1) _ _ _ h
  intro b hb x _
  exact hb.trans (ev_aggRow b.1 (key x) sel (pr x))

section calls

variable (kb : FKB ι α) (i : ι) (s : FState ι α)

theorem sev_groundings (down : Bool) : SEv s (groundings kb i down s).1 :=
  groundings_induct kb (fun j t => Ev (s.get j) t) (fun _ _ gs h => Ev.addg _ gs h) i down s
    (fun _ => Ev.refl _)

theorem sev_fUpConn : SEv s (fUpConn kb i s).1 := by
  have hg := sev_groundings kb i s false
  unfold fUpConn
  simp only
  split
  next s1 hgr => rw [hgr] at hg; exact hg
  next s1 ogs per hgr =>
    rw [hgr] at hg
    simp only at hg ⊢
    apply hg.set
    exact ev_foldAgg (fun it : Gr × Bounds α => it.1) (fun it => it.2) .both _ _ (_, 0) (Ev.refl _)

theorem sev_fDownConn (idx : Option Nat) : SEv s (fDownConn kb i idx s).1 := by
  have hg := sev_groundings kb i s true
  unfold fDownConn
  simp only
  split
  next s1 hgr => rw [hgr] at hg; exact hg
  next s1 ogs per hgr =>
    rw [hgr] at hg
    simp only at hg
    split
    · exact hg
    · apply FolSound.foldl_inv (fun acc : FState ι α × α => SEv s acc.1) _ _ _ hg
      intro acc hacc p _
      split
      · exact hacc.set _ (ev_writeMerged _ _)
      · exact hacc

theorem sev_fUpNot : SEv s (fUpNot kb i s).1 := by
  unfold fUpNot
  split
  · exact SEv.refl s
  next j rest hops =>
    simp only
    split
    · exact SEv.refl s
    · apply (SEv.refl s).set
      exact ev_foldAgg (fun g => g) (fun g => negB (Table.getD (kb j).world (s.get j) g)) .both
        _ _ (_, 0) (Ev.addg _ _ (Ev.refl _))

theorem sev_fDownNot : SEv s (fDownNot kb i s).1 := by
  unfold fDownNot
  split
  · exact SEv.refl s
  next j rest hops =>
    simp only
    split
    · exact SEv.refl s
    · apply (SEv.refl s).set
      exact ev_foldAgg (fun g => g) (fun g => negB (Table.getD (kb i).world (s.get i) g)) .both
        _ _ (_, 0) (Ev.addg _ _ (Ev.refl _))

theorem sev_fUpQuant : SEv s (fUpQuant kb i s).1 := by
  unfold fUpQuant
  simp only
  split
  · exact SEv.refl s
  next j rest hops =>
    split
    · exact SEv.refl s
    · apply (SEv.refl s).set
      apply FolSound.foldl_inv (fun acc : Table α × α => Ev (s.get i) acc.1) _ _ _
        (Ev.addg _ _ (Ev.refl _))
      intro b hb k _
      exact hb.trans (ev_aggRow _ _ _ _)

theorem sev_fDownQuant : SEv s (fDownQuant kb i s).1 := by
  unfold fDownQuant
  simp only
  split
  · exact SEv.refl s
  next j rest hops =>
    split
    · exact SEv.refl s
    · apply ((SEv.refl s).set i (Ev.addg _ _ (Ev.refl _))).set
      exact ev_foldAgg (fun p : Gr × Bounds α => p.1) (fun p => p.2) .both _ _ (_, 0) (Ev.refl _)

theorem sev_fUp : SEv s (fUp kb i s).1 := by
  unfold fUp
  split
  · exact SEv.refl s
  · exact sev_fUpNot kb i s
  · exact sev_fUpQuant kb i s
  · exact sev_fUpQuant kb i s
  · exact sev_fUpConn kb i s

theorem sev_fDown (idx : Option Nat) : SEv s (fDown kb i idx s).1 := by
  unfold fDown
  split
  · exact SEv.refl s
  · exact sev_fDownNot kb i s
  · exact sev_fDownQuant kb i s
  · exact sev_fDownQuant kb i s
  · exact sev_fDownConn kb i s idx

theorem sev_runFCall (c : FCall ι) : SEv s (runFCall kb c s).1 := by
  cases c with
  | up i => exact sev_fUp kb i s
  | down i idx => exact sev_fDown kb i s idx

theorem sev_runFCalls (cs : List (FCall ι)) : SEv s (runFCalls kb cs s).1 := by
  induction cs generalizing s with
  | nil => exact SEv.refl s
  | cons c rest ih => exact (sev_runFCall kb s c).trans (ih _)

/-! ### no table ever gets shorter -/

theorem length_mono_fUp (k : ι) : (s.get k).length ≤ ((fUp kb i s).1.get k).length :=
  (sev_fUp kb i s k).length_le

theorem length_mono_fDown (idx : Option Nat) (k : ι) :
    (s.get k).length ≤ ((fDown kb i idx s).1.get k).length :=
  (sev_fDown kb i s idx k).length_le

theorem length_mono_runFCall (c : FCall ι) (k : ι) :
    (s.get k).length ≤ ((runFCall kb c s).1.get k).length :=
  (sev_runFCall kb s c k).length_le

theorem length_mono_runFCalls (cs : List (FCall ι)) (k : ι) :
    (s.get k).length ≤ ((runFCalls kb cs s).1.get k).length :=
  (sev_runFCalls kb s cs k).length_le

/-! ### a grounding stays stored at most once -/

theorem SEv.snodup {s s' : FState ι α} (h : SEv s s') (hn : SNodup s) : SNodup s' :=
  fun k => (h k).nodup (hn k)

theorem fUp_snodup (hn : SNodup s) : SNodup (fUp kb i s).1 := (sev_fUp kb i s).snodup hn

theorem fDown_snodup (idx : Option Nat) (hn : SNodup s) : SNodup (fDown kb i idx s).1 :=
  (sev_fDown kb i s idx).snodup hn

theorem runFCall_snodup (c : FCall ι) (hn : SNodup s) : SNodup (runFCall kb c s).1 :=
  (sev_runFCall kb s c).snodup hn

theorem runFCalls_snodup (cs : List (FCall ι)) (hn : SNodup s) : SNodup (runFCalls kb cs s).1 :=
  (sev_runFCalls kb s cs).snodup hn

end calls

/-! ## 3. a call that reports `0` and creates no row is the identity -/

/-- generic: a state that evolved from `s`, reads the same everywhere and has no longer table is,
table by table, `s` -/
theorem SEv.id_of_same {kb : FKB ι α} {s s' : FState ι α} (hev : SEv s s') (hn : SNodup s)
    (hsame : SameReads kb s s') (hlen : ∀ k, (s'.get k).length = (s.get k).length) :
    ∀ k, s'.get k = s.get k :=
  fun k => (hev k).eq_of_same (hn k) (kb k).world (hlen k) (fun g => hsame k g)

section main

variable (kb : FKB ι α) (hw : FolAmount.WorldsInUnit kb) (s : FState ι α) (hs : SInUnit s)
  (hn : SNodup s)
include hw hs hn

/-- MAIN (one upward call, every node kind) -/
theorem fUp_zero_noNew_id (i : ι) (h0 : (fUp kb i s).2 = 0)
    (hlen : ∀ k, ((fUp kb i s).1.get k).length = (s.get k).length) :
    ∀ k, (fUp kb i s).1.get k = s.get k :=
  (sev_fUp kb i s).id_of_same hn ((fUp_amount_zero_iff kb hw i s hs).mp h0) hlen

/-- MAIN (one downward call, every node kind, with or without operand index) -/
theorem fDown_zero_noNew_id (i : ι) (idx : Option Nat) (h0 : (fDown kb i idx s).2 = 0)
    (hlen : ∀ k, ((fDown kb i idx s).1.get k).length = (s.get k).length) :
    ∀ k, (fDown kb i idx s).1.get k = s.get k :=
  (sev_fDown kb i s idx).id_of_same hn ((fDown_amount_zero_iff kb hw i idx s hs).mp h0) hlen

theorem runFCall_zero_noNew_id (c : FCall ι) (h0 : (runFCall kb c s).2 = 0)
    (hlen : ∀ k, ((runFCall kb c s).1.get k).length = (s.get k).length) :
    ∀ k, (runFCall kb c s).1.get k = s.get k :=
  (sev_runFCall kb s c).id_of_same hn ((runFCall_amount_zero_iff kb hw c s hs).mp h0) hlen

/-- MAIN (a list of calls): a list of calls that reports `0` in total and makes no table longer
leaves every table as it was -/
theorem runFCalls_zero_noNew_id (cs : List (FCall ι)) (h0 : (runFCalls kb cs s).2 = 0)
    (hlen : ∀ k, ((runFCalls kb cs s).1.get k).length = (s.get k).length) :
    ∀ k, (runFCalls kb cs s).1.get k = s.get k :=
  (sev_runFCalls kb s cs).id_of_same hn ((runFCalls_amount_zero_iff kb hw cs s hs).mp h0) hlen

end main

/-! ## 4. every call reads the state only through `FState.get` -/

/-- the two states have the same tables (the association lists may differ) -/
def SG (s s' : FState ι α) : Prop := ∀ k, s.get k = s'.get k

theorem SG.refl (s : FState ι α) : SG s s := fun _ => rfl
theorem SG.symm {s s' : FState ι α} (h : SG s s') : SG s' s := fun k => (h k).symm
theorem SG.trans {s t u : FState ι α} (h1 : SG s t) (h2 : SG t u) : SG s u :=
  fun k => (h1 k).trans (h2 k)

theorem SG.get_eq {s s' : FState ι α} (h : SG s s') : FState.get s = FState.get s' := funext h

theorem SG.set {s s' : FState ι α} (h : SG s s') (i : ι) (t : Table α) :
    SG (s.set i t) (s'.set i t) := by
  intro k
  rw [FState.get_set, FState.get_set, h k]

/-- a pair (state, amount) agrees with another -/
def PG (a b : FState ι α × α) : Prop := SG a.1 b.1 ∧ a.2 = b.2

section congr

variable (kb : FKB ι α) (i : ι) {s s' : FState ι α}

theorem addAll_cons (s : FState ι α) (p : ι × List Gr) (ps : List (ι × List Gr)) :
    addAll kb s (p :: ps) =
      addAll kb (s.set p.1 (Table.addg (kb p.1).world (s.get p.1) p.2)) ps := rfl

theorem addAll_congr (pairs : List (ι × List Gr)) {s s' : FState ι α} (h : SG s s') :
    SG (addAll kb s pairs) (addAll kb s' pairs) := by
  induction pairs generalizing s s' with
  | nil => exact h
  | cons p ps ih =>
    rw [addAll_cons, addAll_cons, h p.1]
    exact ih (h.set _ _)

theorem groundings_congr (down : Bool) (h : SG s s') :
    SG (groundings kb i down s).1 (groundings kb i down s').1 ∧
      (groundings kb i down s).2 = (groundings kb i down s').2 := by
  have e := h.get_eq
  unfold groundings
  simp only [e]
  split
  · exact ⟨addAll_congr kb _ (addAll_congr kb _ h), rfl⟩
  · split
    · exact ⟨h, rfl⟩
    · split
      · exact ⟨h, rfl⟩
      · exact ⟨addAll_congr kb _ (addAll_congr kb _ h), rfl⟩

theorem fUpConn_congr (h : SG s s') : PG (fUpConn kb i s) (fUpConn kb i s') := by
  obtain ⟨hg1, hg2⟩ := groundings_congr kb i false h
  unfold fUpConn PG
  simp only
  generalize groundings kb i false s = G at hg1 hg2 ⊢
  generalize groundings kb i false s' = G' at hg1 hg2 ⊢
  obtain ⟨s1, o⟩ := G
  obtain ⟨s1', o'⟩ := G'
  simp only at hg1 hg2
  subst hg2
  have e := hg1.get_eq
  cases o with
  | none => exact ⟨hg1, rfl⟩
  | some p =>
    obtain ⟨ogs, per⟩ := p
    simp only [e]
    exact ⟨hg1.set _ _, trivial⟩

theorem fDownConn_congr (idx : Option Nat) (h : SG s s') :
    PG (fDownConn kb i idx s) (fDownConn kb i idx s') := by
  obtain ⟨hg1, hg2⟩ := groundings_congr kb i true h
  unfold fDownConn PG
  simp only
  generalize groundings kb i true s = G at hg1 hg2 ⊢
  generalize groundings kb i true s' = G' at hg1 hg2 ⊢
  obtain ⟨s1, o⟩ := G
  obtain ⟨s1', o'⟩ := G'
  simp only at hg1 hg2
  subst hg2
  have e := hg1.get_eq
  cases o with
  | none => exact ⟨hg1, rfl⟩
  | some p =>
    obtain ⟨ogs, per⟩ := p
    simp only [e]
    split
    · exact ⟨hg1, rfl⟩
    · generalize (List.zip (List.range (kb i).ops.length) (kb i).ops) = l
      have h0 : PG ((s1, 0) : FState ι α × α) (s1', 0) := ⟨hg1, rfl⟩
      generalize ((s1, 0) : FState ι α × α) = a at h0 ⊢
      generalize ((s1', 0) : FState ι α × α) = a' at h0 ⊢
      induction l generalizing a a' with
      | nil => exact h0
      | cons p ps ih =>
        rw [List.foldl_cons, List.foldl_cons]
        apply ih
        split
        · unfold PG
          simp only
          rw [h0.1 p.2, h0.2]
          exact ⟨h0.1.set _ _, rfl⟩
        · exact h0

theorem fUpNot_congr (h : SG s s') : PG (fUpNot kb i s) (fUpNot kb i s') := by
  have e := h.get_eq
  unfold fUpNot PG
  simp only [e]
  split
  · exact ⟨h, rfl⟩
  · split
    · exact ⟨h, rfl⟩
    · exact ⟨h.set _ _, rfl⟩

theorem fDownNot_congr (h : SG s s') : PG (fDownNot kb i s) (fDownNot kb i s') := by
  have e := h.get_eq
  unfold fDownNot PG
  simp only [e]
  split
  · exact ⟨h, rfl⟩
  · split
    · exact ⟨h, rfl⟩
    · exact ⟨h.set _ _, rfl⟩

theorem fUpQuant_congr (h : SG s s') : PG (fUpQuant kb i s) (fUpQuant kb i s') := by
  have e := h.get_eq
  unfold fUpQuant PG
  simp only [e]
  split
  · exact ⟨h, rfl⟩
  · split
    · exact ⟨h, rfl⟩
    · exact ⟨h.set _ _, rfl⟩

theorem fDownQuant_congr (h : SG s s') : PG (fDownQuant kb i s) (fDownQuant kb i s') := by
  have e := h.get_eq
  unfold fDownQuant PG
  simp only [FState.get_set, e]
  split
  · exact ⟨h, rfl⟩
  · split
    · exact ⟨h, rfl⟩
    · exact ⟨(h.set _ _).set _ _, rfl⟩

theorem fUp_congr (h : SG s s') : PG (fUp kb i s) (fUp kb i s') := by
  unfold fUp
  cases (kb i).kind
  · exact ⟨h, rfl⟩
  · exact fUpNot_congr kb i h
  · exact fUpConn_congr kb i h
  · exact fUpConn_congr kb i h
  · exact fUpConn_congr kb i h
  · exact fUpQuant_congr kb i h
  · exact fUpQuant_congr kb i h

theorem fDown_congr (idx : Option Nat) (h : SG s s') :
    PG (fDown kb i idx s) (fDown kb i idx s') := by
  unfold fDown
  cases (kb i).kind
  · exact ⟨h, rfl⟩
  · exact fDownNot_congr kb i h
  · exact fDownConn_congr kb i idx h
  · exact fDownConn_congr kb i idx h
  · exact fDownConn_congr kb i idx h
  · exact fDownQuant_congr kb i h
  · exact fDownQuant_congr kb i h

theorem runFCall_congr (c : FCall ι) (h : SG s s') : PG (runFCall kb c s) (runFCall kb c s') := by
  cases c with
  | up i => exact fUp_congr kb i h
  | down i idx => exact fDown_congr kb i idx h

theorem runFCalls_congr (cs : List (FCall ι)) {s s' : FState ι α} (h : SG s s') :
    PG (runFCalls kb cs s) (runFCalls kb cs s') := by
  induction cs generalizing s s' with
  | nil => exact ⟨h, rfl⟩
  | cons c rest ih =>
    have h1 := runFCall_congr kb c h
    have h2 := ih h1.1
    simp only [runFCalls]
    exact ⟨h2.1, by rw [h1.2, h2.2]⟩

/-- the congruence in the form asked for: a list of calls depends on the state only through `get` -/
theorem runFCalls_get_congr (cs : List (FCall ι)) {s s' : FState ι α}
    (h : ∀ k, s.get k = s'.get k) :
    (∀ k, (runFCalls kb cs s).1.get k = (runFCalls kb cs s').1.get k) ∧
      (runFCalls kb cs s).2 = (runFCalls kb cs s').2 :=
  runFCalls_congr kb cs h

theorem nGroundings_congr (nodes : List ι) {s s' : FState ι α} (h : SG s s') :
    nGroundings nodes s = nGroundings nodes s' := by
  unfold nGroundings
  rw [h.get_eq]

end congr

/-! ## 5. lists of calls -/

/-- the call `c` run on `s` reports `0` and leaves every table as it is -/
def CallFix (kb : FKB ι α) (c : FCall ι) (s : FState ι α) : Prop :=
  (runFCall kb c s).2 = 0 ∧ ∀ k, (runFCall kb c s).1.get k = s.get k

theorem CallFix.congr {kb : FKB ι α} {c : FCall ι} {s s' : FState ι α} (h : SG s s')
    (hc : CallFix kb c s) : CallFix kb c s' := by
  obtain ⟨h1, h2⟩ := runFCall_congr kb c h
  exact ⟨by rw [← h2]; exact hc.1, fun k => by rw [← h1 k, hc.2 k, h k]⟩

section lists

variable (kb : FKB ι α)

theorem runFCalls_cons (c : FCall ι) (rest : List (FCall ι)) (s : FState ι α) :
    runFCalls kb (c :: rest) s =
      ((runFCalls kb rest (runFCall kb c s).1).1,
        (runFCall kb c s).2 + (runFCalls kb rest (runFCall kb c s).1).2) := rfl

theorem runFCalls_append (cs1 cs2 : List (FCall ι)) (s : FState ι α) :
    runFCalls kb (cs1 ++ cs2) s =
      ((runFCalls kb cs2 (runFCalls kb cs1 s).1).1,
        (runFCalls kb cs1 s).2 + (runFCalls kb cs2 (runFCalls kb cs1 s).1).2) := by
  induction cs1 generalizing s with
  | nil => simp [runFCalls]
  | cons c rest ih =>
    rw [List.cons_append, runFCalls_cons, runFCalls_cons, ih]
    simp only [add_assoc]

/-- if a list of calls reports `0`, so does every prefix, and the rest run after it -/
theorem runFCalls_zero_append (cs1 cs2 : List (FCall ι)) (s : FState ι α)
    (h0 : (runFCalls kb (cs1 ++ cs2) s).2 = 0) :
    (runFCalls kb cs1 s).2 = 0 ∧ (runFCalls kb cs2 (runFCalls kb cs1 s).1).2 = 0 := by
  rw [runFCalls_append] at h0
  exact (add_eq_zero_iff_of_nonneg (runFCalls_amount_nonneg kb cs1 s)
    (runFCalls_amount_nonneg kb cs2 _)).mp h0

/-- calls that are each the identity at `s` are the identity at `s` in any order and number -/
theorem runFCalls_of_callFix (cs : List (FCall ι)) (s : FState ι α)
    (h : ∀ c ∈ cs, CallFix kb c s) :
    (runFCalls kb cs s).2 = 0 ∧ ∀ k, (runFCalls kb cs s).1.get k = s.get k := by
  induction cs with
  | nil => exact ⟨rfl, fun _ => rfl⟩
  | cons c rest ih =>
    obtain ⟨hc0, hcid⟩ := h c (List.mem_cons_self ..)
    obtain ⟨i0, iid⟩ := ih (fun c' hc' => h c' (List.mem_cons_of_mem _ hc'))
    obtain ⟨g1, g2⟩ := runFCalls_congr kb rest (s := (runFCall kb c s).1) (s' := s) hcid
    rw [runFCalls_cons]
    exact ⟨by rw [hc0, g2, i0, add_zero], fun k => by rw [g1 k, iid k]⟩

variable (hw : FolAmount.WorldsInUnit kb)
include hw

/-- a list of calls that reports `0` and makes no table longer: EVERY call of the list, run on the
start state itself, reports `0` and is the identity -/
theorem runFCalls_zero_noNew_each (cs : List (FCall ι)) (s : FState ι α) (hs : SInUnit s)
    (hn : SNodup s) (h0 : (runFCalls kb cs s).2 = 0)
    (hlen : ∀ k, ((runFCalls kb cs s).1.get k).length = (s.get k).length) :
    ∀ c ∈ cs, CallFix kb c s := by
  induction cs generalizing s with
  | nil => intro c hc; simp at hc
  | cons c rest ih =>
    obtain ⟨hc0, _, hr0⟩ := runFCalls_zero_head kb hw c rest s hs h0
    have hl1 : ∀ k, ((runFCall kb c s).1.get k).length = (s.get k).length := by
      intro k
      have a := length_mono_runFCall kb s c k
      have b := length_mono_runFCalls kb (runFCall kb c s).1 rest k
      have e := hlen k
      rw [runFCalls_cons] at e
      simp only at e
      omega
    have hid := runFCall_zero_noNew_id kb hw s hs hn c hc0 hl1
    have hfix : CallFix kb c s := ⟨hc0, hid⟩
    intro c' hc'
    rcases List.mem_cons.mp hc' with e | e
    · rw [e]; exact hfix
    · have hl2 : ∀ k, ((runFCalls kb rest (runFCall kb c s).1).1.get k).length =
          ((runFCall kb c s).1.get k).length := by
        intro k
        have e := hlen k
        rw [runFCalls_cons] at e
        simp only at e
        rw [e, hl1 k]
      exact (ih (runFCall kb c s).1 (runFCall_inUnit kb hw c s hs) (runFCall_snodup kb s c hn)
        hr0 hl2 c' e).congr hid

/-- … hence any list of calls drawn from it (every prefix, every suffix, the list itself run a
second time, the calls in any other order) reports `0` and is the identity on the start state -/
theorem runFCalls_zero_noNew_sub (cs : List (FCall ι)) (s : FState ι α) (hs : SInUnit s)
    (hn : SNodup s) (h0 : (runFCalls kb cs s).2 = 0)
    (hlen : ∀ k, ((runFCalls kb cs s).1.get k).length = (s.get k).length)
    (cs' : List (FCall ι)) (hsub : ∀ c ∈ cs', c ∈ cs) :
    (runFCalls kb cs' s).2 = 0 ∧ ∀ k, (runFCalls kb cs' s).1.get k = s.get k :=
  runFCalls_of_callFix kb cs' s
    (fun c hc => runFCalls_zero_noNew_each kb hw cs s hs hn h0 hlen c (hsub c hc))

/-- … and on the state the list returned -/
theorem runFCalls_zero_noNew_again (cs : List (FCall ι)) (s : FState ι α) (hs : SInUnit s)
    (hn : SNodup s) (h0 : (runFCalls kb cs s).2 = 0)
    (hlen : ∀ k, ((runFCalls kb cs s).1.get k).length = (s.get k).length)
    (cs' : List (FCall ι)) (hsub : ∀ c ∈ cs', c ∈ cs) :
    (runFCalls kb cs' (runFCalls kb cs s).1).2 = 0 ∧
      ∀ k, (runFCalls kb cs' (runFCalls kb cs s).1).1.get k = (runFCalls kb cs s).1.get k := by
  have hid := runFCalls_zero_noNew_id kb hw s hs hn cs h0 hlen
  obtain ⟨a, b⟩ := runFCalls_zero_noNew_sub kb hw cs s hs hn h0 hlen cs' hsub
  obtain ⟨g1, g2⟩ := runFCalls_congr kb cs' (s := (runFCalls kb cs s).1) (s' := s) hid
  exact ⟨by rw [g2, a], fun k => by rw [g1 k, b k, hid k]⟩

end lists

/-! ## 6. which tables a call can touch; the number of stored groundings -/

/-- the formula a call is made on -/
def cnode : FCall ι → ι
  | .up i => i
  | .down i _ => i

section frame

variable (kb : FKB ι α) (s : FState ι α) (j : ι)

theorem fUp_frame (i : ι) (hj : j ∉ i :: (kb i).ops) : (fUp kb i s).1.get j = s.get j := by
  have hji : j ≠ i := fun e => hj (e ▸ List.mem_cons_self ..)
  unfold fUp
  split
  · rfl
  · exact FolSound.fUpNot_frame kb i s j hji
  · exact FolSound.fUpQuant_frame kb i s j hji
  · exact FolSound.fUpQuant_frame kb i s j hji
  · exact FolSound.fUpConn_frame kb i s j hj

theorem fDown_frame (i : ι) (idx : Option Nat) (hj : j ∉ i :: (kb i).ops) :
    (fDown kb i idx s).1.get j = s.get j := by
  unfold fDown
  split
  · rfl
  · exact FolSound.fDownNot_frame kb i s j (fun h => hj (List.mem_cons_of_mem _ h))
  · exact FolSound.fDownQuant_frame kb i s j hj
  · exact FolSound.fDownQuant_frame kb i s j hj
  · exact FolSound.fDownConn_frame kb i s j idx hj

theorem runFCall_frame (c : FCall ι) (hj : j ∉ cnode c :: (kb (cnode c)).ops) :
    (runFCall kb c s).1.get j = s.get j := by
  cases c with
  | up i => exact fUp_frame kb s j i hj
  | down i idx => exact fDown_frame kb s j i idx hj

theorem runFCalls_frame (cs : List (FCall ι)) (hj : ∀ c ∈ cs, j ∉ cnode c :: (kb (cnode c)).ops) :
    (runFCalls kb cs s).1.get j = s.get j := by
  induction cs generalizing s with
  | nil => rfl
  | cons c rest ih =>
    rw [runFCalls_cons]
    simp only
    rw [ih _ (fun c' hc' => hj c' (List.mem_cons_of_mem _ hc')),
      runFCall_frame kb s j c (hj c (List.mem_cons_self ..))]

end frame

theorem sum_map_le {β : Type} (f g : β → Nat) (l : List β) (hle : ∀ x ∈ l, f x ≤ g x) :
    (l.map f).sum ≤ (l.map g).sum := by
  induction l with
  | nil => simp
  | cons a l ih =>
    have h1 := hle a (List.mem_cons_self ..)
    have h2 := ih (fun x hx => hle x (List.mem_cons_of_mem _ hx))
    simp only [List.map_cons, List.sum_cons]
    omega

theorem eq_of_sum_map_eq {β : Type} (f g : β → Nat) (l : List β) (hle : ∀ x ∈ l, f x ≤ g x)
    (hsum : (l.map g).sum = (l.map f).sum) : ∀ x ∈ l, g x = f x := by
  induction l with
  | nil => intro x hx; simp at hx
  | cons a l ih =>
    have h1 := hle a (List.mem_cons_self ..)
    have h2 := sum_map_le f g l (fun x hx => hle x (List.mem_cons_of_mem _ hx))
    simp only [List.map_cons, List.sum_cons] at hsum
    intro x hx
    rcases List.mem_cons.mp hx with e | e
    · rw [e]; omega
    · exact ih (fun x hx => hle x (List.mem_cons_of_mem _ hx)) (by omega) x e

/-- calls on registered formulae with registered operands that leave the number of stored
groundings unchanged made no table longer -/
theorem noNew_of_nGroundings (kb : FKB ι α) (nodes : List ι) (cs : List (FCall ι))
    (s : FState ι α)
    (hcov : ∀ c ∈ cs, cnode c ∈ nodes ∧ ∀ j ∈ (kb (cnode c)).ops, j ∈ nodes)
    (hng : nGroundings nodes (runFCalls kb cs s).1 = nGroundings nodes s) :
    ∀ k, ((runFCalls kb cs s).1.get k).length = (s.get k).length := by
  intro k
  by_cases hk : k ∈ nodes
  · exact eq_of_sum_map_eq (fun i => (s.get i).length)
      (fun i => ((runFCalls kb cs s).1.get i).length) nodes
      (fun i _ => length_mono_runFCalls kb s cs i) hng k hk
  · rw [runFCalls_frame kb s k cs]
    intro c hc hmem
    rcases List.mem_cons.mp hmem with e | e
    · exact hk (e ▸ (hcov c hc).1)
    · exact hk ((hcov c hc).2 k e)

/-- a list of calls that reports `0` and leaves the number of stored groundings unchanged -/
theorem runFCalls_zero_sameCount_fix (kb : FKB ι α) (hw : FolAmount.WorldsInUnit kb)
    (nodes : List ι) (cs : List (FCall ι)) (s : FState ι α) (hs : SInUnit s) (hn : SNodup s)
    (hcov : ∀ c ∈ cs, cnode c ∈ nodes ∧ ∀ j ∈ (kb (cnode c)).ops, j ∈ nodes)
    (h0 : (runFCalls kb cs s).2 = 0)
    (hng : nGroundings nodes (runFCalls kb cs s).1 = nGroundings nodes s) :
    (∀ k, (runFCalls kb cs s).1.get k = s.get k) ∧ ∀ c ∈ cs, CallFix kb c s :=
  have hlen := noNew_of_nGroundings kb nodes cs s hcov hng
  ⟨runFCalls_zero_noNew_id kb hw s hs hn cs h0 hlen,
    runFCalls_zero_noNew_each kb hw cs s hs hn h0 hlen⟩

/-! ## 7. `fInfer` -/

section infer

variable (kb : FKB ι α) (nodes : List ι) (up down : List (FCall ι)) (eps : α)

theorem fInfer_succ_pos (fuel : Nat) (s : FState ι α)
    (h : (runFCalls kb up s).2 + (runFCalls kb down (runFCalls kb up s).1).2 ≤ eps ∧
      nGroundings nodes (runFCalls kb down (runFCalls kb up s).1).1 = nGroundings nodes s) :
    fInfer kb nodes up down eps (fuel + 1) s =
      ⟨(runFCalls kb down (runFCalls kb up s).1).1, 1,
        (runFCalls kb up s).2 + (runFCalls kb down (runFCalls kb up s).1).2, true⟩ := by
  simp only [fInfer]
  rw [if_pos h]

theorem fInfer_succ_neg (fuel : Nat) (s : FState ι α)
    (h : ¬ ((runFCalls kb up s).2 + (runFCalls kb down (runFCalls kb up s).1).2 ≤ eps ∧
      nGroundings nodes (runFCalls kb down (runFCalls kb up s).1).1 = nGroundings nodes s)) :
    fInfer kb nodes up down eps (fuel + 1) s =
      ⟨(fInfer kb nodes up down eps fuel (runFCalls kb down (runFCalls kb up s).1).1).state,
        (fInfer kb nodes up down eps fuel (runFCalls kb down (runFCalls kb up s).1).1).steps + 1,
        (runFCalls kb up s).2 + (runFCalls kb down (runFCalls kb up s).1).2 +
          (fInfer kb nodes up down eps fuel (runFCalls kb down (runFCalls kb up s).1).1).total,
        (fInfer kb nodes up down eps fuel (runFCalls kb down (runFCalls kb up s).1).1).converged⟩ := by
  simp only [fInfer]
  rw [if_neg h]

/-- `SInUnit` and `SNodup` are kept by `fInfer` -/
theorem fInfer_inv (hw : FolAmount.WorldsInUnit kb) (fuel : Nat) (s : FState ι α)
    (hs : SInUnit s) (hn : SNodup s) :
    SInUnit (fInfer kb nodes up down eps fuel s).state ∧
      SNodup (fInfer kb nodes up down eps fuel s).state := by
  induction fuel generalizing s with
  | zero => exact ⟨hs, hn⟩
  | succ n ih =>
    have hs' := runFCalls_inUnit kb hw down _ (runFCalls_inUnit kb hw up s hs)
    have hn' := runFCalls_snodup kb _ down (runFCalls_snodup kb s up hn)
    by_cases hc : (runFCalls kb up s).2 + (runFCalls kb down (runFCalls kb up s).1).2 ≤ eps ∧
        nGroundings nodes (runFCalls kb down (runFCalls kb up s).1).1 = nGroundings nodes s
    · rw [fInfer_succ_pos kb nodes up down eps n s hc]
      exact ⟨hs', hn'⟩
    · rw [fInfer_succ_neg kb nodes up down eps n s hc]
      exact ih _ hs' hn'

/-- when `fInfer` returns `converged = true`, its LAST sweep started in a state `t` (in range,
every grounding stored once), reported at most `eps`, left the number of stored groundings
unchanged, and the returned state is the result of that sweep -/
theorem fInfer_converged_last_sweep (hw : FolAmount.WorldsInUnit kb) (fuel : Nat)
    (s : FState ι α) (hs : SInUnit s) (hn : SNodup s)
    (hconv : (fInfer kb nodes up down eps fuel s).converged = true) :
    ∃ t, SInUnit t ∧ SNodup t ∧
      (runFCalls kb up t).2 + (runFCalls kb down (runFCalls kb up t).1).2 ≤ eps ∧
      nGroundings nodes (runFCalls kb down (runFCalls kb up t).1).1 = nGroundings nodes t ∧
      (fInfer kb nodes up down eps fuel s).state = (runFCalls kb down (runFCalls kb up t).1).1 := by
  induction fuel generalizing s with
  | zero => simp [fInfer] at hconv
  | succ n ih =>
    by_cases hc : (runFCalls kb up s).2 + (runFCalls kb down (runFCalls kb up s).1).2 ≤ eps ∧
        nGroundings nodes (runFCalls kb down (runFCalls kb up s).1).1 = nGroundings nodes s
    · rw [fInfer_succ_pos kb nodes up down eps n s hc]
      exact ⟨s, hs, hn, hc.1, hc.2, rfl⟩
    · rw [fInfer_succ_neg kb nodes up down eps n s hc] at hconv ⊢
      exact ih _ (runFCalls_inUnit kb hw down _ (runFCalls_inUnit kb hw up s hs))
        (runFCalls_snodup kb _ down (runFCalls_snodup kb s up hn)) hconv

/-- (a) for any state on which every call of the two sweeps is the identity: so are the sweeps -/
theorem sweeps_of_callFix (r : FState ι α) (h : ∀ c ∈ up ++ down, CallFix kb c r) :
    ((runFCalls kb up r).2 = 0 ∧ ∀ k, (runFCalls kb up r).1.get k = r.get k) ∧
    ((runFCalls kb down (runFCalls kb up r).1).2 = 0 ∧
      ∀ k, (runFCalls kb down (runFCalls kb up r).1).1.get k = r.get k) := by
  have hu := runFCalls_of_callFix kb up r (fun c hc => h c (List.mem_append_left _ hc))
  have hd := runFCalls_of_callFix kb down r (fun c hc => h c (List.mem_append_right _ hc))
  obtain ⟨g1, g2⟩ := runFCalls_congr kb down (s := (runFCalls kb up r).1) (s' := r) hu.2
  exact ⟨hu, by rw [g2, hd.1], fun k => by rw [g1 k, hd.2 k]⟩

/-- (c) … and `fInfer` started there takes one sweep, reports `0`, converges, and returns the same
tables -/
theorem fInfer_of_callFix (r : FState ι α) (h : ∀ c ∈ up ++ down, CallFix kb c r)
    (heps : 0 ≤ eps) (fuel' : Nat) :
    (fInfer kb nodes up down eps (fuel' + 1) r).steps = 1 ∧
    (fInfer kb nodes up down eps (fuel' + 1) r).total = 0 ∧
    (fInfer kb nodes up down eps (fuel' + 1) r).converged = true ∧
    ∀ k, (fInfer kb nodes up down eps (fuel' + 1) r).state.get k = r.get k := by
  obtain ⟨⟨u0, _⟩, d0, did⟩ := sweeps_of_callFix kb up down r h
  have hc : (runFCalls kb up r).2 + (runFCalls kb down (runFCalls kb up r).1).2 ≤ eps ∧
      nGroundings nodes (runFCalls kb down (runFCalls kb up r).1).1 = nGroundings nodes r :=
    ⟨by rw [u0, d0, add_zero]; exact heps, nGroundings_congr nodes did⟩
  rw [fInfer_succ_pos kb nodes up down eps fuel' r hc]
  exact ⟨rfl, by simp only [u0, d0, add_zero], rfl, did⟩

variable (hw : FolAmount.WorldsInUnit kb) (fuel : Nat) (s : FState ι α) (hs : SInUnit s)
  (hn : SNodup s) (hconv : (fInfer kb nodes up down eps fuel s).converged = true)
  (hgrid : ∀ (cs : List (FCall ι)) (t : FState ι α),
    (runFCalls kb cs t).2 ≤ eps → (runFCalls kb cs t).2 = 0)
  (hcov : ∀ c ∈ up ++ down, cnode c ∈ nodes ∧ ∀ j ∈ (kb (cnode c)).ops, j ∈ nodes)
include hw hs hn hconv hgrid hcov

/-- MAIN (b): on the state a converged `fInfer` returns, EVERY call of the two sweeps — run on that
state itself, at whatever position of the sweep it stands — reports `0` and leaves every table as it
is. (Also: `0 ≤ eps`, and the returned state is in range and stores every grounding once.) -/
theorem fInfer_converged_callFix :
    0 ≤ eps ∧ SInUnit (fInfer kb nodes up down eps fuel s).state ∧
      SNodup (fInfer kb nodes up down eps fuel s).state ∧
      ∀ c ∈ up ++ down, CallFix kb c (fInfer kb nodes up down eps fuel s).state := by
  obtain ⟨t, ht, hnt, hle, hng, hst⟩ :=
    fInfer_converged_last_sweep kb nodes up down eps hw fuel s hs hn hconv
  have happ := runFCalls_append kb up down t
  have hle' : (runFCalls kb (up ++ down) t).2 ≤ eps := by rw [happ]; exact hle
  have h0 := hgrid (up ++ down) t hle'
  have hng' : nGroundings nodes (runFCalls kb (up ++ down) t).1 = nGroundings nodes t := by
    rw [happ]; exact hng
  obtain ⟨hid, hfix⟩ :=
    runFCalls_zero_sameCount_fix kb hw nodes (up ++ down) t ht hnt hcov h0 hng'
  have hinv := fInfer_inv kb nodes up down eps hw fuel s hs hn
  have hsg : SG t (fInfer kb nodes up down eps fuel s).state := by
    intro k
    rw [hst, ← hid k, happ]
  exact ⟨by rw [← h0]; exact hle', hinv.1, hinv.2, fun c hc => (hfix c hc).congr hsg⟩

/-- MAIN (a): the state a converged `fInfer` returns is a fixpoint of the upward sweep and of the
downward sweep run after it: both report `0` and leave every table as it is -/
theorem fInfer_converged_sweeps :
    ((runFCalls kb up (fInfer kb nodes up down eps fuel s).state).2 = 0 ∧
      ∀ k, (runFCalls kb up (fInfer kb nodes up down eps fuel s).state).1.get k =
        (fInfer kb nodes up down eps fuel s).state.get k) ∧
    ((runFCalls kb down (runFCalls kb up (fInfer kb nodes up down eps fuel s).state).1).2 = 0 ∧
      ∀ k, (runFCalls kb down (runFCalls kb up (fInfer kb nodes up down eps fuel s).state).1).1.get k =
        (fInfer kb nodes up down eps fuel s).state.get k) :=
  sweeps_of_callFix kb up down _
    (fInfer_converged_callFix kb nodes up down eps hw fuel s hs hn hconv hgrid hcov).2.2.2

/-- … and of any list of calls drawn from the two sweeps, in any order -/
theorem fInfer_converged_anyOrder (cs' : List (FCall ι)) (hsub : ∀ c ∈ cs', c ∈ up ++ down) :
    (runFCalls kb cs' (fInfer kb nodes up down eps fuel s).state).2 = 0 ∧
      ∀ k, (runFCalls kb cs' (fInfer kb nodes up down eps fuel s).state).1.get k =
        (fInfer kb nodes up down eps fuel s).state.get k :=
  runFCalls_of_callFix kb cs' _ (fun c hc =>
    (fInfer_converged_callFix kb nodes up down eps hw fuel s hs hn hconv hgrid hcov).2.2.2 c
      (hsub c hc))

/-- MAIN (c): a second `fInfer` from the state a converged `fInfer` returned takes one sweep,
reports `0`, converges, and returns the same tables -/
theorem fInfer_converged_again (fuel' : Nat) :
    (fInfer kb nodes up down eps (fuel' + 1) (fInfer kb nodes up down eps fuel s).state).steps = 1 ∧
    (fInfer kb nodes up down eps (fuel' + 1) (fInfer kb nodes up down eps fuel s).state).total = 0 ∧
    (fInfer kb nodes up down eps (fuel' + 1)
      (fInfer kb nodes up down eps fuel s).state).converged = true ∧
    ∀ k, (fInfer kb nodes up down eps (fuel' + 1)
      (fInfer kb nodes up down eps fuel s).state).state.get k =
        (fInfer kb nodes up down eps fuel s).state.get k :=
  have h := fInfer_converged_callFix kb nodes up down eps hw fuel s hs hn hconv hgrid hcov
  fInfer_of_callFix kb nodes up down eps _ h.2.2.2 h.1 fuel'

end infer

/-- at `eps = 0` the grid hypothesis holds for every knowledge base -/
theorem hgrid_of_eps_zero (kb : FKB ι α) (cs : List (FCall ι)) (t : FState ι α)
    (h : (runFCalls kb cs t).2 ≤ 0) : (runFCalls kb cs t).2 = 0 :=
  le_antisymm h (runFCalls_amount_nonneg kb cs t)

/-! ## 7'. the same, with the grid hypothesis about THIS RUN only -/

/-- one reasoning step of `fInfer`: the upward sweep followed by the downward sweep -/
def sweep (kb : FKB ι α) (up down : List (FCall ι)) (s : FState ι α) : FState ι α × α :=
  let u := runFCalls kb up s
  let d := runFCalls kb down u.1
  (d.1, u.2 + d.2)

/-- the state before the n-th sweep of the run that starts in `s` -/
def sweepState (kb : FKB ι α) (up down : List (FCall ι)) (s : FState ι α) : Nat → FState ι α
  | 0 => s
  | n + 1 => (sweep kb up down (sweepState kb up down s n)).1

/-- no sweep of THIS run reports an amount in (0, eps] (the formal content of "exactly representable
bounds": on dyadic data every reported amount is 0 or a multiple of the grid, which is coarser than
eps) -/
def RunExact (kb : FKB ι α) (up down : List (FCall ι)) (eps : α) (s : FState ι α) : Prop :=
  ∀ n, (sweep kb up down (sweepState kb up down s n)).2 ≤ eps →
    (sweep kb up down (sweepState kb up down s n)).2 = 0

section run

variable (kb : FKB ι α) (nodes : List ι) (up down : List (FCall ι)) (eps : α)

theorem sweep_eq_append (s : FState ι α) : sweep kb up down s = runFCalls kb (up ++ down) s :=
  (runFCalls_append kb up down s).symm

theorem sweepState_zero (s : FState ι α) : sweepState kb up down s 0 = s := rfl

theorem sweepState_succ (s : FState ι α) (n : Nat) :
    sweepState kb up down s (n + 1) = (sweep kb up down (sweepState kb up down s n)).1 := rfl

/-- the run from `s`, one sweep later, is the run from the result of the first sweep -/
theorem sweepState_succ' (s : FState ι α) (n : Nat) :
    sweepState kb up down s (n + 1) = sweepState kb up down (sweep kb up down s).1 n := by
  induction n with
  | zero => rfl
  | succ n ih => rw [sweepState_succ, ih]; rfl

theorem sweep_amount_nonneg (s : FState ι α) : 0 ≤ (sweep kb up down s).2 := by
  rw [sweep_eq_append]
  exact runFCalls_amount_nonneg kb _ s

/-- at `eps ≤ 0` every run is exact -/
theorem runExact_of_eps_zero (s : FState ι α) (heps : eps ≤ 0) : RunExact kb up down eps s :=
  fun _ h => le_antisymm (le_trans h heps) (sweep_amount_nonneg kb up down _)

/-- the unprimed grid hypothesis implies the one about this run -/
theorem runExact_of_hgrid (s : FState ι α)
    (hgrid : ∀ (cs : List (FCall ι)) (t : FState ι α),
      (runFCalls kb cs t).2 ≤ eps → (runFCalls kb cs t).2 = 0) : RunExact kb up down eps s := by
  intro n h
  rw [sweep_eq_append] at h ⊢
  exact hgrid _ _ h

theorem sweep_congr {s s' : FState ι α} (h : SG s s') :
    PG (sweep kb up down s) (sweep kb up down s') := by
  rw [sweep_eq_append, sweep_eq_append]
  exact runFCalls_congr kb _ h

/-- on a state where every call of the two sweeps is the identity, so is the sweep -/
theorem sweep_of_callFix (r : FState ι α) (h : ∀ c ∈ up ++ down, CallFix kb c r) :
    (sweep kb up down r).2 = 0 ∧ SG (sweep kb up down r).1 r := by
  rw [sweep_eq_append]
  exact runFCalls_of_callFix kb (up ++ down) r h

/-- once a sweep of the run starts in a fixpoint, every later sweep starts in the same tables and
reports `0` -/
theorem sweepState_of_callFix (s : FState ι α) (n0 : Nat)
    (h : ∀ c ∈ up ++ down, CallFix kb c (sweepState kb up down s n0)) (m : Nat) :
    SG (sweepState kb up down s (n0 + m)) (sweepState kb up down s n0) ∧
      (sweep kb up down (sweepState kb up down s (n0 + m))).2 = 0 := by
  induction m with
  | zero => exact ⟨SG.refl _, (sweep_of_callFix kb up down _ h).1⟩
  | succ m ih =>
    have hfix : ∀ c ∈ up ++ down, CallFix kb c (sweepState kb up down s (n0 + m)) :=
      fun c hc => (h c hc).congr ih.1.symm
    have h1 := sweep_of_callFix kb up down _ hfix
    have hsg : SG (sweepState kb up down s (n0 + (m + 1))) (sweepState kb up down s n0) := by
      rw [← Nat.add_assoc, sweepState_succ]
      exact h1.2.trans ih.1
    exact ⟨hsg, (sweep_of_callFix kb up down _ (fun c hc => (h c hc).congr hsg.symm)).1⟩

/-- a run that reaches a fixpoint before sweep `n0` and reports nothing in (0, eps] before that is
exact -/
theorem runExact_of_callFix (s : FState ι α) (n0 : Nat)
    (h : ∀ c ∈ up ++ down, CallFix kb c (sweepState kb up down s n0))
    (hpre : ∀ n, n < n0 → (sweep kb up down (sweepState kb up down s n)).2 ≤ eps →
      (sweep kb up down (sweepState kb up down s n)).2 = 0) : RunExact kb up down eps s := by
  intro n hle
  by_cases hn : n < n0
  · exact hpre n hn hle
  · obtain ⟨m, rfl⟩ : ∃ m, n = n0 + m := ⟨n - n0, by omega⟩
    exact (sweepState_of_callFix kb up down s n0 h m).2

/-- a sweep that reports `0` and leaves the number of stored groundings unchanged returns the same
tables, and every call of the two sweeps is the identity on what it returns -/
theorem callFix_of_sweep (hw : FolAmount.WorldsInUnit kb) (t : FState ι α) (ht : SInUnit t)
    (hnt : SNodup t)
    (hcov : ∀ c ∈ up ++ down, cnode c ∈ nodes ∧ ∀ j ∈ (kb (cnode c)).ops, j ∈ nodes)
    (h0 : (sweep kb up down t).2 = 0)
    (hng : nGroundings nodes (sweep kb up down t).1 = nGroundings nodes t) :
    SG t (sweep kb up down t).1 ∧ ∀ c ∈ up ++ down, CallFix kb c (sweep kb up down t).1 := by
  rw [sweep_eq_append] at h0 hng ⊢
  obtain ⟨hid, hfix⟩ :=
    runFCalls_zero_sameCount_fix kb hw nodes (up ++ down) t ht hnt hcov h0 hng
  have hsg : SG t (runFCalls kb (up ++ down) t).1 := fun k => (hid k).symm
  exact ⟨hsg, fun c hc => (hfix c hc).congr hsg⟩

/-- when `fInfer` returns `converged = true`, its LAST sweep is a sweep of the run from `s`: it
started in `sweepState … s n` for some `n < fuel` (in range, every grounding stored once), reported
at most `eps`, left the number of stored groundings unchanged, and the returned state is its
result -/
theorem fInfer_converged_last_sweep' (hw : FolAmount.WorldsInUnit kb) (fuel : Nat)
    (s : FState ι α) (hs : SInUnit s) (hn : SNodup s)
    (hconv : (fInfer kb nodes up down eps fuel s).converged = true) :
    ∃ n, n < fuel ∧ SInUnit (sweepState kb up down s n) ∧ SNodup (sweepState kb up down s n) ∧
      (sweep kb up down (sweepState kb up down s n)).2 ≤ eps ∧
      nGroundings nodes (sweep kb up down (sweepState kb up down s n)).1 =
        nGroundings nodes (sweepState kb up down s n) ∧
      (fInfer kb nodes up down eps fuel s).state =
        (sweep kb up down (sweepState kb up down s n)).1 := by
  induction fuel generalizing s with
  | zero => simp [fInfer] at hconv
  | succ m ih =>
    by_cases hc : (runFCalls kb up s).2 + (runFCalls kb down (runFCalls kb up s).1).2 ≤ eps ∧
        nGroundings nodes (runFCalls kb down (runFCalls kb up s).1).1 = nGroundings nodes s
    · rw [fInfer_succ_pos kb nodes up down eps m s hc]
      exact ⟨0, Nat.succ_pos _, hs, hn, hc.1, hc.2, rfl⟩
    · rw [fInfer_succ_neg kb nodes up down eps m s hc] at hconv ⊢
      obtain ⟨n, hlt, h1, h2, h3, h4, h5⟩ :=
        ih (runFCalls kb down (runFCalls kb up s).1).1
          (runFCalls_inUnit kb hw down _ (runFCalls_inUnit kb hw up s hs))
          (runFCalls_snodup kb _ down (runFCalls_snodup kb s up hn)) hconv
      refine ⟨n + 1, by omega, ?_⟩
      rw [sweepState_succ']
      exact ⟨h1, h2, h3, h4, h5⟩

variable (hw : FolAmount.WorldsInUnit kb) (fuel : Nat) (s : FState ι α) (hs : SInUnit s)
  (hn : SNodup s) (hconv : (fInfer kb nodes up down eps fuel s).converged = true)
  (hexact : RunExact kb up down eps s)
  (hcov : ∀ c ∈ up ++ down, cnode c ∈ nodes ∧ ∀ j ∈ (kb (cnode c)).ops, j ∈ nodes)
include hw hs hn hconv hexact hcov

/-- MAIN (b), grid hypothesis about this run only -/
theorem fInfer_converged_callFix' :
    0 ≤ eps ∧ SInUnit (fInfer kb nodes up down eps fuel s).state ∧
      SNodup (fInfer kb nodes up down eps fuel s).state ∧
      ∀ c ∈ up ++ down, CallFix kb c (fInfer kb nodes up down eps fuel s).state := by
  obtain ⟨n, _, ht, hnt, hle, hng, hst⟩ :=
    fInfer_converged_last_sweep' kb nodes up down eps hw fuel s hs hn hconv
  have h0 := hexact n hle
  have hinv := fInfer_inv kb nodes up down eps hw fuel s hs hn
  have hfix := (callFix_of_sweep kb nodes up down hw _ ht hnt hcov h0 hng).2
  rw [← hst] at hfix
  exact ⟨by rw [← h0]; exact hle, hinv.1, hinv.2, hfix⟩

/-- MAIN (a), grid hypothesis about this run only -/
theorem fInfer_converged_sweeps' :
    ((runFCalls kb up (fInfer kb nodes up down eps fuel s).state).2 = 0 ∧
      ∀ k, (runFCalls kb up (fInfer kb nodes up down eps fuel s).state).1.get k =
        (fInfer kb nodes up down eps fuel s).state.get k) ∧
    ((runFCalls kb down (runFCalls kb up (fInfer kb nodes up down eps fuel s).state).1).2 = 0 ∧
      ∀ k, (runFCalls kb down (runFCalls kb up (fInfer kb nodes up down eps fuel s).state).1).1.get k =
        (fInfer kb nodes up down eps fuel s).state.get k) :=
  sweeps_of_callFix kb up down _
    (fInfer_converged_callFix' kb nodes up down eps hw fuel s hs hn hconv hexact hcov).2.2.2

/-- … any list of calls drawn from the two sweeps, in any order -/
theorem fInfer_converged_anyOrder' (cs' : List (FCall ι)) (hsub : ∀ c ∈ cs', c ∈ up ++ down) :
    (runFCalls kb cs' (fInfer kb nodes up down eps fuel s).state).2 = 0 ∧
      ∀ k, (runFCalls kb cs' (fInfer kb nodes up down eps fuel s).state).1.get k =
        (fInfer kb nodes up down eps fuel s).state.get k :=
  runFCalls_of_callFix kb cs' _ (fun c hc =>
    (fInfer_converged_callFix' kb nodes up down eps hw fuel s hs hn hconv hexact hcov).2.2.2 c
      (hsub c hc))

/-- MAIN (c), grid hypothesis about this run only -/
theorem fInfer_converged_again' (fuel' : Nat) :
    (fInfer kb nodes up down eps (fuel' + 1) (fInfer kb nodes up down eps fuel s).state).steps = 1 ∧
    (fInfer kb nodes up down eps (fuel' + 1) (fInfer kb nodes up down eps fuel s).state).total = 0 ∧
    (fInfer kb nodes up down eps (fuel' + 1)
      (fInfer kb nodes up down eps fuel s).state).converged = true ∧
    ∀ k, (fInfer kb nodes up down eps (fuel' + 1)
      (fInfer kb nodes up down eps fuel s).state).state.get k =
        (fInfer kb nodes up down eps fuel s).state.get k :=
  have h := fInfer_converged_callFix' kb nodes up down eps hw fuel s hs hn hconv hexact hcov
  fInfer_of_callFix kb nodes up down eps _ h.2.2.2 h.1 fuel'

end run

/-! ## 8. non-vacuity -/

section examples

/-- `FolAmount.exKB` (node 1 = `Not(node 0)`, node 0 a predicate), `FolAmount.exS` (`P(0)` TRUE, the
negation has no row yet); one upward and one downward call of the negation per sweep, `eps = 0` -/
private def exR : FInferResult Nat ℚ := fInfer exKB [0, 1] [.up 1] [.down 1 none] 0 5 exS

/-- `fInfer` converges after two sweeps: the first creates the row of `¬P(0)` and moves it to FALSE
(reports 1), the second reports 0 and creates nothing -/
private theorem exR_spec : exR.converged = true ∧ exR.steps = 2 ∧ exR.total = 1 := by
  simp [exR, fInfer, runFCalls, runFCall, nGroundings, fUp, fDown, fUpNot, fDownNot, exKB, exS,
    FState.get, FState.set, Table.keys, Table.addg, Table.has, Table.find?, Table.getD, aggRow,
    aggregate, negB, clamp01, Table.setB]

private theorem exS_snodup : SNodup exS := by
  intro i
  by_cases hi : i = 0
  · subst hi
    simp [exS, FState.get, Table.NodupKeys, Table.keys]
  · have : ¬ 0 = i := fun e => hi e.symm
    simp [exS, FState.get, this, Table.NodupKeys, Table.keys]

private theorem ex_cov : ∀ c ∈ ([.up 1] : List (FCall Nat)) ++ [.down 1 none],
    cnode c ∈ [0, 1] ∧ ∀ j ∈ (exKB (cnode c)).ops, j ∈ [0, 1] := by
  intro c hc
  simp only [List.cons_append, List.nil_append, List.mem_cons, List.not_mem_nil, or_false] at hc
  rcases hc with rfl | rfl <;> simp [cnode, exKB]

/-- all hypotheses of the main theorems hold here; their conclusion: a second `fInfer` takes one
sweep, reports 0, converges, and returns the same tables -/
example :
    (fInfer exKB [0, 1] [.up 1] [.down 1 none] 0 3 exR.state).steps = 1 ∧
    (fInfer exKB [0, 1] [.up 1] [.down 1 none] 0 3 exR.state).total = 0 ∧
    (fInfer exKB [0, 1] [.up 1] [.down 1 none] 0 3 exR.state).converged = true ∧
    ∀ k, (fInfer exKB [0, 1] [.up 1] [.down 1 none] 0 3 exR.state).state.get k = exR.state.get k :=
  fInfer_converged_again exKB [0, 1] [.up 1] [.down 1 none] 0 exKB_worlds 5 exS exS_inUnit
    exS_snodup exR_spec.1 (hgrid_of_eps_zero exKB) ex_cov 2

/-- … and the upward call of the negation on the returned state is the identity, reporting 0 -/
example : CallFix exKB (.up 1) exR.state :=
  (fInfer_converged_callFix exKB [0, 1] [.up 1] [.down 1 none] 0 exKB_worlds 5 exS exS_inUnit
    exS_snodup exR_spec.1 (hgrid_of_eps_zero exKB) ex_cov).2.2.2 _ (by simp)

/-- the same through the variant whose grid hypothesis is about this run only -/
example : CallFix exKB (.down 1 none) exR.state :=
  (fInfer_converged_callFix' exKB [0, 1] [.up 1] [.down 1 none] 0 exKB_worlds 5 exS exS_inUnit
    exS_snodup exR_spec.1 (runExact_of_eps_zero exKB _ _ 0 exS le_rfl) ex_cov).2.2.2 _ (by simp)

/-! the same run at `eps = 1/10000000` (the code's `1e-7`): the sweeps report 1, 0, 0, … -/

/-- the state `fInfer` returned at `eps = 0` is the state before sweep 2 of the run -/
private theorem exR_state : exR.state = sweepState exKB [.up 1] [.down 1 none] exS 2 := by
  simp [exR, sweepState, sweep, fInfer, runFCalls, runFCall, nGroundings, fUp, fDown, fUpNot,
    fDownNot, exKB, exS, FState.get, FState.set, Table.keys, Table.addg, Table.has, Table.find?,
    Table.getD, aggRow, aggregate, negB, clamp01, Table.setB]

private theorem ex_amount0 : (sweep exKB [.up 1] [.down 1 none] exS).2 = 1 := by
  simp [sweep, runFCalls, runFCall, fUp, fDown, fUpNot, fDownNot, exKB, exS, FState.get,
    FState.set, Table.keys, Table.addg, Table.has, Table.find?, Table.getD, aggRow, aggregate, negB,
    clamp01, Table.setB]

private theorem ex_amount1 :
    (sweep exKB [.up 1] [.down 1 none] (sweepState exKB [.up 1] [.down 1 none] exS 1)).2 = 0 := by
  simp [sweepState, sweep, runFCalls, runFCall, fUp, fDown, fUpNot, fDownNot, exKB, exS,
    FState.get, FState.set, Table.keys, Table.addg, Table.has, Table.find?, Table.getD, aggRow,
    aggregate, negB, clamp01, Table.setB]

/-- this run is exact at `eps = 1e-7`: sweep 0 reports 1, sweep 1 reports 0, and sweep 2 starts in
a fixpoint (by the `eps = 0` theorem), so that every later sweep reports 0 -/
private theorem ex_runExact : RunExact exKB [.up 1] [.down 1 none] (1/10000000) exS := by
  apply runExact_of_callFix exKB [.up 1] [.down 1 none] (1/10000000) exS 2
  · rw [← exR_state]
    exact (fInfer_converged_callFix' exKB [0, 1] [.up 1] [.down 1 none] 0 exKB_worlds 5 exS
      exS_inUnit exS_snodup exR_spec.1 (runExact_of_eps_zero exKB _ _ 0 exS le_rfl) ex_cov).2.2.2
  · intro n hn hle
    have h01 : n = 0 ∨ n = 1 := by omega
    rcases h01 with rfl | rfl
    · rw [sweepState_zero, ex_amount0] at hle
      norm_num at hle
    · exact ex_amount1

private theorem ex_conv' :
    (fInfer exKB [0, 1] [.up 1] [.down 1 none] (1/10000000) 5 exS).converged = true ∧
    (fInfer exKB [0, 1] [.up 1] [.down 1 none] (1/10000000) 5 exS).steps = 2 := by
  simp [fInfer, runFCalls, runFCall, nGroundings, fUp, fDown, fUpNot, fDownNot, exKB, exS,
    FState.get, FState.set, Table.keys, Table.addg, Table.has, Table.find?, Table.getD, aggRow,
    aggregate, negB, clamp01, Table.setB]

/-- all hypotheses of the primed theorems hold at `eps = 1e-7 > 0`; their conclusion: a second
`fInfer` takes one sweep, reports 0, converges, and returns the same tables -/
example :
    (fInfer exKB [0, 1] [.up 1] [.down 1 none] (1/10000000) 3
      (fInfer exKB [0, 1] [.up 1] [.down 1 none] (1/10000000) 5 exS).state).steps = 1 ∧
    (fInfer exKB [0, 1] [.up 1] [.down 1 none] (1/10000000) 3
      (fInfer exKB [0, 1] [.up 1] [.down 1 none] (1/10000000) 5 exS).state).total = 0 ∧
    (fInfer exKB [0, 1] [.up 1] [.down 1 none] (1/10000000) 3
      (fInfer exKB [0, 1] [.up 1] [.down 1 none] (1/10000000) 5 exS).state).converged = true ∧
    ∀ k, (fInfer exKB [0, 1] [.up 1] [.down 1 none] (1/10000000) 3
      (fInfer exKB [0, 1] [.up 1] [.down 1 none] (1/10000000) 5 exS).state).state.get k =
        (fInfer exKB [0, 1] [.up 1] [.down 1 none] (1/10000000) 5 exS).state.get k :=
  fInfer_converged_again' exKB [0, 1] [.up 1] [.down 1 none] (1/10000000) exKB_worlds 5 exS
    exS_inUnit exS_snodup ex_conv'.1 ex_runExact ex_cov 2

end examples

end FolFix
end LNN
