/-
Lemmas about the training loop `LnnVerif/Model/Train.lean` (used by `Props/C18.lean`).

* `project` (`_project_params`) always returns admissible parameters, never changes the number of
  weights, leaves the weights of "negative weights allowed" neurons alone and is the identity on
  admissible parameters;
* an epoch, any number of epochs and `train` never touch the asserted facts;
* admissibility of the parameters is an invariant of the loop and holds after the first epoch
  whatever the initial parameters and whatever the optimiser does;
* a finite sum of non-negative terms vanishes iff every term does.
-/
import LnnVerif.Model.Train
import LnnVerif.Lemmas.Basic

set_option linter.unusedSectionVars false

namespace LNN.Train

variable {ι : Type} [DecidableEq ι] {α : Type} [Field α] [LinearOrder α] [IsStrictOrderedRing α]

/-- The parameters are admissible: operand weights are non-negative for every neuron for which
negative weights were not requested, and every bias is non-negative. -/
def Admissible (negW : ι → Bool) (p : Params ι α) : Prop :=
  (∀ i, negW i = false → ∀ w ∈ p.w i, 0 ≤ w) ∧ ∀ i, 0 ≤ p.b i

/-! ### projection -/

theorem project_w_of_negW (negW : ι → Bool) (p : Params ι α) {i : ι} (h : negW i = true) :
    (project negW p).w i = p.w i := by
  simp [project, h]

theorem project_w_of_not_negW (negW : ι → Bool) (p : Params ι α) {i : ι} (h : negW i = false) :
    (project negW p).w i = (p.w i).map (max 0) := by
  simp [project, h]

theorem project_b (negW : ι → Bool) (p : Params ι α) (i : ι) :
    (project negW p).b i = max 0 (p.b i) := rfl

theorem project_length (negW : ι → Bool) (p : Params ι α) (i : ι) :
    ((project negW p).w i).length = (p.w i).length := by
  cases h : negW i
  · rw [project_w_of_not_negW negW p h, List.length_map]
  · rw [project_w_of_negW negW p h]

theorem project_admissible (negW : ι → Bool) (p : Params ι α) :
    Admissible negW (project negW p) := by
  refine ⟨?_, ?_⟩
  · intro i hi w hw
    rw [project_w_of_not_negW negW p hi, List.mem_map] at hw
    obtain ⟨x, _, rfl⟩ := hw
    exact le_max_left 0 x
  · intro i
    exact le_max_left 0 (p.b i)

/-- the projection does nothing to admissible parameters -/
theorem project_of_admissible {negW : ι → Bool} {p : Params ι α} (h : Admissible negW p) :
    project negW p = p := by
  obtain ⟨hw, hb⟩ := h
  cases p with
  | mk w b =>
    unfold project
    congr 1
    · funext i
      cases hn : negW i
      · have : ∀ x ∈ w i, max 0 x = x := fun x hx => max_eq_right (hw i hn x hx)
        simp only [Bool.false_eq_true, if_false]
        calc (w i).map (max 0) = (w i).map id := List.map_congr_left this
          _ = w i := List.map_id _
      · simp
    · funext i
      exact max_eq_right (hb i)

/-! ### the facts -/

theorem epoch_leaves (cfg : TrainCfg ι α) (e : Nat) (t : TrainState ι α) :
    (epoch cfg e t).leaves = t.leaves := rfl

theorem epochs_leaves (cfg : TrainCfg ι α) (e k : Nat) (t : TrainState ι α) :
    (epochs cfg e k t).leaves = t.leaves := by
  induction k generalizing e t with
  | zero => rfl
  | succ k ih =>
    show (epochs cfg (e + 1) k (epoch cfg e t)).leaves = t.leaves
    rw [ih]
    rfl

theorem train_leaves (cfg : TrainCfg ι α) (steps : Nat) (t : TrainState ι α) :
    (train cfg steps t).leaves = t.leaves :=
  epochs_leaves cfg 0 steps t

theorem train_params (cfg : TrainCfg ι α) (steps : Nat) (t : TrainState ι α) :
    (train cfg steps t).params = (epochs cfg 0 steps t).params := rfl

/-! ### admissibility -/

theorem epoch_params (cfg : TrainCfg ι α) (e : Nat) (t : TrainState ι α) :
    (epoch cfg e t).params = project cfg.negW
      (cfg.opt e t.params (infer (kbOf cfg.skel t.params) cfg.infer cfg.fuel t.leaves).state) :=
  rfl

/-- after an epoch the parameters are admissible, whatever they were and whatever the optimiser did -/
theorem epoch_admissible (cfg : TrainCfg ι α) (e : Nat) (t : TrainState ι α) :
    Admissible cfg.negW (epoch cfg e t).params :=
  project_admissible cfg.negW _

theorem epochs_admissible (cfg : TrainCfg ι α) (e k : Nat) (t : TrainState ι α)
    (h : Admissible cfg.negW t.params) : Admissible cfg.negW (epochs cfg e k t).params := by
  induction k generalizing e t with
  | zero => exact h
  | succ k ih =>
    show Admissible cfg.negW (epochs cfg (e + 1) k (epoch cfg e t)).params
    exact ih (e + 1) (epoch cfg e t) (epoch_admissible cfg e t)

theorem epochs_admissible_of_pos (cfg : TrainCfg ι α) (e : Nat) {k : Nat} (hk : 0 < k)
    (t : TrainState ι α) : Admissible cfg.negW (epochs cfg e k t).params := by
  obtain ⟨k, rfl⟩ := Nat.exists_eq_succ_of_ne_zero (Nat.pos_iff_ne_zero.mp hk)
  show Admissible cfg.negW (epochs cfg (e + 1) k (epoch cfg e t)).params
  exact epochs_admissible cfg (e + 1) k _ (epoch_admissible cfg e t)

/-- the working bounds stored by an epoch are `reset_bounds(); infer()` under the parameters the
epoch started with -/
theorem epoch_cur (cfg : TrainCfg ι α) (e : Nat) (t : TrainState ι α) :
    (epoch cfg e t).cur = (infer (kbOf cfg.skel t.params) cfg.infer cfg.fuel t.leaves).state := rfl

/-! ### sums of non-negative terms -/

theorem sum_map_nonneg {β : Type} (l : List β) (f : β → α) (h : ∀ x ∈ l, 0 ≤ f x) :
    0 ≤ (l.map f).sum := by
  induction l with
  | nil => simp
  | cons x xs ih =>
    rw [List.map_cons, List.sum_cons]
    exact add_nonneg (h x List.mem_cons_self) (ih fun y hy => h y (List.mem_cons_of_mem _ hy))

theorem sum_map_eq_zero_iff {β : Type} (l : List β) (f : β → α) (h : ∀ x ∈ l, 0 ≤ f x) :
    (l.map f).sum = 0 ↔ ∀ x ∈ l, f x = 0 := by
  induction l with
  | nil => simp
  | cons x xs ih =>
    have hx : 0 ≤ f x := h x List.mem_cons_self
    have hxs : ∀ y ∈ xs, 0 ≤ f y := fun y hy => h y (List.mem_cons_of_mem _ hy)
    rw [List.map_cons, List.sum_cons, add_eq_zero_iff_of_nonneg hx (sum_map_nonneg xs f hxs), ih hxs,
      List.forall_mem_cons]

end LNN.Train
