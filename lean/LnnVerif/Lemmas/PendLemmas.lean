/-
Lemmas about the pending-grounding layer (`Model/FolPend.lean`).

* the layer does not change what the underlying calls compute: `pUp` / `pDown` run exactly `fUp` /
  `fDown`, `pDown` of a partially quantified formula after `propagateQ`;
* `propagateQ` only creates rows, at the world default of the body, in the body's table: every
  stored row stays what it was, every query (`Table.getD` through the world default) returns
  what it returned before, no other table is touched;
* on a knowledge base in which no formula has a partially quantified operand the pending lists
  stay empty and the layered run IS the plain run (`runPCalls` = `runFCalls`, `pInfer` = `fInfer`),
  so every theorem about the plain run applies verbatim to what the driver executes.
-/
import LnnVerif.Model.FolPend
import LnnVerif.Lemmas.TableLemmas

set_option linter.unusedSectionVars false

namespace LNN

variable {ι α : Type} [DecidableEq ι] [Field α] [LinearOrder α]

/-! ### the calls underneath -/

theorem pUp_st (kb : FKB ι α) (i : ι) (p : PState ι α) :
    (pUp kb i p).1.st = (fUp kb i p.st).1 ∧ (pUp kb i p).2 = (fUp kb i p.st).2 := ⟨rfl, rfl⟩

/-- the state `pDown` hands to `fDown` -/
def preDown (kb : FKB ι α) (i : ι) (p : PState ι α) : PState ι α :=
  if isPartialQuant (kb i) then
    match (kb i).ops with
    | j :: _ => if (p.st.get j).isEmpty then p else propagateQ kb i p
    | [] => p
  else p

theorem pDown_st (kb : FKB ι α) (i : ι) (idx : Option Nat) (p : PState ι α) :
    (pDown kb i idx p).1.st = (fDown kb i idx (preDown kb i p).st).1 ∧
      (pDown kb i idx p).2 = (fDown kb i idx (preDown kb i p).st).2 := ⟨rfl, rfl⟩

theorem preDown_of_not_partial (kb : FKB ι α) (i : ι) (p : PState ι α)
    (h : isPartialQuant (kb i) = false) : preDown kb i p = p := by
  unfold preDown; rw [h]; rfl

/-! ### `propagateQ` -/

/-- the tables after `_propagate_groundings`: only the body's table changes, by `Table.addg` at
the body's world default -/
theorem propagateQ_get (kb : FKB ι α) (i : ι) (p : PState ι α) (k : ι) :
    ∃ gs : List Gr, (propagateQ kb i p).st.get k =
      if (kb i).ops.head? = some k then Table.addg (kb k).world (p.st.get k) gs else p.st.get k := by
  unfold propagateQ
  simp only
  split
  · next hops => exact ⟨[], by rw [hops]; simp⟩
  · next j rest hops =>
    rw [hops]
    simp only [List.head?_cons, Option.some.injEq]
    by_cases hp : (p.pendOf i).isEmpty
    · rw [if_pos hp]
      refine ⟨[], ?_⟩
      split_ifs with h
      · subst h; rfl
      · rfl
    · rw [if_neg hp]
      refine ⟨propagatedRows (kb i) (p.pendOf i) (p.st.get j).keys, ?_⟩
      simp only
      by_cases h : j = k
      · subst h; rw [if_pos rfl, FState.get_set_self]
      · rw [if_neg h, FState.get_set_of_ne _ _ (Ne.symm h)]

/-- every stored row stays exactly what it was -/
theorem propagateQ_keeps (kb : FKB ι α) (i : ι) (p : PState ι α) (k : ι) (g : Gr) (r : Row α)
    (h : Table.find? (p.st.get k) g = some r) :
    Table.find? ((propagateQ kb i p).st.get k) g = some r := by
  obtain ⟨gs, e⟩ := propagateQ_get kb i p k
  rw [e]
  split_ifs
  · exact Table.addg_keeps gs h
  · exact h

/-- every row it creates carries the world default of its formula, as bound and as data -/
theorem propagateQ_only_world (kb : FKB ι α) (i : ι) (p : PState ι α) (k : ι) :
    ∀ r ∈ (propagateQ kb i p).st.get k, r ∈ p.st.get k ∨ r = ⟨r.g, (kb k).world, (kb k).world⟩ := by
  obtain ⟨gs, e⟩ := propagateQ_get kb i p k
  rw [e]
  split_ifs
  · exact Table.addg_only_world _ _ gs
  · intro r hr; exact Or.inl hr

/-- no query sees it: a grounding reads what it read before (stored bounds, else the default) -/
theorem propagateQ_read (kb : FKB ι α) (i : ι) (p : PState ι α) (k : ι) (g : Gr) :
    Table.getD (kb k).world ((propagateQ kb i p).st.get k) g = Table.getD (kb k).world (p.st.get k) g := by
  obtain ⟨gs, e⟩ := propagateQ_get kb i p k
  rw [e]
  split_ifs
  · exact Table.getD_addg _ _ gs g
  · rfl

theorem preDown_keeps (kb : FKB ι α) (i : ι) (p : PState ι α) (k : ι) (g : Gr) (r : Row α)
    (h : Table.find? (p.st.get k) g = some r) :
    Table.find? ((preDown kb i p).st.get k) g = some r := by
  unfold preDown
  split_ifs
  · split
    · split_ifs
      · exact h
      · exact propagateQ_keeps kb i p k g r h
    · exact h
  · exact h

theorem preDown_read (kb : FKB ι α) (i : ι) (p : PState ι α) (k : ι) (g : Gr) :
    Table.getD (kb k).world ((preDown kb i p).st.get k) g = Table.getD (kb k).world (p.st.get k) g := by
  unfold preDown
  split_ifs
  · split
    · split_ifs
      · rfl
      · exact propagateQ_read kb i p k g
    · rfl
  · rfl

theorem preDown_only_world (kb : FKB ι α) (i : ι) (p : PState ι α) (k : ι) :
    ∀ r ∈ (preDown kb i p).st.get k, r ∈ p.st.get k ∨ r = ⟨r.g, (kb k).world, (kb k).world⟩ := by
  unfold preDown
  split_ifs
  · split
    · split_ifs
      · intro r hr; exact Or.inl hr
      · exact propagateQ_only_world kb i p k
    · intro r hr; exact Or.inl hr
  · intro r hr; exact Or.inl hr

/-! ### knowledge bases without a partially quantified operand -/

/-- no formula has a partially quantified formula as an operand -/
def NoQuantParent (kb : FKB ι α) : Prop := ∀ i, ∀ j ∈ (kb i).ops, isPartialQuant (kb j) = false

theorem notePend_of_noParent {kb : FKB ι α} (h : NoQuantParent kb) (i : ι) (s s' : FState ι α)
    (pend : List (ι × List Gr)) : notePend kb i s s' pend = pend := by
  unfold notePend
  have hm : ∀ j ∈ dedup (kb i).ops, isPartialQuant (kb j) = false := by
    intro j hj
    apply h i j
    -- `dedup` keeps only members
    have aux : ∀ (l : List ι) (x : ι), x ∈ dedup l → x ∈ l := by
      intro l
      induction l with
      | nil => intro x hx; simp [dedup] at hx
      | cons a l ih =>
        intro x hx
        simp only [dedup] at hx
        split_ifs at hx
        · exact List.mem_cons_of_mem _ (ih x hx)
        · rcases List.mem_cons.mp hx with e | e
          · exact e ▸ List.mem_cons_self
          · exact List.mem_cons_of_mem _ (ih x e)
    exact aux _ _ hj
  generalize dedup (kb i).ops = l at hm
  induction l generalizing pend with
  | nil => rfl
  | cons a l ih =>
    rw [List.foldl_cons]
    have ha : isPartialQuant (kb a) = false := hm a List.mem_cons_self
    have : ¬ (isPartialQuant (kb a) = true ∧ a ≠ i) := by rw [ha]; simp
    rw [if_neg this]
    exact ih pend fun j hj => hm j (List.mem_cons_of_mem _ hj)

/-- with no pending grounding `propagateQ` does nothing -/
theorem propagateQ_of_empty (kb : FKB ι α) (i : ι) (p : PState ι α) (h : p.pend = []) :
    propagateQ kb i p = p := by
  unfold propagateQ
  simp only
  split
  · rfl
  · have : p.pendOf i = [] := by unfold PState.pendOf; rw [h]; rfl
    simp [this]

theorem preDown_of_empty (kb : FKB ι α) (i : ι) (p : PState ι α) (h : p.pend = []) :
    preDown kb i p = p := by
  unfold preDown
  split_ifs
  · split
    · split_ifs
      · rfl
      · exact propagateQ_of_empty kb i p h
    · rfl
  · rfl

theorem runPCall_of_noParent {kb : FKB ι α} (h : NoQuantParent kb) (c : FCall ι) (s : FState ι α) :
    runPCall kb c ⟨s, []⟩ = (⟨(runFCall kb c s).1, []⟩, (runFCall kb c s).2) := by
  cases c with
  | up i =>
    show pUp kb i ⟨s, []⟩ = _
    unfold pUp
    simp only [notePend_of_noParent h]
    rfl
  | down i idx =>
    show pDown kb i idx ⟨s, []⟩ = _
    have e : preDown kb i ⟨s, []⟩ = ⟨s, []⟩ := preDown_of_empty kb i _ rfl
    have : pDown kb i idx ⟨s, []⟩ =
        (⟨(fDown kb i idx (preDown kb i ⟨s, []⟩).st).1,
          notePend kb i (preDown kb i ⟨s, []⟩).st (fDown kb i idx (preDown kb i ⟨s, []⟩).st).1
            (preDown kb i ⟨s, []⟩).pend⟩, (fDown kb i idx (preDown kb i ⟨s, []⟩).st).2) := rfl
    rw [this, e]
    simp only [notePend_of_noParent h]
    rfl

/-- **the layered run is the plain run** when no formula has a partially quantified operand -/
theorem runPCalls_of_noParent {kb : FKB ι α} (h : NoQuantParent kb) (cs : List (FCall ι))
    (s : FState ι α) :
    runPCalls kb cs ⟨s, []⟩ = (⟨(runFCalls kb cs s).1, []⟩, (runFCalls kb cs s).2) := by
  induction cs generalizing s with
  | nil => rfl
  | cons c rest ih =>
    simp only [runPCalls, runFCalls]
    rw [runPCall_of_noParent h c s]
    simp only
    rw [ih]

theorem pInfer_of_noParent {kb : FKB ι α} (h : NoQuantParent kb) (nodes : List ι)
    (up down : List (FCall ι)) (eps : α) (fuel : Nat) (s : FState ι α) :
    (pInfer kb nodes up down eps fuel ⟨s, []⟩).state = ⟨(fInfer kb nodes up down eps fuel s).state, []⟩ ∧
    (pInfer kb nodes up down eps fuel ⟨s, []⟩).steps = (fInfer kb nodes up down eps fuel s).steps ∧
    (pInfer kb nodes up down eps fuel ⟨s, []⟩).total = (fInfer kb nodes up down eps fuel s).total ∧
    (pInfer kb nodes up down eps fuel ⟨s, []⟩).converged = (fInfer kb nodes up down eps fuel s).converged := by
  induction fuel generalizing s with
  | zero => exact ⟨rfl, rfl, rfl, rfl⟩
  | succ n ih =>
    simp only [pInfer, fInfer]
    rw [runPCalls_of_noParent h up s]
    simp only
    rw [runPCalls_of_noParent h down (runFCalls kb up s).1]
    simp only
    split_ifs with hc
    · exact ⟨rfl, rfl, rfl, rfl⟩
    · obtain ⟨h1, h2, h3, h4⟩ := ih (runFCalls kb down (runFCalls kb up s).1).1
      refine ⟨h1, ?_, ?_, h4⟩
      · simp only [h2]
      · simp only [h3]

end LNN
