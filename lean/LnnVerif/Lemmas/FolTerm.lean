/-
TERMINATION of the first-order `fInfer` on a finite universe of groundings.

* `wd b = b.hi - b.lo`, `pot rd U s = Σ_{k ∈ U} wd (rd s k)`: the potential of a state seen through
  the readings `rd`, over a duplicate-free finite universe `U` of keys;
  `Φ U kb s = pot (rd kb) U s` is the potential of a first-order state (`U : List (ι × Gr)`), read
  through the queries `reads kb s i g` (stored bounds, or the world default).
* `Inside U s`: every stored row `(i, g)` of `s` lies in `U`.
* EXACT amount: for EVERY call (all six kinds, quantifiers included) on a state in range whose
  result lies inside `U`, the reported amount IS the loss of potential
  (`runFCall_amount_eq`, `runFCalls_amount_eq`).
* counting: with every grounding stored once and `Inside U s`, `nGroundings nodes s ≤ U.length`
  (`nGroundings_le`).
* `fInfer_terminates`: if `U` contains the rows of `s` and is closed under every call of the two
  schedules, `fInfer` converges within any step limit `fuel > (|U| - #rows of s) + N` whenever
  `Φ U kb s + |U| < N * eps` (at most `|U| - #rows` sweeps create a row, at most `N` sweeps report
  more than `eps`); `fInfer_terminates_two_U`: `2 |U| < N * eps` and `fuel > |U| + N` are enough;
  over an Archimedean field such a limit exists (`fInfer_terminates_exists`).
* closure discharged (`fInfer_terminates_constants`, `…_exists`): for `U = CU nodes ar C`, all
  tuples of the right arity over a finite list of constants `C ∋ 0`, on registered formulae, the
  universe is closed under every call on a well-formed formula (`CallWF`): Not copies groundings,
  quantifiers create group keys, connectives create projections of joined rows, and the join only
  rearranges constants (`rc_foj`; missing values are padded with the constant `0`, hence `0 ∈ C`).
* nothing was found false: the reported amount equals the loss of potential for all six call
  kinds (duplicate proposals onto one row telescope because every write only tightens; the
  single-bound restriction of quantifiers changes one bound only and reports only that change).

Everything lives in the namespace `LNN.FolTerm`.
-/
import LnnVerif.Model.Fol
import LnnVerif.Lemmas.TableLemmas
import LnnVerif.Lemmas.FolSound
import LnnVerif.Lemmas.FolAmount
import LnnVerif.Lemmas.FolFix
import LnnVerif.Lemmas.Join
import Mathlib.Algebra.Order.Field.Rat
import Mathlib.Algebra.Order.Archimedean.Basic
import Mathlib.Tactic.NormNum
import Mathlib.Tactic.Linarith
import Mathlib.Tactic.Ring
import Mathlib.Data.List.Nodup
import Mathlib.Data.List.Perm.Subperm

set_option linter.unusedSectionVars false

namespace LNN
namespace FolTerm

open FolAmount FolFix

variable {ι : Type} [DecidableEq ι] {α : Type} [Field α] [LinearOrder α] [IsStrictOrderedRing α]

/-! ## 1. the potential, generically -/

/-- the width of a pair of bounds (negative when the bounds are crossed) -/
def wd (b : Bounds α) : α := b.hi - b.lo

/-- the potential of `s` over the finite universe `U`, seen through the readings `rd` -/
def pot {S K : Type} (rd : S → K → Bounds α) (U : List K) (s : S) : α :=
  (U.map fun k => wd (rd s k)).sum

section generic

variable {S K : Type} (rd : S → K → Bounds α)

theorem pot_nil (s : S) : pot rd [] s = 0 := rfl

theorem pot_cons (k : K) (U : List K) (s : S) : pot rd (k :: U) s = wd (rd s k) + pot rd U s := by
  simp [pot]

theorem pot_congr (U : List K) {s s' : S} (h : ∀ k ∈ U, rd s' k = rd s k) :
    pot rd U s' = pot rd U s := by
  induction U with
  | nil => rfl
  | cons a U ih =>
    rw [pot_cons, pot_cons, h a (List.mem_cons_self ..),
      ih (fun k hk => h k (List.mem_cons_of_mem _ hk))]

/-- two states that read the same off `g`: the potentials differ by the widths at `g` -/
theorem pot_single {U : List K} (hU : U.Nodup) {g : K} (hg : g ∈ U) {s s' : S}
    (h : ∀ k ∈ U, k ≠ g → rd s' k = rd s k) :
    pot rd U s - pot rd U s' = wd (rd s g) - wd (rd s' g) := by
  induction U with
  | nil => simp at hg
  | cons a U ih =>
    rw [List.nodup_cons] at hU
    rw [pot_cons, pot_cons]
    by_cases e : g = a
    · subst e
      have : pot rd U s' = pot rd U s :=
        pot_congr rd U (fun k hk => h k (List.mem_cons_of_mem _ hk) (fun e => hU.1 (e ▸ hk)))
      rw [this]; ring
    · have hgU : g ∈ U := by
        rcases List.mem_cons.mp hg with h' | h'
        · exact absurd h' e
        · exact h'
      have ha : rd s' a = rd s a := h a (List.mem_cons_self ..) (fun e' => e e'.symm)
      have := ih hU.2 hgU (fun k hk => h k (List.mem_cons_of_mem _ hk))
      rw [ha]; linarith

/-- widths in `[-1, 1]` -/
theorem wd_bounds {b : Bounds α} (h : InUnit b) : -1 ≤ wd b ∧ wd b ≤ 1 := by
  obtain ⟨h1, h2, h3, h4⟩ := h
  unfold wd
  constructor <;> linarith

theorem pot_bounds (U : List K) (s : S) (h : ∀ k ∈ U, InUnit (rd s k)) :
    -(U.length : α) ≤ pot rd U s ∧ pot rd U s ≤ U.length := by
  induction U with
  | nil => simp [pot]
  | cons a U ih =>
    have h1 := wd_bounds (h a (List.mem_cons_self ..))
    have h2 := ih (fun k hk => h k (List.mem_cons_of_mem _ hk))
    rw [pot_cons]
    simp only [List.length_cons]
    push_cast
    constructor <;> linarith [h1.1, h1.2, h2.1, h2.2]

/-- readings that only tighten: the potential does not grow -/
theorem pot_anti (U : List K) {s s' : S} (h : ∀ k ∈ U, BTight (rd s k) (rd s' k)) :
    pot rd U s' ≤ pot rd U s := by
  induction U with
  | nil => exact le_rfl
  | cons a U ih =>
    have h1 := h a (List.mem_cons_self ..)
    have h2 := ih (fun k hk => h k (List.mem_cons_of_mem _ hk))
    rw [pot_cons, pot_cons]
    unfold wd
    linarith [h1.1, h1.2]

end generic

/-! ## 2. tables -/

/-- the potential of one table over the groundings `V`, read through the world default `w` -/
abbrev tp (w : Bounds α) (V : List Gr) (t : Table α) : α := pot (Table.getD w) V t

theorem ev_keys_sub {t u : Table α} (h : Ev t u) : ∀ g ∈ Table.keys t, g ∈ Table.keys u := by
  intro g hg
  rw [keys_eq_skel] at hg ⊢
  exact (h.skel_prefix.map Prod.fst).subset hg

/-- a table step from `t` to `t'` (bounds overwritten, rows appended) that ends in range and, IF
all groundings of `t'` are in `V`, reports exactly the loss of potential over `V` -/
structure TD (w : Bounds α) (V : List Gr) (t t' : Table α) (a : α) : Prop where
  unit : TInUnit t'
  ev : Ev t t'
  drop : (∀ g ∈ Table.keys t', g ∈ V) → a = tp w V t - tp w V t'

theorem TD.refl (w : Bounds α) (V : List Gr) {t : Table α} (h1 : TInUnit t) : TD w V t t 0 :=
  ⟨h1, Ev.refl t, fun _ => by simp⟩

theorem TD.cast {w : Bounds α} {V : List Gr} {t t' : Table α} {a b : α} (h : TD w V t t' a)
    (e : a = b) : TD w V t t' b := e ▸ h

/-- overwriting a stored row by tighter bounds -/
theorem TD.write {w : Bounds α} {V : List Gr} (hV : V.Nodup) {t0 t : Table α} {a : α}
    (h : TD w V t0 t a) {g : Gr} {r : Row α} (hr : Table.find? t g = some r) {m : Bounds α}
    (hm : InUnit m) (ht : BTight r.b m) :
    TD w V t0 (Table.setB t g m) (a + (|m.lo - r.b.lo| + |m.hi - r.b.hi|)) where
  unit := h.unit.setB g hm
  ev := Ev.setB g m h.ev
  drop := by
    intro hsub
    rw [Table.keys_setB] at hsub
    have hg : g ∈ V := hsub g (by
      have := (Table.find?_some hr)
      exact Table.mem_keys.mpr ⟨r, this.1, this.2⟩)
    have e := pot_single (Table.getD w) hV hg (s := t) (s' := Table.setB t g m)
      (fun k _ hk => getD_setB_of_ne w t m hk)
    rw [getD_setB_self w hr, Table.getD_of_some hr] at e
    rw [abs_of_nonneg (by linarith [ht.1]), abs_of_nonpos (by linarith [ht.2]), h.drop hsub]
    unfold wd at e
    linarith

/-- creating rows at the world default -/
theorem TD.addg {w : Bounds α} {V : List Gr} (hw : InUnit w) {t0 t : Table α} {a : α}
    (h : TD w V t0 t a) (gs : List Gr) : TD w V t0 (Table.addg w t gs) a where
  unit := h.unit.addg hw gs
  ev := Ev.addg w gs h.ev
  drop := by
    intro hsub
    have hsub' : ∀ g ∈ Table.keys t, g ∈ V :=
      fun g hg => hsub g (Table.mem_keys_addg.mpr (Or.inl hg))
    have e : tp w V (Table.addg w t gs) = tp w V t :=
      pot_congr (Table.getD w) V (fun g _ => Table.getD_addg w t gs g)
    rw [h.drop hsub', e]

theorem TD.agg {w : Bounds α} {V : List Gr} (hV : V.Nodup) {t0 t : Table α} {a : α}
    (h : TD w V t0 t a) (g : Gr) (sel : BoundSel) (p : Bounds α) :
    TD w V t0 (aggRow t g sel p).1 (a + (aggRow t g sel p).2) := by
  cases hf : Table.find? t g with
  | none => rw [aggRow_of_none hf]; exact h.cast (add_zero _).symm
  | some r =>
    rw [aggRow_of_some hf]
    have hu : InUnit r.b := h.unit r (Table.find?_some hf).1
    exact h.write hV hf (aggregate_inUnit sel r.b p) (aggregate_tightens sel p hu)

/-- a fold of `aggRow` -/
theorem TD.foldAgg {β : Type} {w : Bounds α} {V : List Gr} (hV : V.Nodup) (key : β → Gr)
    (pr : β → Bounds α) (sel : BoundSel) (l : List β) (t0 : Table α) (acc : Table α × α)
    (h : TD w V t0 acc.1 acc.2) :
    TD w V t0
      (l.foldl (fun (acc : Table α × α) x =>
        let a := aggRow acc.1 (key x) sel (pr x)
        (a.1, acc.2 + a.2)) acc).1
      (l.foldl (fun (acc : Table α × α) x =>
        let a := aggRow acc.1 (key x) sel (pr x)
        (a.1, acc.2 + a.2)) acc).2 := by
  apply FolSound.foldl_inv (fun acc : Table α × α => TD w V t0 acc.1 acc.2) _ _ _ h
  intro b hb x _
  exact hb.agg hV (key x) sel (pr x)

/-- the merged downward write -/
theorem TD.wm {w : Bounds α} {V : List Gr} (hV : V.Nodup) {t : Table α}
    (h1 : TInUnit t) (props : List (Gr × Bounds α)) :
    TD w V t (writeMerged t props).1 (writeMerged t props).2 := by
  rw [writeMerged_eq]
  have hnd := Quant.nodup_dedupKeepFirst (props.map (·.1))
  generalize dedupKeepFirst (props.map (·.1)) = ks at hnd
  suffices H : ∀ (acc : Table α × α), (∀ g ∈ ks, Table.find? acc.1 g = Table.find? t g) →
      TD w V t acc.1 acc.2 →
      TD w V t (ks.foldl (wmStep t props) acc).1 (ks.foldl (wmStep t props) acc).2 from
    H (t, 0) (fun _ _ => rfl) (TD.refl w V h1)
  induction ks with
  | nil => intro acc _ ha; exact ha
  | cons k ks ih =>
    rw [List.nodup_cons] at hnd
    intro acc hfind ha
    rw [List.foldl_cons]
    have hk := hfind k (List.mem_cons_self ..)
    have hrest : ∀ g ∈ ks, Table.find? acc.1 g = Table.find? t g :=
      fun g hg => hfind g (List.mem_cons_of_mem _ hg)
    have hne := (wmStep_spec t props acc k hk).2.2
    apply ih hnd.2
    · intro g hg
      rw [hne g (fun e => hnd.1 (e ▸ hg))]
      exact hrest g hg
    · unfold wmStep
      split
      · exact ha
      · next r hr =>
        split
        · exact ha
        · next c cs hc =>
          have hx : ∀ x ∈ c :: cs, ∃ p, x = (aggregate .both r.b p).1 := by
            intro x hx
            rw [← hc, List.mem_map] at hx
            obtain ⟨p, _, e⟩ := hx
            exact ⟨p.2, e.symm⟩
          obtain ⟨hm, ht⟩ := merged_ok r.b c cs hx
          have hu : InUnit r.b := h1 r (Table.find?_some hr).1
          rw [← hk] at hr
          exact ha.write hV hr hm (ht hu)

/-! ## 3. states -/

/-- the potential of a first-order state over the finite universe `U` of (formula, grounding)
pairs: the sum of the widths of what the queries return -/
def Φ (U : List (ι × Gr)) (kb : FKB ι α) (s : FState ι α) : α := pot (rd kb) U s

/-- every stored row lies in the universe -/
def Inside (U : List (ι × Gr)) (s : FState ι α) : Prop :=
  ∀ i, ∀ g ∈ Table.keys (s.get i), (i, g) ∈ U

/-- the groundings of formula `i` in the universe -/
def proj (U : List (ι × Gr)) (i : ι) : List Gr := (U.filter fun k => decide (k.1 = i)).map (·.2)

theorem mem_proj {U : List (ι × Gr)} {i : ι} {g : Gr} : g ∈ proj U i ↔ (i, g) ∈ U := by
  unfold proj
  simp only [List.mem_map, List.mem_filter, decide_eq_true_eq]
  constructor
  · rintro ⟨⟨j, g'⟩, ⟨h1, h2⟩, h3⟩
    simp only at h2 h3
    subst h2 h3
    exact h1
  · intro h
    exact ⟨(i, g), ⟨h, rfl⟩, rfl⟩

theorem proj_nodup {U : List (ι × Gr)} (hU : U.Nodup) (i : ι) : (proj U i).Nodup := by
  unfold proj
  apply List.Nodup.map_on _ (hU.filter _)
  intro x hx y hy e
  simp only [List.mem_filter, decide_eq_true_eq] at hx hy
  exact Prod.ext (hx.2.trans hy.2.symm) e

theorem proj_cons_self (U : List (ι × Gr)) (i : ι) (g : Gr) :
    proj ((i, g) :: U) i = g :: proj U i := by
  simp [proj]

theorem proj_cons_of_ne (U : List (ι × Gr)) {i j : ι} (g : Gr) (h : j ≠ i) :
    proj ((j, g) :: U) i = proj U i := by
  simp [proj, h]

theorem Inside.of_sev {U : List (ι × Gr)} {s s' : FState ι α} (h : Inside U s') (hev : SEv s s') :
    Inside U s :=
  fun i g hg => h i g (ev_keys_sub (hev i) g hg)

/-- replacing the table of `i`: only the groundings of `i` count -/
theorem phi_set (U : List (ι × Gr)) (kb : FKB ι α) (s : FState ι α) (i : ι) (t' : Table α) :
    Φ U kb s - Φ U kb (s.set i t') =
      tp (kb i).world (proj U i) (s.get i) - tp (kb i).world (proj U i) t' := by
  induction U with
  | nil => simp [Φ, proj, pot]
  | cons k U ih =>
    obtain ⟨j, g⟩ := k
    unfold Φ tp at ih ⊢
    rw [pot_cons, pot_cons]
    by_cases e : j = i
    · subst e
      rw [proj_cons_self, pot_cons, pot_cons]
      have e1 : rd kb (s.set j t') (j, g) = Table.getD (kb j).world t' g := by
        unfold rd reads; simp only; rw [FState.get_set_self]
      have e2 : rd kb s (j, g) = Table.getD (kb j).world (s.get j) g := rfl
      rw [e1, e2]
      linarith
    · rw [proj_cons_of_ne U g e]
      have e1 : rd kb (s.set i t') (j, g) = rd kb s (j, g) := by
        unfold rd reads; simp only; rw [FState.get_set_of_ne _ _ e]
      rw [e1]
      linarith

theorem phi_same (U : List (ι × Gr)) (kb : FKB ι α) {s s' : FState ι α}
    (h : ∀ i g, reads kb s' i g = reads kb s i g) : Φ U kb s' = Φ U kb s :=
  pot_congr (rd kb) U (fun k _ => h k.1 k.2)

/-- a step from `s` to `s'` (bounds overwritten, rows appended) that ends in range and, IF `s'` is
inside the universe, reports exactly the loss of potential -/
structure SD (kb : FKB ι α) (U : List (ι × Gr)) (s s' : FState ι α) (a : α) : Prop where
  unit : SInUnit s'
  ev : SEv s s'
  drop : Inside U s' → a = Φ U kb s - Φ U kb s'

section sd

variable {kb : FKB ι α} {U : List (ι × Gr)}

theorem SD.refl (kb : FKB ι α) (U : List (ι × Gr)) {s : FState ι α} (hs : SInUnit s) :
    SD kb U s s 0 :=
  ⟨hs, SEv.refl s, fun _ => by simp⟩

theorem SD.cast {s s' : FState ι α} {a b : α} (h : SD kb U s s' a) (e : a = b) :
    SD kb U s s' b := e ▸ h

theorem SD.trans {s t u : FState ι α} {a b : α} (h1 : SD kb U s t a) (h2 : SD kb U t u b) :
    SD kb U s u (a + b) where
  unit := h2.unit
  ev := h1.ev.trans h2.ev
  drop := by
    intro hin
    rw [h1.drop (hin.of_sev h2.ev), h2.drop hin]
    ring

/-- a step that only creates rows at world defaults -/
theorem SD.same {s s' : FState ι α} (hu : SInUnit s') (hev : SEv s s')
    (h : ∀ i g, reads kb s' i g = reads kb s i g) : SD kb U s s' 0 :=
  ⟨hu, hev, fun _ => by rw [phi_same U kb h]; simp⟩

theorem SD.set {s0 s : FState ι α} {a : α} (h : SD kb U s0 s a) (i : ι)
    {t' : Table α} {b : α} (ht : TD (kb i).world (proj U i) (s.get i) t' b) :
    SD kb U s0 (s.set i t') (a + b) where
  unit := by
    intro j
    rw [FState.get_set]
    split
    · exact ht.unit
    · exact h.unit j
  ev := h.ev.set i ht.ev
  drop := by
    intro hin
    have hsub : ∀ g ∈ Table.keys t', g ∈ proj U i := by
      intro g hg
      have := hin i g
      rw [FState.get_set_self] at this
      exact mem_proj.mpr (this hg)
    have hin' : Inside U s := by
      intro j g hg
      by_cases e : j = i
      · subst e
        exact mem_proj.mp (hsub g (ev_keys_sub ht.ev g hg))
      · have := hin j g
        rw [FState.get_set_of_ne _ _ e] at this
        exact this hg
    have := phi_set U kb s i t'
    rw [h.drop hin', ht.drop hsub]
    linarith

end sd

/-! ## 4. every call reports exactly the loss of potential -/

section calls

variable (kb : FKB ι α) (hw : WorldsInUnit kb) {U : List (ι × Gr)} (hU : U.Nodup) (i : ι)
  (s : FState ι α) (hs : SInUnit s)

include hw hU hs

theorem sd_groundings (down : Bool) : SD kb U s (groundings kb i down s).1 0 :=
  SD.same ((sstep_groundings kb i down s).keeps ⟨hw, hs⟩).2 (sev_groundings kb i s down)
    (fun j g => FolSound.groundings_reads kb i down s j g)

theorem sd_fUpConn : SD kb U s (fUpConn kb i s).1 (fUpConn kb i s).2 := by
  have hg := sd_groundings kb hw hU i s hs false
  unfold fUpConn
  simp only
  split
  next s1 hgr => rw [hgr] at hg; exact hg
  next s1 ogs per hgr =>
    rw [hgr] at hg
    simp only at hg ⊢
    refine (hg.set i ?_).cast (zero_add _)
    exact TD.foldAgg (proj_nodup hU i) (fun it : Gr × Bounds α => it.1) (fun it => it.2) .both _ _
      (_, 0) (TD.refl _ _ (hg.unit i))

theorem sd_fDownConn (idx : Option Nat) :
    SD kb U s (fDownConn kb i idx s).1 (fDownConn kb i idx s).2 := by
  have hg := sd_groundings kb hw hU i s hs true
  unfold fDownConn
  simp only
  split
  next s1 hgr => rw [hgr] at hg; exact hg
  next s1 ogs per hgr =>
    rw [hgr] at hg
    simp only at hg
    split
    · exact hg
    · apply FolSound.foldl_inv (fun acc : FState ι α × α => SD kb U s acc.1 acc.2) _ _ _ hg
      intro acc hacc p _
      split
      · exact hacc.set p.2 (TD.wm (proj_nodup hU p.2) (hacc.unit p.2) _)
      · exact hacc

theorem sd_fUpNot : SD kb U s (fUpNot kb i s).1 (fUpNot kb i s).2 := by
  unfold fUpNot
  split
  · exact SD.refl kb U hs
  next j rest hops =>
    simp only
    split
    · exact SD.refl kb U hs
    · refine ((SD.refl kb U hs).set i ?_).cast (zero_add _)
      exact TD.foldAgg (proj_nodup hU i) (fun g => g)
        (fun g => negB (Table.getD (kb j).world (s.get j) g)) .both _ _ (_, 0)
        ((TD.refl _ _ (hs i)).addg (hw i) _)

theorem sd_fDownNot : SD kb U s (fDownNot kb i s).1 (fDownNot kb i s).2 := by
  unfold fDownNot
  split
  · exact SD.refl kb U hs
  next j rest hops =>
    simp only
    split
    · exact SD.refl kb U hs
    · refine ((SD.refl kb U hs).set j ?_).cast (zero_add _)
      exact TD.foldAgg (proj_nodup hU j) (fun g => g)
        (fun g => negB (Table.getD (kb i).world (s.get i) g)) .both _ _ (_, 0)
        ((TD.refl _ _ (hs j)).addg (hw j) _)

theorem sd_fUpQuant : SD kb U s (fUpQuant kb i s).1 (fUpQuant kb i s).2 := by
  unfold fUpQuant
  simp only
  split
  · exact SD.refl kb U hs
  next j rest hops =>
    split
    · exact SD.refl kb U hs
    · refine ((SD.refl kb U hs).set i ?_).cast (zero_add _)
      apply FolSound.foldl_inv
        (fun acc : Table α × α => TD (kb i).world (proj U i) (s.get i) acc.1 acc.2) _ _ _
        ((TD.refl _ _ (hs i)).addg (hw i) _)
      intro b hb k _
      exact hb.agg (proj_nodup hU i) _ _ _

theorem sd_fDownQuant : SD kb U s (fDownQuant kb i s).1 (fDownQuant kb i s).2 := by
  unfold fDownQuant
  simp only
  split
  · exact SD.refl kb U hs
  next j rest hops =>
    split
    · exact SD.refl kb U hs
    · have h0 := ((SD.refl kb U hs).set i ((TD.refl _ _ (hs i)).addg (hw i)
        (dedupKeepFirst ((s.get j).map fun r => groupKey (kb i).free r.g)))).cast (zero_add 0)
      refine (h0.set j ?_).cast (zero_add _)
      exact TD.foldAgg (proj_nodup hU j) (fun p : Gr × Bounds α => p.1) (fun p => p.2) .both _ _
        (_, 0) (TD.refl _ _ (h0.unit j))

theorem sd_fUp : SD kb U s (fUp kb i s).1 (fUp kb i s).2 := by
  unfold fUp
  split
  · exact SD.refl kb U hs
  · exact sd_fUpNot kb hw hU i s hs
  · exact sd_fUpQuant kb hw hU i s hs
  · exact sd_fUpQuant kb hw hU i s hs
  · exact sd_fUpConn kb hw hU i s hs

theorem sd_fDown (idx : Option Nat) : SD kb U s (fDown kb i idx s).1 (fDown kb i idx s).2 := by
  unfold fDown
  split
  · exact SD.refl kb U hs
  · exact sd_fDownNot kb hw hU i s hs
  · exact sd_fDownQuant kb hw hU i s hs
  · exact sd_fDownQuant kb hw hU i s hs
  · exact sd_fDownConn kb hw hU i s hs idx

omit i in
theorem sd_runFCall (c : FCall ι) : SD kb U s (runFCall kb c s).1 (runFCall kb c s).2 := by
  cases c with
  | up i => exact sd_fUp kb hw hU i s hs
  | down i idx => exact sd_fDown kb hw hU i s hs idx

omit i in
theorem sd_runFCalls (cs : List (FCall ι)) :
    SD kb U s (runFCalls kb cs s).1 (runFCalls kb cs s).2 := by
  induction cs generalizing s with
  | nil => exact SD.refl kb U hs
  | cons c rest ih =>
    have h1 := sd_runFCall kb hw hU s hs c
    exact h1.trans (ih _ h1.unit)

end calls

/-! ## 5. results -/

section results

variable (kb : FKB ι α) (hw : WorldsInUnit kb) {U : List (ι × Gr)} (hU : U.Nodup)

include hw

include hU in
/-- **A.** EXACT amount of one call, of any of the six kinds (connective, Not, quantifier; upward
and downward): on a state in range, if the state the call returns is inside the duplicate-free
universe `U`, the reported amount is exactly the loss of potential over `U`. -/
theorem runFCall_amount_eq (c : FCall ι) (s : FState ι α) (hs : SInUnit s)
    (hin : Inside U (runFCall kb c s).1) :
    (runFCall kb c s).2 = Φ U kb s - Φ U kb (runFCall kb c s).1 :=
  (sd_runFCall kb hw hU s hs c).drop hin

include hU in
/-- … and of any list of calls -/
theorem runFCalls_amount_eq (cs : List (FCall ι)) (s : FState ι α) (hs : SInUnit s)
    (hin : Inside U (runFCalls kb cs s).1) :
    (runFCalls kb cs s).2 = Φ U kb s - Φ U kb (runFCalls kb cs s).1 :=
  (sd_runFCalls kb hw hU s hs cs).drop hin

theorem reads_inUnit (s : FState ι α) (hs : SInUnit s) (i : ι) (g : Gr) :
    InUnit (reads kb s i g) := by
  unfold reads Table.getD
  cases hf : Table.find? (s.get i) g with
  | none => exact hw i
  | some r => exact hs i r (Table.find?_some hf).1

/-- the potential lies in `[-|U|, |U|]` (crossed bounds have negative width) -/
theorem phi_bounds (U : List (ι × Gr)) (s : FState ι α) (hs : SInUnit s) :
    -(U.length : α) ≤ Φ U kb s ∧ Φ U kb s ≤ U.length :=
  pot_bounds (rd kb) U s (fun k _ => reads_inUnit kb hw s hs k.1 k.2)

end results

/-! ### B. counting stored rows -/

/-- with every grounding stored once and all rows inside `U`, no more than `|U|` rows are stored -/
theorem nGroundings_le {U : List (ι × Gr)} (nodes : List ι) (hnd : nodes.Nodup) (s : FState ι α)
    (hn : SNodup s) (hin : Inside U s) : nGroundings nodes s ≤ U.length := by
  have hlen : nGroundings nodes s =
      (nodes.flatMap fun i => (Table.keys (s.get i)).map fun g => (i, g)).length := by
    rw [List.length_flatMap]
    unfold nGroundings Table.keys
    simp
  rw [hlen]
  apply List.Subperm.length_le
  apply List.subperm_of_subset
  · rw [List.nodup_flatMap]
    refine ⟨fun i _ => List.Nodup.map (fun a b e => (Prod.ext_iff.mp e).2) (hn i), ?_⟩
    refine hnd.imp ?_
    intro a b hab
    show List.Disjoint _ _
    intro x hx hy
    simp only [List.mem_map] at hx hy
    obtain ⟨_, _, rfl⟩ := hx
    obtain ⟨_, _, e⟩ := hy
    exact hab (Prod.ext_iff.mp e).1.symm
  · intro x hx
    simp only [List.mem_flatMap, List.mem_map] at hx
    obtain ⟨i, _, g, hg, rfl⟩ := hx
    exact hin i g hg

/-- no list of calls removes a row -/
theorem nGroundings_mono (kb : FKB ι α) (nodes : List ι) (cs : List (FCall ι)) (s : FState ι α) :
    nGroundings nodes s ≤ nGroundings nodes (runFCalls kb cs s).1 :=
  sum_map_le _ _ nodes (fun i _ => length_mono_runFCalls kb s cs i)

/-! ### C. termination -/

section term

variable (kb : FKB ι α) (hw : WorldsInUnit kb) (nodes : List ι) (hnd : nodes.Nodup)
  (up down : List (FCall ι)) (eps : α) {U : List (ι × Gr)} (hU : U.Nodup)

include hw in
/-- closure of the universe under each call gives closure under lists of calls -/
theorem inside_runFCalls (cs : List (FCall ι))
    (hcl : ∀ c ∈ cs, ∀ t, SInUnit t → SNodup t → Inside U t → Inside U (runFCall kb c t).1)
    (t : FState ι α) (ht : SInUnit t) (hn : SNodup t) (hin : Inside U t) :
    Inside U (runFCalls kb cs t).1 := by
  induction cs generalizing t with
  | nil => exact hin
  | cons c rest ih =>
    exact ih (fun c' hc' => hcl c' (List.mem_cons_of_mem _ hc')) _
      (runFCall_inUnit kb hw c t ht) (runFCall_snodup kb t c hn)
      (hcl c (List.mem_cons_self ..) t ht hn hin)

include hw hnd hU in
/-- the induction behind `fInfer_terminates`: `R` bounds the number of rows that can still be
created, `N` the number of sweeps that can still report more than `eps` -/
theorem fInfer_terminates_core
    (hcl : ∀ t, SInUnit t → SNodup t → Inside U t →
      Inside U (runFCalls kb down (runFCalls kb up t).1).1) :
    ∀ (fuel R N : Nat) (s : FState ι α), SInUnit s → SNodup s → Inside U s →
      U.length - nGroundings nodes s ≤ R → Φ U kb s + U.length < N * eps → R + N < fuel →
      (fInfer kb nodes up down eps fuel s).converged = true := by
  intro fuel
  induction fuel with
  | zero => intro R N s _ _ _ _ _ h; omega
  | succ n ih =>
    intro R N s hs hn hin hR hN hfuel
    by_cases hc : (runFCalls kb up s).2 + (runFCalls kb down (runFCalls kb up s).1).2 ≤ eps ∧
        nGroundings nodes (runFCalls kb down (runFCalls kb up s).1).1 = nGroundings nodes s
    · rw [fInfer_succ_pos kb nodes up down eps n s hc]
    · rw [fInfer_succ_neg kb nodes up down eps n s hc]
      simp only
      have hsu := runFCalls_inUnit kb hw up s hs
      have hsd := runFCalls_inUnit kb hw down _ hsu
      have hnd' := runFCalls_snodup kb _ down (runFCalls_snodup kb s up hn)
      have hind := hcl s hs hn hin
      have hinu : Inside U (runFCalls kb up s).1 := hind.of_sev (sev_runFCalls kb _ down)
      have e1 := runFCalls_amount_eq kb hw hU up s hs hinu
      have e2 := runFCalls_amount_eq kb hw hU down _ hsu hind
      have hmono : nGroundings nodes s ≤
          nGroundings nodes (runFCalls kb down (runFCalls kb up s).1).1 :=
        le_trans (nGroundings_mono kb nodes up s) (nGroundings_mono kb nodes down _)
      have hle := nGroundings_le nodes hnd _ hnd' hind
      have h0u := runFCalls_amount_nonneg kb up s
      have h0d := runFCalls_amount_nonneg kb down (runFCalls kb up s).1
      by_cases h1 : (runFCalls kb up s).2 + (runFCalls kb down (runFCalls kb up s).1).2 ≤ eps
      · -- the sweep created a row
        have hne : nGroundings nodes (runFCalls kb down (runFCalls kb up s).1).1 ≠
            nGroundings nodes s := fun e => hc ⟨h1, e⟩
        apply ih (R - 1) N _ hsd hnd' hind
        · omega
        · linarith
        · omega
      · -- the sweep reported more than `eps`
        have hgt := not_le.mp h1
        have hb := (phi_bounds kb hw U _ hsd).1
        have hN1 : 1 ≤ N := by
          rcases Nat.eq_zero_or_pos N with e | e
          · exfalso
            rw [e] at hN
            have := (phi_bounds kb hw U s hs).1
            simp only [Nat.cast_zero, zero_mul] at hN
            linarith
          · exact e
        apply ih R (N - 1) _ hsd hnd' hind
        · omega
        · rw [Nat.cast_sub hN1]
          push_cast
          linarith
        · omega

include hw hnd hU in
/-- **C. Termination of the first-order `fInfer`.** Let `U` be a finite duplicate-free universe of
(formula, grounding) pairs that contains every stored row of `s` and is closed under every call of
the two schedules ("finitely many constants": whatever grounding a call creates is already in `U`),
`s` in range with every grounding stored once, `nodes` duplicate-free. If `N` sweeps of size `eps`
exhaust the potential, `Φ U kb s + |U| < N · eps` (this forces `0 < eps`, as `0 ≤ Φ + |U|`), then
`fInfer` converges within any step limit `fuel > (|U| - #rows stored in s) + N`: at most
`|U| - #rows` sweeps can create a row, at most `N` sweeps can report more than `eps`. -/
theorem fInfer_terminates
    (hcl : ∀ c ∈ up ++ down, ∀ t, SInUnit t → SNodup t → Inside U t →
      Inside U (runFCall kb c t).1)
    (s : FState ι α) (hs : SInUnit s) (hn : SNodup s) (hin : Inside U s) (N fuel : Nat)
    (hN : Φ U kb s + U.length < N * eps)
    (hfuel : U.length - nGroundings nodes s + N < fuel) :
    (fInfer kb nodes up down eps fuel s).converged = true := by
  refine fInfer_terminates_core kb hw nodes hnd up down eps hU ?_ fuel _ N s hs hn hin le_rfl hN
    hfuel
  intro t ht htn hti
  have h1 := inside_runFCalls kb hw up
    (fun c hc => hcl c (List.mem_append_left _ hc)) t ht htn hti
  exact inside_runFCalls kb hw down (fun c hc => hcl c (List.mem_append_right _ hc)) _
    (runFCalls_inUnit kb hw up t ht) (runFCalls_snodup kb t up htn) h1

include hw hnd hU in
/-- whatever the initial state: `2 |U| < N · eps` and `fuel > |U| + N` are enough -/
theorem fInfer_terminates_two_U
    (hcl : ∀ c ∈ up ++ down, ∀ t, SInUnit t → SNodup t → Inside U t →
      Inside U (runFCall kb c t).1)
    (s : FState ι α) (hs : SInUnit s) (hn : SNodup s) (hin : Inside U s) (N fuel : Nat)
    (hN : 2 * (U.length : α) < N * eps) (hfuel : U.length + N < fuel) :
    (fInfer kb nodes up down eps fuel s).converged = true := by
  apply fInfer_terminates kb hw nodes hnd up down eps hU hcl s hs hn hin N fuel
  · have := (phi_bounds kb hw U s hs).2
    linarith
  · omega

include hw hnd hU in
/-- over an Archimedean field (ℚ, ℝ) a sufficient step limit exists for every `eps > 0` -/
theorem fInfer_terminates_exists [Archimedean α] (heps : 0 < eps)
    (hcl : ∀ c ∈ up ++ down, ∀ t, SInUnit t → SNodup t → Inside U t →
      Inside U (runFCall kb c t).1)
    (s : FState ι α) (hs : SInUnit s) (hn : SNodup s) (hin : Inside U s) :
    ∃ fuel, (fInfer kb nodes up down eps fuel s).converged = true := by
  obtain ⟨N, hN⟩ := exists_nat_gt ((Φ U kb s + U.length) / eps)
  rw [div_lt_iff₀ heps] at hN
  exact ⟨U.length - nGroundings nodes s + N + 1,
    fInfer_terminates kb hw nodes hnd up down eps hU hcl s hs hn hin N _ hN (Nat.lt_succ_self _)⟩

end term

/-! ## 6. which rows a call can create: closure of a universe -/

/-- every stored row satisfies `Q` -/
def SAll (Q : ι → Gr → Prop) (s : FState ι α) : Prop :=
  ∀ i, ∀ g ∈ Table.keys (s.get i), Q i g

theorem inside_iff_sall (U : List (ι × Gr)) (s : FState ι α) :
    Inside U s ↔ SAll (fun i g => (i, g) ∈ U) s := Iff.rfl

section closure

variable {Q : ι → Gr → Prop}

theorem SAll.set {s : FState ι α} (h : SAll Q s) (i : ι) {t : Table α}
    (ht : ∀ g ∈ Table.keys t, Q i g) : SAll Q (s.set i t) := by
  intro j g hg
  rw [FState.get_set] at hg
  split at hg
  · next e => subst e; exact ht g hg
  · exact h j g hg

/-- `aggRow` keeps the stored groundings -/
theorem tall_aggRow {P : Gr → Prop} (t : Table α) (g : Gr) (sel : BoundSel) (new : Bounds α)
    (h : ∀ k ∈ Table.keys t, P k) : ∀ k ∈ Table.keys (aggRow t g sel new).1, P k :=
  Table.aggRow_induct (fun t => ∀ k ∈ Table.keys t, P k)
    (fun t g b h => by rw [Table.keys_setB]; exact h) t g sel new h

theorem tall_foldAgg {β : Type} {P : Gr → Prop} (key : β → Gr) (pr : β → Bounds α)
    (sel : BoundSel) (l : List β) (acc : Table α × α) (h : ∀ k ∈ Table.keys acc.1, P k) :
    ∀ k ∈ Table.keys (l.foldl (fun (acc : Table α × α) x =>
        let a := aggRow acc.1 (key x) sel (pr x)
        (a.1, acc.2 + a.2)) acc).1, P k := by
  apply FolSound.foldl_inv (fun acc : Table α × α => ∀ k ∈ Table.keys acc.1, P k) _ _ _ h
  intro b hb x _
  exact tall_aggRow b.1 (key x) sel (pr x) hb

theorem tall_writeMerged {P : Gr → Prop} (t : Table α) (props : List (Gr × Bounds α))
    (h : ∀ k ∈ Table.keys t, P k) : ∀ k ∈ Table.keys (writeMerged t props).1, P k :=
  Table.writeMerged_induct (fun t => ∀ k ∈ Table.keys t, P k)
    (fun t g b h => by rw [Table.keys_setB]; exact h) t props h

theorem tall_addg {P : Gr → Prop} (w : Bounds α) (t : Table α) (gs : List Gr)
    (h : ∀ k ∈ Table.keys t, P k) (hgs : ∀ k ∈ gs, P k) :
    ∀ k ∈ Table.keys (Table.addg w t gs), P k := by
  intro k hk
  rcases Table.mem_keys_addg.mp hk with h' | h'
  · exact h k h'
  · exact hgs k h'

variable (kb : FKB ι α) (i : ι) (s : FState ι α)

/-- upward Not creates, in the negation, the groundings of its operand -/
theorem sall_fUpNot (h : SAll Q s)
    (hq : ∀ j rest, (kb i).ops = j :: rest → ∀ g, Q j g → Q i g) : SAll Q (fUpNot kb i s).1 := by
  unfold fUpNot
  split
  · exact h
  next j rest hops =>
    simp only
    split
    · exact h
    · apply h.set
      exact tall_foldAgg (P := Q i) (fun g => g)
        (fun g => negB (Table.getD (kb j).world (s.get j) g)) .both _ (_, 0)
        (tall_addg _ _ _ (h i) (fun k hk => hq j rest hops k (h j k hk)))

/-- downward Not creates, in the operand, the groundings of the negation -/
theorem sall_fDownNot (h : SAll Q s)
    (hq : ∀ j rest, (kb i).ops = j :: rest → ∀ g, Q i g → Q j g) : SAll Q (fDownNot kb i s).1 := by
  unfold fDownNot
  split
  · exact h
  next j rest hops =>
    simp only
    split
    · exact h
    · apply h.set
      exact tall_foldAgg (P := Q j) (fun g => g)
        (fun g => negB (Table.getD (kb i).world (s.get i) g)) .both _ (_, 0)
        (tall_addg _ _ _ (h j) (fun k hk => hq j rest hops k (h i k hk)))

/-- the quantifiers create, in the quantifier, the group keys of the operand's groundings -/
theorem sall_fUpQuant (h : SAll Q s)
    (hq : ∀ j rest, (kb i).ops = j :: rest → ∀ g, Q j g → Q i (groupKey (kb i).free g)) :
    SAll Q (fUpQuant kb i s).1 := by
  unfold fUpQuant
  simp only
  split
  · exact h
  next j rest hops =>
    split
    · exact h
    · apply h.set
      apply FolSound.foldl_inv (fun acc : Table α × α => ∀ k ∈ Table.keys acc.1, Q i k)
      · apply tall_addg _ _ _ (h i)
        intro k hk
        have hk' := FolSound.mem_of_mem_dedupKeepFirst _ _ hk
        obtain ⟨r, hr, rfl⟩ := List.mem_map.mp hk'
        exact hq j rest hops r.g (h j r.g (Table.mem_keys.mpr ⟨r, hr, rfl⟩))
      · intro b hb k _
        exact tall_aggRow _ _ _ _ hb

theorem sall_fDownQuant (h : SAll Q s)
    (hq : ∀ j rest, (kb i).ops = j :: rest → ∀ g, Q j g → Q i (groupKey (kb i).free g)) :
    SAll Q (fDownQuant kb i s).1 := by
  unfold fDownQuant
  simp only
  split
  · exact h
  next j rest hops =>
    split
    · exact h
    · have h0 : SAll Q (s.set i (Table.addg (kb i).world (s.get i)
          (dedupKeepFirst ((s.get j).map fun r => groupKey (kb i).free r.g)))) := by
        apply h.set
        apply tall_addg _ _ _ (h i)
        intro k hk
        have hk' := FolSound.mem_of_mem_dedupKeepFirst _ _ hk
        obtain ⟨r, hr, rfl⟩ := List.mem_map.mp hk'
        exact hq j rest hops r.g (h j r.g (Table.mem_keys.mpr ⟨r, hr, rfl⟩))
      apply h0.set
      exact tall_foldAgg (P := Q j) (fun p : Gr × Bounds α => p.1) (fun p => p.2) .both _ (_, 0)
        (h0 j)

end closure

/-! ### connectives: the rows the join creates are built from constants already stored -/

section conn

variable {Q : ι → Gr → Prop} (kb : FKB ι α) (i : ι) (s : FState ι α)

theorem sall_fUpConn (h : SAll Q (groundings kb i false s).1) : SAll Q (fUpConn kb i s).1 := by
  unfold fUpConn
  simp only
  split
  next s1 hgr => rw [hgr] at h; exact h
  next s1 ogs per hgr =>
    rw [hgr] at h
    simp only at h ⊢
    apply h.set
    exact tall_foldAgg (P := Q i) (fun it : Gr × Bounds α => it.1) (fun it => it.2) .both _ (_, 0)
      (h i)

theorem sall_fDownConn (idx : Option Nat) (h : SAll Q (groundings kb i true s).1) :
    SAll Q (fDownConn kb i idx s).1 := by
  unfold fDownConn
  simp only
  split
  next s1 hgr => rw [hgr] at h; exact h
  next s1 ogs per hgr =>
    rw [hgr] at h
    simp only at h
    split
    · exact h
    · apply FolSound.foldl_inv (fun acc : FState ι α × α => SAll Q acc.1) _ _ _ h
      intro acc hacc p _
      split
      · exact hacc.set _ (tall_writeMerged _ _ (hacc p.2))
      · exact hacc

theorem SAll.addAll (h : SAll Q s) (pairs : List (ι × List Gr))
    (hp : ∀ p ∈ pairs, ∀ g ∈ p.2, Q p.1 g) : SAll Q (addAll kb s pairs) := by
  intro j g hg
  rcases (Join.mem_keys_addAll kb g j pairs s).mp hg with h' | ⟨p, hp', rfl, hg'⟩
  · exact h j g h'
  · exact hp p hp' g hg'

end conn

/-- all entries of all rows are constants of `C` -/
def RC (C : List Nat) (rows : List (List Nat)) : Prop := ∀ r ∈ rows, ∀ x ∈ r, x ∈ C

theorem val_mem {cols row : List Nat} {c x : Nat} (h : Rel.val cols row c = some x) : x ∈ row := by
  unfold Rel.val at h
  split at h
  · exact List.mem_of_getElem? h
  · simp at h

theorem valD_mem {C : List Nat} (h0 : 0 ∈ C) {row : List Nat} (hr : ∀ x ∈ row, x ∈ C)
    (cols : List Nat) (c : Nat) : (Rel.val cols row c).getD 0 ∈ C := by
  cases h : Rel.val cols row c with
  | none => simpa using h0
  | some x => simpa using hr x (val_mem h)

theorem project_mem {C : List Nat} (h0 : 0 ∈ C) {row : List Nat} (hr : ∀ x ∈ row, x ∈ C)
    (cols slots : List Nat) : ∀ x ∈ Rel.project cols row slots, x ∈ C := by
  intro x hx
  unfold Rel.project at hx
  obtain ⟨c, _, rfl⟩ := List.mem_map.mp hx
  exact valD_mem h0 hr _ _

/-- the join only rearranges constants (missing values are padded with the constant `0`) -/
theorem rc_foj {C : List Nat} (h0 : 0 ∈ C) {t1 t2 : Rel} (h1 : RC C t1.rows) (h2 : RC C t2.rows) :
    RC C (foj t1 t2).rows := by
  rw [Join.foj_eq]
  split
  · intro r hr x hx
    simp only at hr
    rcases List.mem_append.mp hr with hr | hr
    · obtain ⟨_, a, ha, rfl⟩ := Join.mem_pick.mp hr
      obtain ⟨c, _, rfl⟩ := List.mem_map.mp hx
      exact valD_mem h0 (h1 a ha) _ _
    · obtain ⟨_, a, ha, rfl⟩ := Join.mem_pick.mp hr
      obtain ⟨c, _, rfl⟩ := List.mem_map.mp hx
      exact valD_mem h0 (h2 a ha) _ _
  · split
    · intro r hr x hx
      simp only [List.mem_flatMap, List.mem_map] at hr
      obtain ⟨a, ha, b, hb, rfl⟩ := hr
      rcases List.mem_append.mp hx with hx | hx
      · exact h1 a ha x hx
      · exact h2 b hb x hx
    · intro r hr x hx
      have hr' := Join.mem_dedupKeepFirst.mp hr
      have hex : ∃ left, r ∈ Join.side t1.cols t2.cols t1.rows t2.rows left := by
        rcases List.mem_append.mp hr' with h | h
        · exact ⟨true, h⟩
        · exact ⟨false, h⟩
      obtain ⟨left, hs⟩ := hex
      obtain ⟨a, ha, b, hb, rfl⟩ := Join.mem_side.mp hs
      unfold Join.mk at hx
      rcases List.mem_append.mp hx with hx | hx
      · obtain ⟨c, _, rfl⟩ := List.mem_map.mp hx
        cases hv : Rel.val t1.cols a c with
        | none =>
          simp only [Option.orElse_none]
          exact valD_mem h0 (h2 b hb) _ _
        | some y =>
          simp only [Option.orElse_some, Option.getD_some]
          exact h1 a ha y (val_mem hv)
      · obtain ⟨c, _, rfl⟩ := List.mem_map.mp hx
        split
        · exact valD_mem h0 (h1 a ha) _ _
        · exact valD_mem h0 (h2 b hb) _ _

theorem rc_foldl_foj {C : List Nat} (h0 : 0 ∈ C) (rs : List Rel) (R : Rel) (hR : RC C R.rows)
    (hrs : ∀ T ∈ rs, RC C T.rows) : RC C (rs.foldl foj R).rows := by
  induction rs generalizing R with
  | nil => exact hR
  | cons T rs ih =>
    rw [List.foldl_cons]
    exact ih _ (rc_foj h0 hR (hrs T (List.mem_cons_self ..)))
      (fun T' hT' => hrs T' (List.mem_cons_of_mem _ hT'))

theorem rc_foldJoin {C : List Nat} (h0 : 0 ∈ C) {rels : List Rel} {J : Rel}
    (hJ : foldJoin rels = some J) (hrs : ∀ T ∈ rels, RC C T.rows) : RC C J.rows := by
  cases rels with
  | nil => simp [foldJoin] at hJ
  | cons R rs =>
    simp only [foldJoin, Option.some.injEq] at hJ
    subst hJ
    exact rc_foldl_foj h0 rs R (hrs R (List.mem_cons_self ..))
      (fun T hT => hrs T (List.mem_cons_of_mem _ hT))

/-! ### the universe of all tuples over a finite set of constants -/

section constants

/-- the allowed rows over the constants `C`: registered formula, right arity, constants of `C` -/
def QC (nodes : List ι) (ar : ι → Nat) (C : List Nat) (i : ι) (g : Gr) : Prop :=
  i ∈ nodes ∧ g.length = ar i ∧ ∀ x ∈ g, x ∈ C

/-- what the closure argument needs to know about a connective: it is described by its operand
maps as in `FolSound.groundings_spec` -/
structure ConnWF (kb : FKB ι α) (ar : ι → Nat) (i : ι) : Prop where
  shape : List.Forall₂ (fun j m => List.length m = ar j) (kb i).ops (kb i).opmap
  nv : numVars (kb i) = ar i
  hom : isHomogeneous (kb i) = true → ∀ j ∈ (kb i).ops, ar j = ar i

/-- what the closure argument needs to know about the formula a call is made on: it and its
operands are registered, and the arities fit — a negation has the arity of its operand, a
quantifier the number of its free variables, a connective is well-formed (`ConnWF`) -/
structure CallWF (kb : FKB ι α) (nodes : List ι) (ar : ι → Nat) (i : ι) : Prop where
  node : i ∈ nodes
  ops : ∀ j ∈ (kb i).ops, j ∈ nodes
  neg : (kb i).kind = .neg → ∀ j rest, (kb i).ops = j :: rest → ar j = ar i
  quant : (kb i).kind = .all ∨ (kb i).kind = .ex → (kb i).free.length = ar i
  conn : (kb i).kind = .and ∨ (kb i).kind = .or ∨ (kb i).kind = .implies → ConnWF kb ar i

theorem CallWF.connWF {kb : FKB ι α} {nodes : List ι} {ar : ι → Nat} {i : ι}
    (wf : CallWF kb nodes ar i) (h1 : (kb i).kind = .pred → False)
    (h2 : (kb i).kind = .neg → False) (h3 : (kb i).kind = .all → False)
    (h4 : (kb i).kind = .ex → False) : ConnWF kb ar i := by
  apply wf.conn
  cases hk : (kb i).kind with
  | pred => exact absurd hk h1
  | neg => exact absurd hk h2
  | all => exact absurd hk h3
  | ex => exact absurd hk h4
  | and => simp
  | or => simp
  | implies => simp

variable (kb : FKB ι α) {nodes : List ι} {ar : ι → Nat} {C : List Nat} (h0 : 0 ∈ C) (i : ι)
  (wf : CallWF kb nodes ar i) (s : FState ι α) (h : SAll (QC nodes ar C) s)

include h0 wf h

theorem sall_groundings (cw : ConnWF kb ar i) (down : Bool) : SAll (QC nodes ar C) (groundings kb i down s).1 := by
  by_cases hh : isHomogeneous (kb i) = true
  · rw [Join.groundings_homog kb i down s hh]
    simp only
    have hgs : ∀ g ∈ Join.homGs kb i down s,
        QC nodes ar C i g ∧ ∀ j ∈ (kb i).ops, QC nodes ar C j g := by
      intro g hg
      unfold Join.homGs at hg
      obtain ⟨l, hl, hgl⟩ := Join.mem_unionKeys.mp hg
      have key : g.length = ar i ∧ ∀ x ∈ g, x ∈ C := by
        rcases List.mem_append.mp hl with hl | hl
        · obtain ⟨j, hj, rfl⟩ := List.mem_map.mp hl
          have hq := h j g hgl
          exact ⟨by rw [hq.2.1, cw.hom hh j hj], hq.2.2⟩
        · split at hl
          · simp only [List.mem_cons, List.not_mem_nil, or_false] at hl
            subst hl
            exact (h i g hgl).2
          · simp at hl
      exact ⟨⟨wf.node, key.1, key.2⟩,
        fun j hj => ⟨wf.ops j hj, by rw [key.1, cw.hom hh j hj], key.2⟩⟩
    apply SAll.addAll
    · apply SAll.addAll _ _ h
      intro p hp g hg
      obtain ⟨j, hj, rfl⟩ := List.mem_map.mp hp
      exact (hgs g hg).2 j hj
    · intro p hp g hg
      simp only [List.mem_cons, List.not_mem_nil, or_false] at hp
      subst hp
      exact (hgs g hg).1
  · have hh' : isHomogeneous (kb i) = false := by simpa using hh
    cases hJ : foldJoin (Join.relsOf kb i s) with
    | none => rw [Join.groundings_hetero_none kb i down s hh' hJ]; exact h
    | some J =>
      cases hne : J.rows.isEmpty with
      | true => rw [Join.groundings_hetero_empty kb i down s hh' hJ hne]; exact h
      | false =>
        rw [Join.groundings_hetero kb i down s hh' hJ hne]
        simp only
        have hrc : RC C J.rows := rc_foldJoin h0 hJ (by
          intro T hT
          obtain ⟨p, hp, rfl⟩ := Join.mem_relsOf.mp hT
          intro r hr x hx
          exact (h p.1 r hr).2.2 x hx)
        apply SAll.addAll
        · apply SAll.addAll _ _ h
          intro p hp g hg
          unfold Join.perOf at hp
          rw [List.zip_map_right] at hp
          obtain ⟨q, hq, rfl⟩ := List.mem_map.mp hp
          obtain ⟨j, m⟩ := q
          simp only [Prod.map_apply, id_eq] at hg ⊢
          obtain ⟨r, hr, rfl⟩ := List.mem_map.mp hg
          have hlen := (List.forall₂_iff_zip.mp cw.shape).2 hq
          exact ⟨wf.ops j (List.of_mem_zip hq).1, by simpa [Rel.project] using hlen,
            project_mem h0 (hrc r hr) _ _⟩
        · intro p hp g hg
          simp only [List.mem_cons, List.not_mem_nil, or_false] at hp
          subst hp
          obtain ⟨r, hr, rfl⟩ := Join.mem_ogsOf.mp hg
          exact ⟨wf.node, by simp [Rel.project, cw.nv], project_mem h0 (hrc r hr) _ _⟩

theorem groupKey_qc {j : ι} {g : Gr} (hq : QC nodes ar C j g)
    (hfree : (kb i).free.length = ar i) : QC nodes ar C i (groupKey (kb i).free g) := by
  refine ⟨wf.node, by simp [groupKey, hfree], ?_⟩
  intro x hx
  unfold groupKey at hx
  obtain ⟨k, _, rfl⟩ := List.mem_map.mp hx
  rw [List.getD_eq_getElem?_getD]
  cases hk : g[k]? with
  | none => simpa using h0
  | some y => simpa using hq.2.2 y (List.mem_of_getElem? hk)

theorem sall_fUp : SAll (QC nodes ar C) (fUp kb i s).1 := by
  unfold fUp
  split
  · exact h
  · next hk =>
    exact sall_fUpNot kb i s h (fun j rest hops g hq =>
      ⟨wf.node, by rw [hq.2.1, wf.neg hk j rest hops], hq.2.2⟩)
  · next hk =>
    exact sall_fUpQuant kb i s h (fun j rest hops g hq =>
      groupKey_qc kb h0 i wf s h hq (wf.quant (Or.inl hk)))
  · next hk =>
    exact sall_fUpQuant kb i s h (fun j rest hops g hq =>
      groupKey_qc kb h0 i wf s h hq (wf.quant (Or.inr hk)))
  · next h1 h2 h3 h4 =>
    exact sall_fUpConn kb i s (sall_groundings kb h0 i wf s h (wf.connWF h1 h2 h3 h4) false)

theorem sall_fDown (idx : Option Nat) : SAll (QC nodes ar C) (fDown kb i idx s).1 := by
  unfold fDown
  split
  · exact h
  · next hk =>
    exact sall_fDownNot kb i s h (fun j rest hops g hq =>
      ⟨wf.ops j (by rw [hops]; exact List.mem_cons_self ..),
        by rw [hq.2.1, wf.neg hk j rest hops], hq.2.2⟩)
  · next hk =>
    exact sall_fDownQuant kb i s h (fun j rest hops g hq =>
      groupKey_qc kb h0 i wf s h hq (wf.quant (Or.inl hk)))
  · next hk =>
    exact sall_fDownQuant kb i s h (fun j rest hops g hq =>
      groupKey_qc kb h0 i wf s h hq (wf.quant (Or.inr hk)))
  · next h1 h2 h3 h4 =>
    exact sall_fDownConn kb i s idx
      (sall_groundings kb h0 i wf s h (wf.connWF h1 h2 h3 h4) true)

end constants

/-- all tuples of length `n` over the constants `C` -/
def tuples (C : List Nat) : Nat → List Gr
  | 0 => [[]]
  | n + 1 => C.flatMap fun c => (tuples C n).map fun t => c :: t

theorem mem_tuples {C : List Nat} : ∀ {n : Nat} {g : Gr},
    g ∈ tuples C n ↔ g.length = n ∧ ∀ x ∈ g, x ∈ C
  | 0, g => by
    cases g <;> simp [tuples]
  | n + 1, g => by
    cases g with
    | nil => simp [tuples]
    | cons a t =>
      simp only [tuples, List.mem_flatMap, List.mem_map, List.cons.injEq, List.length_cons,
        Nat.add_right_cancel_iff, List.mem_cons, forall_eq_or_imp]
      constructor
      · rintro ⟨c, hc, t', ht', rfl, rfl⟩
        exact ⟨(mem_tuples.mp ht').1, hc, (mem_tuples.mp ht').2⟩
      · rintro ⟨h1, h2, h3⟩
        exact ⟨a, h2, t, mem_tuples.mpr ⟨h1, h3⟩, rfl, rfl⟩

theorem nodup_tuples {C : List Nat} (hC : C.Nodup) : ∀ n, (tuples C n).Nodup
  | 0 => by simp [tuples]
  | n + 1 => by
    unfold tuples
    rw [List.nodup_flatMap]
    refine ⟨fun c _ => List.Nodup.map (fun a b e => (List.cons.inj e).2) (nodup_tuples hC n), ?_⟩
    refine hC.imp ?_
    intro a b hab
    show List.Disjoint _ _
    intro x hx hy
    obtain ⟨_, _, rfl⟩ := List.mem_map.mp hx
    obtain ⟨_, _, e⟩ := List.mem_map.mp hy
    exact hab (List.cons.inj e).1.symm

/-- the universe of a knowledge base with finitely many constants: every registered formula with
every tuple of its arity over `C` (`Σ_i |C|^(ar i)` rows) -/
def CU (nodes : List ι) (ar : ι → Nat) (C : List Nat) : List (ι × Gr) :=
  nodes.flatMap fun i => (tuples C (ar i)).map fun g => (i, g)

theorem mem_CU {nodes : List ι} {ar : ι → Nat} {C : List Nat} {i : ι} {g : Gr} :
    (i, g) ∈ CU nodes ar C ↔ QC nodes ar C i g := by
  unfold CU QC
  simp only [List.mem_flatMap, List.mem_map, Prod.mk.injEq]
  constructor
  · rintro ⟨j, hj, g', hg', rfl, rfl⟩
    exact ⟨hj, mem_tuples.mp hg'⟩
  · rintro ⟨h1, h2⟩
    exact ⟨i, h1, g, mem_tuples.mpr h2, rfl, rfl⟩

theorem nodup_CU {nodes : List ι} (hn : nodes.Nodup) (ar : ι → Nat) {C : List Nat}
    (hC : C.Nodup) : (CU nodes ar C).Nodup := by
  unfold CU
  rw [List.nodup_flatMap]
  refine ⟨fun i _ => List.Nodup.map (fun a b e => (Prod.ext_iff.mp e).2) (nodup_tuples hC _), ?_⟩
  refine hn.imp ?_
  intro a b hab
  show List.Disjoint _ _
  intro x hx hy
  obtain ⟨_, _, rfl⟩ := List.mem_map.mp hx
  obtain ⟨_, _, e⟩ := List.mem_map.mp hy
  exact hab (Prod.ext_iff.mp e).1.symm

/-- **Termination on a knowledge base with finitely many constants** (the closure hypothesis of
`fInfer_terminates` discharged): `C` a duplicate-free list of constants containing the constant
`0` (the value the join pads missing columns with), every call of the two schedules made on a
well-formed formula (`CallWF`), every stored row of `s` a tuple of the right arity over `C` on a
registered formula. Then `fInfer` converges within `|U| - #rows + N + 1` sweeps, `U = CU nodes ar C`
the universe of all tuples, whenever `Φ U kb s + |U| < N · eps`. All six call kinds are covered. -/
theorem fInfer_terminates_constants (kb : FKB ι α) (hw : WorldsInUnit kb) (nodes : List ι)
    (hnd : nodes.Nodup) (up down : List (FCall ι)) (eps : α) (ar : ι → Nat) (C : List Nat)
    (hC : C.Nodup) (h0 : 0 ∈ C)
    (hwf : ∀ c ∈ up ++ down, CallWF kb nodes ar (cnode c))
    (s : FState ι α) (hs : SInUnit s) (hn : SNodup s) (hin : SAll (QC nodes ar C) s)
    (N fuel : Nat) (hN : Φ (CU nodes ar C) kb s + (CU nodes ar C).length < N * eps)
    (hfuel : (CU nodes ar C).length - nGroundings nodes s + N < fuel) :
    (fInfer kb nodes up down eps fuel s).converged = true := by
  have hiff : ∀ t : FState ι α, Inside (CU nodes ar C) t ↔ SAll (QC nodes ar C) t :=
    fun t => ⟨fun h i g hg => mem_CU.mp (h i g hg), fun h i g hg => mem_CU.mpr (h i g hg)⟩
  refine fInfer_terminates kb hw nodes hnd up down eps (nodup_CU hnd ar hC) ?_ s hs hn
    ((hiff s).mpr hin) N fuel hN hfuel
  intro c hc t _ _ hti
  rw [hiff] at hti ⊢
  cases c with
  | up i => exact sall_fUp kb h0 i (hwf _ hc) t hti
  | down i idx => exact sall_fDown kb h0 i (hwf _ hc) t hti idx

/-- … and over an Archimedean field a sufficient step limit exists for every `eps > 0` -/
theorem fInfer_terminates_constants_exists [Archimedean α] (kb : FKB ι α) (hw : WorldsInUnit kb)
    (nodes : List ι) (hnd : nodes.Nodup) (up down : List (FCall ι)) (eps : α) (heps : 0 < eps)
    (ar : ι → Nat) (C : List Nat) (hC : C.Nodup) (h0 : 0 ∈ C)
    (hwf : ∀ c ∈ up ++ down, CallWF kb nodes ar (cnode c))
    (s : FState ι α) (hs : SInUnit s) (hn : SNodup s) (hin : SAll (QC nodes ar C) s) :
    ∃ fuel, (fInfer kb nodes up down eps fuel s).converged = true := by
  obtain ⟨N, hN⟩ := exists_nat_gt ((Φ (CU nodes ar C) kb s + (CU nodes ar C).length) / eps)
  rw [div_lt_iff₀ heps] at hN
  exact ⟨_, fInfer_terminates_constants kb hw nodes hnd up down eps ar C hC h0 hwf s hs hn hin N _
    hN (Nat.lt_succ_self _)⟩

/-! ## 7. non-vacuity -/

section examples

/-- `FolAmount.exKB`: node 1 is `Not(node 0)`, node 0 a predicate `P`; the universe: the one
constant `0`, i.e. the rows `P(0)` and `¬P(0)` -/
def exU : List (Nat × Gr) := [(0, [0]), (1, [0])]

theorem exU_nodup : exU.Nodup := by decide

theorem exS_snodup : SNodup exS := by
  intro i
  by_cases hi : i = 0
  · subst hi
    simp [exS, FState.get, Table.NodupKeys, Table.keys]
  · have : ¬ 0 = i := fun e => hi e.symm
    simp [exS, FState.get, this, Table.NodupKeys, Table.keys]

theorem exS_inside : Inside exU exS := by
  intro i g hg
  by_cases hi : i = 0
  · subst hi
    simp [exS, FState.get, Table.keys] at hg
    subst hg
    simp [exU]
  · have : ¬ 0 = i := fun e => hi e.symm
    simp [exS, FState.get, this, Table.keys] at hg

theorem exKB_pred {i : Nat} (hi : i ≠ 1) : (exKB i).kind = .pred := by
  unfold exKB
  split
  · exact absurd rfl hi
  · rfl

/-- the universe is closed under EVERY call of this knowledge base -/
theorem exU_closed (c : FCall Nat) (t : FState Nat ℚ) (h : Inside exU t) :
    Inside exU (runFCall exKB c t).1 := by
  rw [inside_iff_sall] at h ⊢
  cases c with
  | up i =>
    by_cases hi : i = 1
    · subst hi
      have e : runFCall exKB (.up 1) t = fUpNot exKB 1 t := rfl
      rw [e]
      apply sall_fUpNot exKB 1 t h
      intro j rest hops g hg
      simp only [exKB, List.cons.injEq] at hops
      obtain ⟨rfl, _⟩ := hops
      simp only [exU, List.mem_cons, Prod.mk.injEq, List.not_mem_nil, or_false] at hg ⊢
      rcases hg with ⟨_, rfl⟩ | ⟨h1, _⟩
      · right; simp
      · omega
    · have e : runFCall exKB (.up i) t = (t, 0) := by
        simp only [runFCall, fUp, exKB_pred hi]
      rw [e]; exact h
  | down i idx =>
    by_cases hi : i = 1
    · subst hi
      have e : runFCall exKB (.down 1 idx) t = fDownNot exKB 1 t := rfl
      rw [e]
      apply sall_fDownNot exKB 1 t h
      intro j rest hops g hg
      simp only [exKB, List.cons.injEq] at hops
      obtain ⟨rfl, _⟩ := hops
      simp only [exU, List.mem_cons, Prod.mk.injEq, List.not_mem_nil, or_false] at hg ⊢
      rcases hg with ⟨h1, _⟩ | ⟨_, rfl⟩
      · omega
      · left; simp
    · have e : runFCall exKB (.down i idx) t = (t, 0) := by
        simp only [runFCall, fDown, exKB_pred hi]
      rw [e]; exact h

/-- the potential of `exS`: `P(0)` is TRUE (width 0), `¬P(0)` reads as the world default (width 1) -/
theorem exS_phi : Φ exU exKB exS = 1 := by
  simp [Φ, pot, wd, exU, rd, reads, Table.getD, Table.find?, exS, exKB, FState.get]

/-- every hypothesis of `fInfer_terminates` is met: `Φ + |U| = 3 < 31 · (1/10)`, and
`|U| - #rows + 31 = 32 < 33` -/
example : (fInfer exKB [0, 1] [.up 0, .up 1] [.down 1 none, .down 0 none] (1/10) 33
    exS).converged = true := by
  apply fInfer_terminates exKB exKB_worlds [0, 1] (by decide) _ _ (1/10) exU_nodup
    (fun c _ t _ _ h => exU_closed c t h) exS exS_inUnit exS_snodup exS_inside 31 33
  · rw [exS_phi]; simp [exU]; norm_num
  · simp [nGroundings, exS, FState.get, exU]

/-- the run itself: the first sweep creates `¬P(0)` and reports 1 — exactly the loss of potential
(`exS_phi`: from 1 to 0) —, the second one reports 0 and creates nothing -/
example :
    (fInfer exKB [0, 1] [.up 0, .up 1] [.down 1 none, .down 0 none] (1/10) 33 exS).converged = true ∧
    (fInfer exKB [0, 1] [.up 0, .up 1] [.down 1 none, .down 0 none] (1/10) 33 exS).steps = 2 ∧
    (fInfer exKB [0, 1] [.up 0, .up 1] [.down 1 none, .down 0 none] (1/10) 33 exS).total = 1 := by
  simp [fInfer, runFCalls, runFCall, nGroundings, fUp, fDown, fUpNot, fDownNot, exKB, exS,
    FState.get, FState.set, Table.keys, Table.addg, Table.has, Table.find?, Table.getD, aggRow,
    aggregate, negB, clamp01, Table.setB]

/-- the exact-amount statement on this instance: the upward call of the negation reports 1, the
potential falls from 1 to 0 -/
example : (runFCall exKB (.up 1) exS).2 = 1 ∧ Φ exU exKB (runFCall exKB (.up 1) exS).1 = 0 := by
  have h := runFCall_amount_eq exKB exKB_worlds exU_nodup (.up 1) exS exS_inUnit
    (exU_closed _ _ exS_inside)
  have h1 : (runFCall exKB (.up 1) exS).2 = 1 := by
    simp [runFCall, fUp, fUpNot, exKB, exS, FState.get, FState.set, Table.keys, Table.addg,
      Table.has, Table.find?, Table.getD, aggRow, aggregate, negB, clamp01, Table.setB]
  rw [h1, exS_phi] at h
  exact ⟨h1, by linarith⟩

/-! the same through `fInfer_terminates_constants`: one constant `0`, both formulae unary -/

theorem exCU : CU [0, 1] (fun _ : Nat => 1) [0] = exU := by
  simp [CU, tuples, exU]

theorem exKB_wf (c : FCall Nat)
    (hc : c ∈ ([.up 0, .up 1] : List (FCall Nat)) ++ [.down 1 none, .down 0 none]) :
    CallWF exKB [0, 1] (fun _ => 1) (cnode c) := by
  simp only [List.cons_append, List.nil_append, List.mem_cons, List.not_mem_nil, or_false] at hc
  rcases hc with rfl | rfl | rfl | rfl <;>
    exact ⟨by simp [cnode], by simp [cnode, exKB], by simp [cnode, exKB], by simp [cnode, exKB],
      by simp [cnode, exKB]⟩

example : (fInfer exKB [0, 1] [.up 0, .up 1] [.down 1 none, .down 0 none] (1/10) 33
    exS).converged = true := by
  apply fInfer_terminates_constants exKB exKB_worlds [0, 1] (by decide) _ _ (1/10) (fun _ => 1)
    [0] (by decide) (by simp) exKB_wf exS exS_inUnit exS_snodup
    (fun i g hg => mem_CU.mp (exCU ▸ exS_inside i g hg)) 31 33
  · rw [exCU, exS_phi]; simp [exU]; norm_num
  · rw [exCU]; simp [nGroundings, exS, FState.get, exU]

end examples

end FolTerm
end LNN
