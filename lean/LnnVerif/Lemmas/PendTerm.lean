/-
TERMINATION of the EXECUTED loop `pInfer` / `pInferQ`: the first-order engine with grounding
propagation through partially quantified sub-formulae (`Model/FolPend.lean`) layered over it.

The template is `Lemmas/FolTerm.lean` (potential `Φ U kb s`, `Inside U s`, the step relation `SD`).

* what the layer adds to a call is `preDown` (`propagateQ`): rows created at the world default of
  the body. That is an `SD`-step of amount `0` (`sd_preDown`), so every layered call is an
  `SD`-step whose amount is the amount the underlying call reports (`sd_runPCall`,
  `sd_runPCalls`): EXACT amount = loss of potential (`runPCall_amount_eq`, `runPCalls_amount_eq`).
* rows are never removed (`sev_runPCall(s)`, `nGroundings_mono_p`), range and "every grounding
  stored once" are kept (`runPCalls_inUnit`, `runPCalls_snodup`).
* the convergence test of `pInfer` is the one of `fInfer` (amount `≤ eps` ∧ no row created); the
  pending lists do NOT enter it and cannot keep the loop alive on their own: a pending grounding
  acts only by creating a row (counted by `nGroundings`), after which it is dropped. Hence the
  same bound: `pInfer_terminates` (closure hypothesis over all layered states, as asked),
  `pInfer_terminates_inv` (closure relative to an invariant `I` of the layered state that the calls
  keep; needed for the all-tuples universe, where the pending groundings must be tuples over the
  constants too).
* `pInferQ`: the early exit returns `converged = false` BY DEFINITION (`pInferQ` leaves the loop
  with the flag `false` as soon as the query is classically resolved), so
  "`pInferQ … .converged = true`" is FALSE in general (`pInferQ_stop_not_converged`). The
  strongest true variant: within the same step limit the loop has converged OR it was left through
  the early exit (`pInferQ_terminates`); with `query = none` it is `pInfer`.
* closure of the all-tuples universe `FolTerm.CU nodes ar C` (`sall_runPCall`): the rows
  `propagateQ` creates in the body are `Rel.project` of (pending grounding ++ values of the
  quantified columns of stored body rows): entries are constants of pending groundings, constants
  of stored body rows, or the padding constant `0` (already required: `0 ∈ C`); their length is the
  length of the FIRST stored body row. No other constant occurs. The pending groundings are rows
  that were appended to the quantifier's table, so they are tuples over `C` (`PAll`).
  `pInfer_terminates_constants`, `…_exists`.
* non-vacuity: `¬ ∃y. P(x, y)` with a fact on the negation (section `examples`).

Everything lives in the namespace `LNN.PendTerm`.
-/
import LnnVerif.Model.FolPend
import LnnVerif.Lemmas.PendLemmas
import LnnVerif.Lemmas.FolTerm

set_option linter.unusedSectionVars false

namespace LNN
namespace PendTerm

open FolAmount FolFix FolTerm

variable {ι : Type} [DecidableEq ι] {α : Type} [Field α] [LinearOrder α] [IsStrictOrderedRing α]

/-! ## 1. what `preDown` does to the tables -/

/-- what `preDown` does: nothing, or the rows `propagatedRows …` created in the body (and the
pending list of the quantifier emptied, the one of the body extended) -/
theorem preDown_cases (kb : FKB ι α) (i : ι) (p : PState ι α) :
    preDown kb i p = p ∨
    ∃ j rest, (kb i).ops = j :: rest ∧ (p.st.get j).isEmpty = false ∧
      preDown kb i p =
        ⟨p.st.set j (Table.addg (kb j).world (p.st.get j)
          (propagatedRows (kb i) (p.pendOf i) (p.st.get j).keys)),
         notePend kb i p.st (p.st.set j (Table.addg (kb j).world (p.st.get j)
          (propagatedRows (kb i) (p.pendOf i) (p.st.get j).keys))) (setPend p.pend i [])⟩ := by
  unfold preDown
  split_ifs with hq
  · split
    · next j rest hops =>
      split_ifs with he
      · exact Or.inl rfl
      · unfold propagateQ
        simp only [hops]
        split_ifs with hp
        · exact Or.inl rfl
        · exact Or.inr ⟨j, rest, rfl, by simpa using he, rfl⟩
    · exact Or.inl rfl
  · exact Or.inl rfl

/-- the tables after `preDown`: unchanged, or the rows `propagatedRows …` created in the body -/
theorem preDown_st_cases (kb : FKB ι α) (i : ι) (p : PState ι α) :
    (preDown kb i p).st = p.st ∨
    ∃ j rest, (kb i).ops = j :: rest ∧ (p.st.get j).isEmpty = false ∧
      (preDown kb i p).st = p.st.set j (Table.addg (kb j).world (p.st.get j)
        (propagatedRows (kb i) (p.pendOf i) (p.st.get j).keys)) := by
  rcases preDown_cases kb i p with e | ⟨j, rest, h1, h2, e⟩
  · exact Or.inl (by rw [e])
  · exact Or.inr ⟨j, rest, h1, h2, by rw [e]⟩

section calls

variable (kb : FKB ι α) (hw : WorldsInUnit kb) {U : List (ι × Gr)} (hU : U.Nodup)

include hw hU

/-- `preDown` is a step of amount `0`: rows created at world defaults, no reading changes -/
theorem sd_preDown (i : ι) (p : PState ι α) (hs : SInUnit p.st) :
    SD kb U p.st (preDown kb i p).st 0 := by
  rcases preDown_st_cases kb i p with e | ⟨j, rest, _, _, e⟩
  · rw [e]; exact SD.refl kb U hs
  · rw [e]
    exact ((SD.refl kb U hs).set j ((TD.refl _ _ (hs j)).addg (hw j) _)).cast (zero_add 0)

theorem sd_pUp (i : ι) (p : PState ι α) (hs : SInUnit p.st) :
    SD kb U p.st (pUp kb i p).1.st (pUp kb i p).2 :=
  sd_fUp kb hw hU i p.st hs

theorem sd_pDown (i : ι) (idx : Option Nat) (p : PState ι α) (hs : SInUnit p.st) :
    SD kb U p.st (pDown kb i idx p).1.st (pDown kb i idx p).2 := by
  have h1 := sd_preDown kb hw hU i p hs
  have h2 := sd_fDown kb hw hU i (preDown kb i p).st h1.unit idx
  rw [(pDown_st kb i idx p).1, (pDown_st kb i idx p).2]
  exact (h1.trans h2).cast (zero_add _)

theorem sd_runPCall (c : FCall ι) (p : PState ι α) (hs : SInUnit p.st) :
    SD kb U p.st (runPCall kb c p).1.st (runPCall kb c p).2 := by
  cases c with
  | up i => exact sd_pUp kb hw hU i p hs
  | down i idx => exact sd_pDown kb hw hU i idx p hs

theorem sd_runPCalls (cs : List (FCall ι)) (p : PState ι α) (hs : SInUnit p.st) :
    SD kb U p.st (runPCalls kb cs p).1.st (runPCalls kb cs p).2 := by
  induction cs generalizing p with
  | nil => exact SD.refl kb U hs
  | cons c rest ih =>
    have h1 := sd_runPCall kb hw hU c p hs
    exact h1.trans (ih _ h1.unit)

/-- **1a. EXACT amount of a layered call** (upward, downward; the downward call of a partially
quantified formula first instantiates its body at the pending groundings): on a state in range,
if the tables the call returns are inside the duplicate-free universe `U`, the reported amount is
exactly the loss of potential over `U`. Propagation contributes `0`. -/
theorem runPCall_amount_eq (c : FCall ι) (p : PState ι α) (hs : SInUnit p.st)
    (hin : Inside U (runPCall kb c p).1.st) :
    (runPCall kb c p).2 = Φ U kb p.st - Φ U kb (runPCall kb c p).1.st :=
  (sd_runPCall kb hw hU c p hs).drop hin

/-- **1b.** … and of any list of layered calls -/
theorem runPCalls_amount_eq (cs : List (FCall ι)) (p : PState ι α) (hs : SInUnit p.st)
    (hin : Inside U (runPCalls kb cs p).1.st) :
    (runPCalls kb cs p).2 = Φ U kb p.st - Φ U kb (runPCalls kb cs p).1.st :=
  (sd_runPCalls kb hw hU cs p hs).drop hin

end calls

/-! ## 2. rows are never removed -/

section mono

variable (kb : FKB ι α)

theorem sev_preDown (i : ι) (p : PState ι α) : SEv p.st (preDown kb i p).st := by
  rcases preDown_st_cases kb i p with e | ⟨j, rest, _, _, e⟩
  · rw [e]; exact SEv.refl _
  · rw [e]; exact (SEv.refl p.st).set j (Ev.addg _ _ (Ev.refl _))

theorem sev_runPCall (c : FCall ι) (p : PState ι α) : SEv p.st (runPCall kb c p).1.st := by
  cases c with
  | up i => exact sev_fUp kb i p.st
  | down i idx =>
    show SEv p.st (pDown kb i idx p).1.st
    rw [(pDown_st kb i idx p).1]
    exact (sev_preDown kb i p).trans (sev_fDown kb i _ idx)

theorem sev_runPCalls (cs : List (FCall ι)) (p : PState ι α) :
    SEv p.st (runPCalls kb cs p).1.st := by
  induction cs generalizing p with
  | nil => exact SEv.refl _
  | cons c rest ih => exact (sev_runPCall kb c p).trans (ih _)

/-- a layered call keeps "every grounding stored once" -/
theorem runPCall_snodup (c : FCall ι) (p : PState ι α) (hn : SNodup p.st) :
    SNodup (runPCall kb c p).1.st := (sev_runPCall kb c p).snodup hn

theorem runPCalls_snodup (cs : List (FCall ι)) (p : PState ι α) (hn : SNodup p.st) :
    SNodup (runPCalls kb cs p).1.st := (sev_runPCalls kb cs p).snodup hn

/-- … and the range -/
theorem runPCall_inUnit (hw : WorldsInUnit kb) (c : FCall ι) (p : PState ι α)
    (hs : SInUnit p.st) : SInUnit (runPCall kb c p).1.st :=
  (sd_runPCall kb hw (U := []) List.nodup_nil c p hs).unit

theorem runPCalls_inUnit (hw : WorldsInUnit kb) (cs : List (FCall ι)) (p : PState ι α)
    (hs : SInUnit p.st) : SInUnit (runPCalls kb cs p).1.st :=
  (sd_runPCalls kb hw (U := []) List.nodup_nil cs p hs).unit

/-- **2.** no list of layered calls removes a row -/
theorem nGroundings_mono_p (nodes : List ι) (cs : List (FCall ι)) (p : PState ι α) :
    nGroundings nodes p.st ≤ nGroundings nodes (runPCalls kb cs p).1.st :=
  sum_map_le _ _ nodes (fun i _ => (sev_runPCalls kb cs p i).length_le)

/-- the stored rows before a list of layered calls are inside whatever universe the rows after
it are inside -/
theorem inside_of_runPCalls {U : List (ι × Gr)} (cs : List (FCall ι)) (p : PState ι α)
    (h : Inside U (runPCalls kb cs p).1.st) : Inside U p.st :=
  h.of_sev (sev_runPCalls kb cs p)

/-- the amounts of layered calls are the amounts of the calls underneath: non-negative -/
theorem runPCall_amount_nonneg (c : FCall ι) (p : PState ι α) : 0 ≤ (runPCall kb c p).2 := by
  cases c with
  | up i => exact FolAmount.runFCall_amount_nonneg kb (.up i) p.st
  | down i idx => exact FolAmount.runFCall_amount_nonneg kb (.down i idx) (preDown kb i p).st

theorem runPCalls_amount_nonneg (cs : List (FCall ι)) (p : PState ι α) :
    0 ≤ (runPCalls kb cs p).2 := by
  induction cs generalizing p with
  | nil => exact le_rfl
  | cons c rest ih =>
    simp only [runPCalls]
    exact add_nonneg (runPCall_amount_nonneg kb c p) (ih _)

end mono

/-! ## 3. termination -/

section term

variable (kb : FKB ι α) (nodes : List ι) (up down : List (FCall ι)) (eps : α)

theorem pInfer_succ_pos (fuel : Nat) (p : PState ι α)
    (h : (runPCalls kb up p).2 + (runPCalls kb down (runPCalls kb up p).1).2 ≤ eps ∧
      nGroundings nodes (runPCalls kb down (runPCalls kb up p).1).1.st = nGroundings nodes p.st) :
    (pInfer kb nodes up down eps (fuel + 1) p).converged = true := by
  simp only [pInfer]
  rw [if_pos h]

theorem pInfer_succ_neg (fuel : Nat) (p : PState ι α)
    (h : ¬ ((runPCalls kb up p).2 + (runPCalls kb down (runPCalls kb up p).1).2 ≤ eps ∧
      nGroundings nodes (runPCalls kb down (runPCalls kb up p).1).1.st = nGroundings nodes p.st)) :
    (pInfer kb nodes up down eps (fuel + 1) p).converged =
      (pInfer kb nodes up down eps fuel (runPCalls kb down (runPCalls kb up p).1).1).converged := by
  simp only [pInfer]
  rw [if_neg h]

theorem pInferQ_succ_stop (query : Option ι) (fuel : Nat) (p : PState ι α)
    (hq : fQueryStop kb query p.st = true) :
    pInferQ kb nodes up down eps query (fuel + 1) p = ⟨p, 0, 0, false⟩ := by
  simp only [pInferQ]
  rw [if_pos hq]

theorem pInferQ_succ_pos (query : Option ι) (fuel : Nat) (p : PState ι α)
    (hq : fQueryStop kb query p.st = false)
    (h : (runPCalls kb up p).2 + (runPCalls kb down (runPCalls kb up p).1).2 ≤ eps ∧
      nGroundings nodes (runPCalls kb down (runPCalls kb up p).1).1.st = nGroundings nodes p.st) :
    (pInferQ kb nodes up down eps query (fuel + 1) p).converged = true := by
  simp only [pInferQ, hq, Bool.false_eq_true, if_false]
  rw [if_pos h]

theorem pInferQ_succ_neg (query : Option ι) (fuel : Nat) (p : PState ι α)
    (hq : fQueryStop kb query p.st = false)
    (h : ¬ ((runPCalls kb up p).2 + (runPCalls kb down (runPCalls kb up p).1).2 ≤ eps ∧
      nGroundings nodes (runPCalls kb down (runPCalls kb up p).1).1.st = nGroundings nodes p.st)) :
    (pInferQ kb nodes up down eps query (fuel + 1) p).converged =
      (pInferQ kb nodes up down eps query fuel
        (runPCalls kb down (runPCalls kb up p).1).1).converged ∧
    (pInferQ kb nodes up down eps query (fuel + 1) p).state =
      (pInferQ kb nodes up down eps query fuel (runPCalls kb down (runPCalls kb up p).1).1).state := by
  simp only [pInferQ, hq, Bool.false_eq_true, if_false]
  rw [if_neg h]
  exact ⟨rfl, rfl⟩

end term

section term2

variable (kb : FKB ι α) (hw : WorldsInUnit kb) (nodes : List ι) (hnd : nodes.Nodup)
  (up down : List (FCall ι)) (eps : α) {U : List (ι × Gr)} (hU : U.Nodup)

include hw in
/-- closure of the universe (and of an invariant `I` of the layered state) under each layered call
gives closure under lists of layered calls -/
theorem inside_runPCalls (I : PState ι α → Prop) (cs : List (FCall ι))
    (hcl : ∀ c ∈ cs, ∀ q, I q → SInUnit q.st → SNodup q.st → Inside U q.st →
      I (runPCall kb c q).1 ∧ Inside U (runPCall kb c q).1.st)
    (q : PState ι α) (hi : I q) (hs : SInUnit q.st) (hn : SNodup q.st) (hin : Inside U q.st) :
    I (runPCalls kb cs q).1 ∧ Inside U (runPCalls kb cs q).1.st := by
  induction cs generalizing q with
  | nil => exact ⟨hi, hin⟩
  | cons c rest ih =>
    have h1 := hcl c (List.mem_cons_self ..) q hi hs hn hin
    exact ih (fun c' hc' => hcl c' (List.mem_cons_of_mem _ hc')) _ h1.1
      (runPCall_inUnit kb hw c q hs) (runPCall_snodup kb c q hn) h1.2

include hw hnd hU in
/-- the induction behind the termination theorems, for the loop WITH the early exit: `R` bounds the
number of rows that can still be created, `N` the number of sweeps that can still report more than
`eps`. The loop ends within `fuel > R + N` sweeps: converged, or left through the early exit. -/
theorem pInferQ_terminates_core (I : PState ι α → Prop) (query : Option ι)
    (hcl : ∀ q, I q → SInUnit q.st → SNodup q.st → Inside U q.st →
      I (runPCalls kb down (runPCalls kb up q).1).1 ∧
        Inside U (runPCalls kb down (runPCalls kb up q).1).1.st) :
    ∀ (fuel R N : Nat) (p : PState ι α), I p → SInUnit p.st → SNodup p.st → Inside U p.st →
      U.length - nGroundings nodes p.st ≤ R → Φ U kb p.st + U.length < N * eps → R + N < fuel →
      (pInferQ kb nodes up down eps query fuel p).converged = true ∨
        fQueryStop kb query (pInferQ kb nodes up down eps query fuel p).state.st = true := by
  intro fuel
  induction fuel with
  | zero => intro R N p _ _ _ _ _ _ h; omega
  | succ n ih =>
    intro R N p hi hs hn hin hR hN hfuel
    cases hq : fQueryStop kb query p.st with
    | true =>
      right
      rw [pInferQ_succ_stop kb nodes up down eps query n p hq]
      exact hq
    | false =>
    by_cases hc : (runPCalls kb up p).2 + (runPCalls kb down (runPCalls kb up p).1).2 ≤ eps ∧
        nGroundings nodes (runPCalls kb down (runPCalls kb up p).1).1.st = nGroundings nodes p.st
    · exact Or.inl (pInferQ_succ_pos kb nodes up down eps query n p hq hc)
    · obtain ⟨e1', e2'⟩ := pInferQ_succ_neg kb nodes up down eps query n p hq hc
      rw [e1', e2']
      have hsu := runPCalls_inUnit kb hw up p hs
      have hsd := runPCalls_inUnit kb hw down _ hsu
      have hnd' := runPCalls_snodup kb down _ (runPCalls_snodup kb up p hn)
      obtain ⟨hid, hind⟩ := hcl p hi hs hn hin
      have hinu : Inside U (runPCalls kb up p).1.st := inside_of_runPCalls kb down _ hind
      have e1 := runPCalls_amount_eq kb hw hU up p hs hinu
      have e2 := runPCalls_amount_eq kb hw hU down _ hsu hind
      have hmono : nGroundings nodes p.st ≤
          nGroundings nodes (runPCalls kb down (runPCalls kb up p).1).1.st :=
        le_trans (nGroundings_mono_p kb nodes up p) (nGroundings_mono_p kb nodes down _)
      have hle := nGroundings_le nodes hnd _ hnd' hind
      have h0u := runPCalls_amount_nonneg kb up p
      have h0d := runPCalls_amount_nonneg kb down (runPCalls kb up p).1
      by_cases h1 : (runPCalls kb up p).2 + (runPCalls kb down (runPCalls kb up p).1).2 ≤ eps
      · -- the sweep created a row
        have hne : nGroundings nodes (runPCalls kb down (runPCalls kb up p).1).1.st ≠
            nGroundings nodes p.st := fun e => hc ⟨h1, e⟩
        apply ih (R - 1) N _ hid hsd hnd' hind
        · omega
        · linarith
        · omega
      · -- the sweep reported more than `eps`
        have hgt := not_le.mp h1
        have hb := (phi_bounds kb hw U _ hsd).1
        have hN1 : 1 ≤ N := by
          rcases Nat.eq_zero_or_pos N with e | e
          · exfalso
            rw [e] at hN
            have := (phi_bounds kb hw U p.st hs).1
            simp only [Nat.cast_zero, zero_mul] at hN
            linarith
          · exact e
        apply ih R (N - 1) _ hid hsd hnd' hind
        · omega
        · rw [Nat.cast_sub hN1]
          push_cast
          linarith
        · omega

include hw hnd hU in
/-- **3a. Termination of the executed loop with the early exit**, relative to an invariant `I` of
the layered state that every call of the two schedules keeps: within any step limit
`fuel > (|U| - #rows stored) + N`, where `Φ U kb p.st + |U| < N · eps`, the loop has converged or
has been left because the query is classically resolved. -/
theorem pInferQ_terminates_inv (I : PState ι α → Prop) (query : Option ι)
    (hcl : ∀ c ∈ up ++ down, ∀ q, I q → SInUnit q.st → SNodup q.st → Inside U q.st →
      I (runPCall kb c q).1 ∧ Inside U (runPCall kb c q).1.st)
    (p : PState ι α) (hi : I p) (hs : SInUnit p.st) (hn : SNodup p.st) (hin : Inside U p.st)
    (N fuel : Nat) (hN : Φ U kb p.st + U.length < N * eps)
    (hfuel : U.length - nGroundings nodes p.st + N < fuel) :
    (pInferQ kb nodes up down eps query fuel p).converged = true ∨
      fQueryStop kb query (pInferQ kb nodes up down eps query fuel p).state.st = true := by
  refine pInferQ_terminates_core kb hw nodes hnd up down eps hU I query ?_ fuel _ N p hi hs hn hin
    le_rfl hN hfuel
  intro q hqi hqs hqn hqin
  have h1 := inside_runPCalls kb hw I up
    (fun c hc => hcl c (List.mem_append_left _ hc)) q hqi hqs hqn hqin
  exact inside_runPCalls kb hw I down (fun c hc => hcl c (List.mem_append_right _ hc)) _ h1.1
    (runPCalls_inUnit kb hw up q hqs) (runPCalls_snodup kb up q hqn) h1.2

include hw hnd hU in
/-- **3b. Termination of `pInferQ`** (closure of the universe over all layered states) -/
theorem pInferQ_terminates (query : Option ι)
    (hcl : ∀ c ∈ up ++ down, ∀ q : PState ι α, SInUnit q.st → SNodup q.st → Inside U q.st →
      Inside U (runPCall kb c q).1.st)
    (p : PState ι α) (hs : SInUnit p.st) (hn : SNodup p.st) (hin : Inside U p.st)
    (N fuel : Nat) (hN : Φ U kb p.st + U.length < N * eps)
    (hfuel : U.length - nGroundings nodes p.st + N < fuel) :
    (pInferQ kb nodes up down eps query fuel p).converged = true ∨
      fQueryStop kb query (pInferQ kb nodes up down eps query fuel p).state.st = true :=
  pInferQ_terminates_inv kb hw nodes hnd up down eps hU (fun _ => True) query
    (fun c hc q _ h1 h2 h3 => ⟨trivial, hcl c hc q h1 h2 h3⟩) p trivial hs hn hin N fuel hN hfuel

include hw hnd hU in
/-- **3c. Termination of the executed loop `pInfer`**, relative to an invariant `I` of the layered
state that every call of the two schedules keeps -/
theorem pInfer_terminates_inv (I : PState ι α → Prop)
    (hcl : ∀ c ∈ up ++ down, ∀ q, I q → SInUnit q.st → SNodup q.st → Inside U q.st →
      I (runPCall kb c q).1 ∧ Inside U (runPCall kb c q).1.st)
    (p : PState ι α) (hi : I p) (hs : SInUnit p.st) (hn : SNodup p.st) (hin : Inside U p.st)
    (N fuel : Nat) (hN : Φ U kb p.st + U.length < N * eps)
    (hfuel : U.length - nGroundings nodes p.st + N < fuel) :
    (pInfer kb nodes up down eps fuel p).converged = true := by
  have h := pInferQ_terminates_inv kb hw nodes hnd up down eps hU I none hcl p hi hs hn hin N fuel
    hN hfuel
  rw [pInferQ_none] at h
  rcases h with h | h
  · exact h
  · simp [fQueryStop] at h

include hw hnd hU in
/-- **3d. Termination of the executed loop `pInfer`.** Let `U` be a finite duplicate-free universe
of (formula, grounding) pairs that contains every stored row of `p.st` and is closed under every
layered call of the two schedules, `p.st` in range with every grounding stored once, `nodes`
duplicate-free. The pending lists are arbitrary: they need no bound of their own, because the
convergence test does not look at them and a pending grounding acts only by creating a row.
If `Φ U kb p.st + |U| < N · eps`, then `pInfer` converges within any step limit
`fuel > (|U| - #rows stored in p.st) + N`. -/
theorem pInfer_terminates
    (hcl : ∀ c ∈ up ++ down, ∀ q : PState ι α, SInUnit q.st → SNodup q.st → Inside U q.st →
      Inside U (runPCall kb c q).1.st)
    (p : PState ι α) (hs : SInUnit p.st) (hn : SNodup p.st) (hin : Inside U p.st)
    (N fuel : Nat) (hN : Φ U kb p.st + U.length < N * eps)
    (hfuel : U.length - nGroundings nodes p.st + N < fuel) :
    (pInfer kb nodes up down eps fuel p).converged = true :=
  pInfer_terminates_inv kb hw nodes hnd up down eps hU (fun _ => True)
    (fun c hc q _ h1 h2 h3 => ⟨trivial, hcl c hc q h1 h2 h3⟩) p trivial hs hn hin N fuel hN hfuel

include hw hnd hU in
/-- whatever the initial state: `2 |U| < N · eps` and `fuel > |U| + N` are enough -/
theorem pInfer_terminates_two_U
    (hcl : ∀ c ∈ up ++ down, ∀ q : PState ι α, SInUnit q.st → SNodup q.st → Inside U q.st →
      Inside U (runPCall kb c q).1.st)
    (p : PState ι α) (hs : SInUnit p.st) (hn : SNodup p.st) (hin : Inside U p.st)
    (N fuel : Nat) (hN : 2 * (U.length : α) < N * eps) (hfuel : U.length + N < fuel) :
    (pInfer kb nodes up down eps fuel p).converged = true := by
  apply pInfer_terminates kb hw nodes hnd up down eps hU hcl p hs hn hin N fuel
  · have := (phi_bounds kb hw U p.st hs).2
    linarith
  · omega

include hw hnd hU in
/-- over an Archimedean field (ℚ, ℝ) a sufficient step limit exists for every `eps > 0` -/
theorem pInfer_terminates_exists [Archimedean α] (heps : 0 < eps)
    (hcl : ∀ c ∈ up ++ down, ∀ q : PState ι α, SInUnit q.st → SNodup q.st → Inside U q.st →
      Inside U (runPCall kb c q).1.st)
    (p : PState ι α) (hs : SInUnit p.st) (hn : SNodup p.st) (hin : Inside U p.st) :
    ∃ fuel, (pInfer kb nodes up down eps fuel p).converged = true := by
  obtain ⟨N, hN⟩ := exists_nat_gt ((Φ U kb p.st + U.length) / eps)
  rw [div_lt_iff₀ heps] at hN
  exact ⟨U.length - nGroundings nodes p.st + N + 1,
    pInfer_terminates kb hw nodes hnd up down eps hU hcl p hs hn hin N _ hN (Nat.lt_succ_self _)⟩

/-- the early exit is reported as NOT converged: "`pInferQ … .converged = true`" is false as soon
as the query is classically resolved at the start (whatever the step limit) -/
theorem pInferQ_stop_not_converged (query : Option ι) (fuel : Nat) (p : PState ι α)
    (hq : fQueryStop kb query p.st = true) :
    (pInferQ kb nodes up down eps query fuel p).converged = false := by
  cases fuel with
  | zero => rfl
  | succ n => rw [pInferQ_succ_stop kb nodes up down eps query n p hq]

end term2

/-! ## 4. closure of a universe under layered calls -/

section closure

/-- every pending grounding satisfies `Q` -/
def LAll (Q : ι → Gr → Prop) (pend : List (ι × List Gr)) : Prop :=
  ∀ q ∈ pend, ∀ g ∈ q.2, Q q.1 g

/-- every pending grounding of the layered state satisfies `Q` -/
def PAll (Q : ι → Gr → Prop) (p : PState ι α) : Prop := LAll Q p.pend

variable {Q : ι → Gr → Prop}

theorem LAll.nil : LAll Q ([] : List (ι × List Gr)) := fun _ h => by simp at h

theorem LAll.find {pend : List (ι × List Gr)} (h : LAll Q pend) (i : ι) :
    ∀ g ∈ (match pend.find? (fun q => decide (q.1 = i)) with
      | some q => q.2
      | none => []), Q i g := by
  intro g hg
  split at hg
  · next q hq =>
    have h1 := List.find?_some hq
    have h2 := List.mem_of_find?_eq_some hq
    simp only [decide_eq_true_eq] at h1
    exact h1 ▸ h q h2 g hg
  · simp at hg

theorem PAll.pendOf {p : PState ι α} (h : PAll Q p) (i : ι) : ∀ g ∈ p.pendOf i, Q i g :=
  LAll.find h i

theorem LAll.setPend {pend : List (ι × List Gr)} (h : LAll Q pend) (i : ι) {gs : List Gr}
    (hgs : ∀ g ∈ gs, Q i g) : LAll Q (setPend pend i gs) := by
  intro q hq g hg
  unfold LNN.setPend at hq
  rcases List.mem_cons.mp hq with e | e
  · subst e; exact hgs g hg
  · exact h q (List.mem_filter.mp e).1 g hg

/-- `notePend` records rows of the tables after the call -/
theorem LAll.notePend (kb : FKB ι α) (i : ι) (s s' : FState ι α) {pend : List (ι × List Gr)}
    (h : LAll Q pend) (hs' : SAll Q s') : LAll Q (notePend kb i s s' pend) := by
  unfold LNN.notePend
  apply FolSound.foldl_inv (fun pend : List (ι × List Gr) => LAll Q pend) _ _ _ h
  intro b hb j _
  simp only
  split_ifs
  · exact hb
  · apply hb.setPend j
    intro g hg
    rcases List.mem_append.mp hg with hg | hg
    · exact LAll.find hb j g hg
    · exact hs' j g (List.mem_filter.mp hg).1
  · exact hb

/-- the rows `_propagate_groundings` creates: a pending grounding, extended by the values a stored
body row has in the quantified columns, read in the body's column order; as long as the first
stored body row -/
theorem mem_propagatedRows {n : FNode ι α} {pending bodyKeys : List Gr} {r : Gr}
    (h : r ∈ propagatedRows n pending bodyKeys) :
    ∃ g0 rest, bodyKeys = g0 :: rest ∧ ∃ a ∈ pending, ∃ g ∈ bodyKeys, ∃ qcols : List Nat,
      r = Rel.project (n.free ++ qcols) (a ++ qcols.map fun c => g.getD c 0)
        (List.range g0.length) := by
  unfold propagatedRows at h
  split at h
  · simp at h
  · next g0 rest =>
    refine ⟨g0, rest, rfl, ?_⟩
    simp only [List.mem_map, List.mem_flatMap] at h
    obtain ⟨m, ⟨a, ha, b, ⟨g, hg, rfl⟩, rfl⟩, rfl⟩ := h
    exact ⟨a, ha, g, hg, _, rfl⟩

theorem getD_mem {C : List Nat} (h0 : 0 ∈ C) {g : Gr} (hg : ∀ x ∈ g, x ∈ C) (c : Nat) :
    g.getD c 0 ∈ C := by
  rw [List.getD_eq_getElem?_getD]
  cases hk : g[c]? with
  | none => simpa using h0
  | some y => simpa using hg y (List.mem_of_getElem? hk)

variable (kb : FKB ι α) {nodes : List ι} {ar : ι → Nat} {C : List Nat} (h0 : 0 ∈ C)

include h0 in
/-- the propagated rows are tuples over the constants already present (and the padding constant
`0`), of the arity of the body -/
theorem qc_propagatedRows (i j : ι) (hj : j ∈ nodes) {pending bodyKeys : List Gr}
    (hp : ∀ a ∈ pending, QC nodes ar C i a) (hb : ∀ g ∈ bodyKeys, QC nodes ar C j g) :
    ∀ r ∈ propagatedRows (kb i) pending bodyKeys, QC nodes ar C j r := by
  intro r hr
  obtain ⟨g0, rest, e, a, ha, g, hg, qcols, rfl⟩ := mem_propagatedRows hr
  refine ⟨hj, ?_, ?_⟩
  · have := (hb g0 (e ▸ List.mem_cons_self ..)).2.1
    simpa [Rel.project] using this
  · apply project_mem h0
    intro x hx
    rcases List.mem_append.mp hx with hx | hx
    · exact (hp a ha).2.2 x hx
    · obtain ⟨c, _, rfl⟩ := List.mem_map.mp hx
      exact getD_mem h0 (hb g hg).2.2 c

include h0 in
/-- `preDown` stays inside the tuples over `C`, tables and pending lists -/
theorem sall_preDown (i : ι) (hops : ∀ j ∈ (kb i).ops, j ∈ nodes) (p : PState ι α)
    (h : SAll (QC nodes ar C) p.st) (hp : PAll (QC nodes ar C) p) :
    SAll (QC nodes ar C) (preDown kb i p).st ∧ PAll (QC nodes ar C) (preDown kb i p) := by
  rcases preDown_cases kb i p with e | ⟨j, rest, hj, _, e⟩
  · rw [e]; exact ⟨h, hp⟩
  · rw [e]
    have hs1 : SAll (QC nodes ar C) (p.st.set j (Table.addg (kb j).world (p.st.get j)
        (propagatedRows (kb i) (p.pendOf i) (p.st.get j).keys))) := by
      apply h.set
      apply tall_addg _ _ _ (h j)
      exact qc_propagatedRows kb h0 i j (hops j (by rw [hj]; exact List.mem_cons_self ..))
        (hp.pendOf i) (h j)
    refine ⟨hs1, ?_⟩
    exact LAll.notePend kb i _ _ (LAll.setPend hp i (by simp)) hs1

theorem pDown_pend (i : ι) (idx : Option Nat) (p : PState ι α) :
    (pDown kb i idx p).1.pend = notePend kb i (preDown kb i p).st
      (fDown kb i idx (preDown kb i p).st).1 (preDown kb i p).pend := rfl

include h0 in
/-- **4a. the all-tuples universe is closed under every layered call** on a well-formed formula:
tables and pending lists stay tuples of the right arity over `C` -/
theorem sall_runPCall (c : FCall ι) (wf : CallWF kb nodes ar (cnode c)) (p : PState ι α)
    (h : SAll (QC nodes ar C) p.st) (hp : PAll (QC nodes ar C) p) :
    SAll (QC nodes ar C) (runPCall kb c p).1.st ∧ PAll (QC nodes ar C) (runPCall kb c p).1 := by
  cases c with
  | up i =>
    have h1 : SAll (QC nodes ar C) (fUp kb i p.st).1 := sall_fUp kb h0 i wf p.st h
    exact ⟨h1, LAll.notePend kb i _ _ hp h1⟩
  | down i idx =>
    obtain ⟨h1, hp1⟩ := sall_preDown kb h0 i wf.ops p h hp
    have h2 : SAll (QC nodes ar C) (fDown kb i idx (preDown kb i p).st).1 :=
      sall_fDown kb h0 i wf _ h1 idx
    refine ⟨h2, ?_⟩
    show LAll _ (pDown kb i idx p).1.pend
    rw [pDown_pend]
    exact LAll.notePend kb i _ _ hp1 h2

end closure

/-- **4b. Termination of the executed loop on a knowledge base with finitely many constants**:
`C` a duplicate-free list of constants containing `0`, every call of the two schedules made on a
well-formed formula (`FolTerm.CallWF`), every stored row AND every pending grounding of `p` a tuple
of the right arity over `C` on a registered formula (true of `pend = []`). Then `pInfer` converges
within `|U| - #rows + N + 1` sweeps, `U = CU nodes ar C`, whenever `Φ U kb p.st + |U| < N · eps`. -/
theorem pInfer_terminates_constants (kb : FKB ι α) (hw : WorldsInUnit kb) (nodes : List ι)
    (hnd : nodes.Nodup) (up down : List (FCall ι)) (eps : α) (ar : ι → Nat) (C : List Nat)
    (hC : C.Nodup) (h0 : 0 ∈ C)
    (hwf : ∀ c ∈ up ++ down, CallWF kb nodes ar (cnode c))
    (p : PState ι α) (hs : SInUnit p.st) (hn : SNodup p.st) (hin : SAll (QC nodes ar C) p.st)
    (hpend : PAll (QC nodes ar C) p)
    (N fuel : Nat) (hN : Φ (CU nodes ar C) kb p.st + (CU nodes ar C).length < N * eps)
    (hfuel : (CU nodes ar C).length - nGroundings nodes p.st + N < fuel) :
    (pInfer kb nodes up down eps fuel p).converged = true := by
  have hiff : ∀ t : FState ι α, Inside (CU nodes ar C) t ↔ SAll (QC nodes ar C) t :=
    fun t => ⟨fun h i g hg => mem_CU.mp (h i g hg), fun h i g hg => mem_CU.mpr (h i g hg)⟩
  refine pInfer_terminates_inv kb hw nodes hnd up down eps (nodup_CU hnd ar hC)
    (PAll (QC nodes ar C)) ?_ p hpend hs hn ((hiff p.st).mpr hin) N fuel hN hfuel
  intro c hc q hqi _ _ hqin
  rw [hiff] at hqin ⊢
  obtain ⟨h1, h2⟩ := sall_runPCall kb h0 c (hwf c hc) q hqin hqi
  exact ⟨h2, h1⟩

/-- … with the early exit: converged, or left because the query is classically resolved -/
theorem pInferQ_terminates_constants (kb : FKB ι α) (hw : WorldsInUnit kb) (nodes : List ι)
    (hnd : nodes.Nodup) (up down : List (FCall ι)) (eps : α) (query : Option ι) (ar : ι → Nat)
    (C : List Nat) (hC : C.Nodup) (h0 : 0 ∈ C)
    (hwf : ∀ c ∈ up ++ down, CallWF kb nodes ar (cnode c))
    (p : PState ι α) (hs : SInUnit p.st) (hn : SNodup p.st) (hin : SAll (QC nodes ar C) p.st)
    (hpend : PAll (QC nodes ar C) p)
    (N fuel : Nat) (hN : Φ (CU nodes ar C) kb p.st + (CU nodes ar C).length < N * eps)
    (hfuel : (CU nodes ar C).length - nGroundings nodes p.st + N < fuel) :
    (pInferQ kb nodes up down eps query fuel p).converged = true ∨
      fQueryStop kb query (pInferQ kb nodes up down eps query fuel p).state.st = true := by
  have hiff : ∀ t : FState ι α, Inside (CU nodes ar C) t ↔ SAll (QC nodes ar C) t :=
    fun t => ⟨fun h i g hg => mem_CU.mp (h i g hg), fun h i g hg => mem_CU.mpr (h i g hg)⟩
  refine pInferQ_terminates_inv kb hw nodes hnd up down eps (nodup_CU hnd ar hC)
    (PAll (QC nodes ar C)) query ?_ p hpend hs hn ((hiff p.st).mpr hin) N fuel hN hfuel
  intro c hc q hqi _ _ hqin
  rw [hiff] at hqin ⊢
  obtain ⟨h1, h2⟩ := sall_runPCall kb h0 c (hwf c hc) q hqin hqi
  exact ⟨h2, h1⟩

/-- … and over an Archimedean field a sufficient step limit exists for every `eps > 0` -/
theorem pInfer_terminates_constants_exists [Archimedean α] (kb : FKB ι α) (hw : WorldsInUnit kb)
    (nodes : List ι) (hnd : nodes.Nodup) (up down : List (FCall ι)) (eps : α) (heps : 0 < eps)
    (ar : ι → Nat) (C : List Nat) (hC : C.Nodup) (h0 : 0 ∈ C)
    (hwf : ∀ c ∈ up ++ down, CallWF kb nodes ar (cnode c))
    (p : PState ι α) (hs : SInUnit p.st) (hn : SNodup p.st) (hin : SAll (QC nodes ar C) p.st)
    (hpend : PAll (QC nodes ar C) p) :
    ∃ fuel, (pInfer kb nodes up down eps fuel p).converged = true := by
  obtain ⟨N, hN⟩ := exists_nat_gt ((Φ (CU nodes ar C) kb p.st + (CU nodes ar C).length) / eps)
  rw [div_lt_iff₀ heps] at hN
  exact ⟨_, pInfer_terminates_constants kb hw nodes hnd up down eps ar C hC h0 hwf p hs hn hin
    hpend N _ hN (Nat.lt_succ_self _)⟩


/-! ## 5. non-vacuity -/

section examples

/-- node 0: a binary predicate `P(x, y)`; node 1: `∃y. P(x, y)` (free variable `x`: a PARTIALLY
quantified formula); node 2: `¬ ∃y. P(x, y)`, the parent that hands groundings of `x` to node 1 -/
def pKB : FKB Nat ℚ := fun i =>
  match i with
  | 1 => { kind := .ex, ops := [0], free := [0], bias := 1, alpha := 1, world := ⟨0, 1⟩ }
  | 2 => { kind := .neg, ops := [1], bias := 1, alpha := 1, world := ⟨0, 1⟩ }
  | _ => { kind := .pred, bias := 1, alpha := 1, world := ⟨0, 1⟩ }

/-- `P(0, 1)` is TRUE and `¬∃y. P(2, y)` is TRUE; nothing is pending -/
def pS : FState Nat ℚ :=
  ⟨[(0, [⟨[0, 1], ⟨1, 1⟩, ⟨1, 1⟩⟩]), (2, [⟨[2], ⟨1, 1⟩, ⟨1, 1⟩⟩])]⟩

def pP : PState Nat ℚ := ⟨pS, []⟩
def pUps : List (FCall Nat) := [.up 0, .up 1, .up 2]
def pDowns : List (FCall Nat) := [.down 2 none, .down 1 none, .down 0 none]
/-- `P` is binary, the other two formulae unary -/
def pAr : Nat → Nat := fun i => if i = 0 then 2 else 1

/-- the operand of node 2 is partially quantified: the layer is not the identity here -/
example : isPartialQuant (pKB 1) = true ∧ ¬ NoQuantParent pKB := by
  refine ⟨by decide, fun h => ?_⟩
  have := h 2 1 (by simp [pKB])
  simp [isPartialQuant, pKB] at this

theorem pKB_worlds : WorldsInUnit pKB := by
  intro i
  unfold pKB
  split <;> norm_num

theorem pS_get (i : Nat) : pS.get i = [] ∨ (i = 0 ∧ pS.get i = [⟨[0, 1], ⟨1, 1⟩, ⟨1, 1⟩⟩]) ∨
    (i = 2 ∧ pS.get i = [⟨[2], ⟨1, 1⟩, ⟨1, 1⟩⟩]) := by
  by_cases h0 : i = 0
  · subst h0; exact Or.inr (Or.inl ⟨rfl, rfl⟩)
  · by_cases h2 : i = 2
    · subst h2; exact Or.inr (Or.inr ⟨rfl, rfl⟩)
    · left
      have e0 : ¬ 0 = i := fun e => h0 e.symm
      have e2 : ¬ 2 = i := fun e => h2 e.symm
      simp [pS, FState.get, e0, e2]

theorem pS_inUnit : SInUnit pS := by
  intro i r hr
  rcases pS_get i with e | ⟨_, e⟩ | ⟨_, e⟩ <;> rw [e] at hr <;> simp at hr
  all_goals (subst hr; norm_num)

theorem pS_snodup : SNodup pS := by
  intro i
  rcases pS_get i with e | ⟨_, e⟩ | ⟨_, e⟩ <;> rw [e] <;> simp [Table.NodupKeys, Table.keys]

/-- the three constants `0, 1, 2` -/
theorem pS_sall : SAll (QC [0, 1, 2] pAr [0, 1, 2]) pS := by
  intro i g hg
  rcases pS_get i with e | ⟨rfl, e⟩ | ⟨rfl, e⟩ <;> rw [e] at hg <;> simp [Table.keys] at hg
  all_goals (subst hg; simp [QC, pAr])

theorem pKB_wf (c : FCall Nat) (hc : c ∈ pUps ++ pDowns) :
    CallWF pKB [0, 1, 2] pAr (cnode c) := by
  simp only [pUps, pDowns, List.cons_append, List.nil_append, List.mem_cons, List.not_mem_nil,
    or_false] at hc
  rcases hc with rfl | rfl | rfl | rfl | rfl | rfl <;>
    exact ⟨by simp [cnode], by simp [cnode, pKB], by simp [cnode, pKB, pAr],
      by simp [cnode, pKB, pAr], by simp [cnode, pKB]⟩

theorem pCU_length : (CU [0, 1, 2] pAr [0, 1, 2]).length = 15 := by decide

/-- every hypothesis of `pInfer_terminates_constants` is met on a knowledge base WITH a partially
quantified operand: `Φ + |U| ≤ 30 < 301 · (1/10)` and `|U| - #rows + 301 = 314 < 315` -/
example : (pInfer pKB [0, 1, 2] pUps pDowns (1/10) 315 pP).converged = true := by
  apply pInfer_terminates_constants pKB pKB_worlds [0, 1, 2] (by decide) pUps pDowns (1/10) pAr
    [0, 1, 2] (by decide) (by simp) pKB_wf pP pS_inUnit pS_snodup pS_sall LAll.nil 301 315
  · have h := (phi_bounds pKB pKB_worlds (CU [0, 1, 2] pAr [0, 1, 2]) pS pS_inUnit).2
    rw [pCU_length] at h ⊢
    show Φ (CU [0, 1, 2] pAr [0, 1, 2]) pKB pS + _ < _
    norm_num at h ⊢
    linarith
  · rw [pCU_length]
    simp [nGroundings, pP, pS, FState.get]

/-- the run itself (evaluated by the kernel): the first sweep reports 4 and creates 4 rows — among
them `P(2, 1)`, created by the PROPAGATION of the pending grounding `[2]` of node 1 through the
quantifier and then made FALSE by its downward call —, the second sweep reports 0 and creates
nothing -/
example :
    (pInfer pKB [0, 1, 2] pUps pDowns (1/10) 315 pP).converged = true ∧
    (pInfer pKB [0, 1, 2] pUps pDowns (1/10) 315 pP).steps = 2 ∧
    (pInfer pKB [0, 1, 2] pUps pDowns (1/10) 315 pP).total = 4 ∧
    (pInfer pKB [0, 1, 2] pUps pDowns (1/10) 315 pP).state.pend = [(1, [])] ∧
    Table.getD (pKB 0).world ((pInfer pKB [0, 1, 2] pUps pDowns (1/10) 315 pP).state.st.get 0)
      [2, 1] = ⟨0, 0⟩ := by
  decide +kernel

/-- the pending list in action: after the upward pass and the downward call of the negation the
grounding `[2]` is pending at node 1; the downward call of node 1 creates `P(2, 1)` (absent
before) and reports 1 — exactly the loss of potential, propagation contributing nothing -/
def pQ : PState Nat ℚ := (runPCalls pKB [.up 0, .up 1, .up 2, .down 2 none] pP).1

example : pQ.pend = [(1, [[2]])] ∧ Table.has (pQ.st.get 0) [2, 1] = false ∧
    Table.has ((runPCall pKB (.down 1 none) pQ).1.st.get 0) [2, 1] = true ∧
    (runPCall pKB (.down 1 none) pQ).2 = 1 := by
  decide +kernel

example : Φ (CU [0, 1, 2] pAr [0, 1, 2]) pKB pQ.st -
    Φ (CU [0, 1, 2] pAr [0, 1, 2]) pKB (runPCall pKB (.down 1 none) pQ).1.st = 1 := by
  have hq : SInUnit pQ.st ∧ SAll (QC [0, 1, 2] pAr [0, 1, 2]) pQ.st ∧
      PAll (QC [0, 1, 2] pAr [0, 1, 2]) pQ := by
    have h := inside_runPCalls pKB pKB_worlds (U := CU [0, 1, 2] pAr [0, 1, 2])
      (PAll (QC [0, 1, 2] pAr [0, 1, 2])) [.up 0, .up 1, .up 2, .down 2 none]
      (fun c hc q hqi _ _ hqin => by
        have hc' : c ∈ pUps ++ pDowns := by
          simp only [pUps, pDowns, List.cons_append, List.nil_append, List.mem_cons,
            List.not_mem_nil, or_false] at hc ⊢
          tauto
        have := sall_runPCall pKB (C := [0, 1, 2]) (by simp) c (pKB_wf c hc') q
          (fun i g hg => mem_CU.mp (hqin i g hg)) hqi
        exact ⟨this.2, fun i g hg => mem_CU.mpr (this.1 i g hg)⟩)
      pP LAll.nil pS_inUnit pS_snodup (fun i g hg => mem_CU.mpr (pS_sall i g hg))
    exact ⟨runPCalls_inUnit pKB pKB_worlds _ pP pS_inUnit,
      fun i g hg => mem_CU.mp (h.2 i g hg), h.1⟩
  have h1 := sall_runPCall pKB (C := [0, 1, 2]) (by simp) (.down 1 none)
    (pKB_wf _ (by simp [pUps, pDowns])) pQ hq.2.1 hq.2.2
  have h := runPCall_amount_eq pKB pKB_worlds (nodup_CU (by decide) pAr (by decide))
    (.down 1 none) pQ hq.1 (fun i g hg => mem_CU.mpr (h1.1 i g hg))
  rw [← h]
  decide +kernel

/-- the early exit on an instance: with a query that is classically resolved at the start
(`P()` TRUE, query = node 0) `pInferQ` reports `converged = false` at once, although the loop
without the exit converges (in 1 sweep); the disjunction of `pInferQ_terminates` is what holds -/
example :
    (pInferQ pKB [0, 1, 2] pUps pDowns (1/10) (some 0) 315
      ⟨⟨[(0, [⟨[], ⟨1, 1⟩, ⟨1, 1⟩⟩])]⟩, []⟩).converged = false ∧
    fQueryStop pKB (some 0) (pInferQ pKB [0, 1, 2] pUps pDowns (1/10) (some 0) 315
      ⟨⟨[(0, [⟨[], ⟨1, 1⟩, ⟨1, 1⟩⟩])]⟩, []⟩).state.st = true ∧
    (pInfer pKB [0, 1, 2] pUps pDowns (1/10) 315
      ⟨⟨[(0, [⟨[], ⟨1, 1⟩, ⟨1, 1⟩⟩])]⟩, []⟩).converged = true := by
  decide +kernel

end examples

end PendTerm
end LNN
