/-
The GROUNDING-RESTRICTED node-level calls of the first-order model (`upward(groundings=…)`,
`downward(groundings=…)`; `groundingsR`, `fUpConnR`, `fDownConnR`, `pUpR`, `pDownR` of
`Model/FolPend.lean`) have the same theory as the plain calls, for EVERY value of the restriction:

* the restricted grounding management only creates rows, at the world default of the formula that
  receives them, in the operator and its operands only (`groundingsR_state`, `groundingsR_induct`,
  `groundingsR_tightens`, `groundingsR_frame`, `groundingsR_only_world`,
  `groundingsR_read_unchanged`);
* the restricted calls only tighten and keep bounds in `[0,1]` (`fUpConnR_tightens`,
  `fDownConnR_tightens`, `pUpR_tightens`, `pDownR_tightens`);
* they touch only the operator and its operands (`fUpConnR_frame`, `fDownConnR_frame`);
* the amount they report is non-negative and is zero exactly when no query sees a change
  (`sstep_fUpConnR`, `sstep_fDownConnR`, `…_amount_nonneg`, `…_amount_zero_iff`).

No hypothesis beyond those of the plain calls is needed; in particular nothing is assumed about the
given groundings (duplicates, wrong arity, groundings no operand stores: all allowed).
-/
import LnnVerif.Model.FolPend
import LnnVerif.Lemmas.TableLemmas
import LnnVerif.Lemmas.FolSound
import LnnVerif.Lemmas.PendLemmas
import LnnVerif.Lemmas.FolMono
import LnnVerif.Lemmas.FolAmount
import Mathlib.Algebra.Order.Field.Rat
import Mathlib.Tactic.NormNum

set_option linter.unusedSectionVars false

namespace LNN
namespace FolRestrict

variable {ι : Type} [DecidableEq ι] {α : Type} [Field α] [LinearOrder α] [IsStrictOrderedRing α]

/-! ### 1. the restricted grounding management -/

/-- the state part of the restricted grounding management, unconditionally: rows are only created,
through `addAll` (so at world defaults), in the operands and in the operator -/
theorem groundingsR_state (kb : FKB ι α) (i : ι) (down : Bool) (restrict : Option (List Gr))
    (s : FState ι α) :
    (groundingsR kb i down restrict s).1 = s ∨ ∃ pairs ogs,
      (groundingsR kb i down restrict s).1 = addAll kb (addAll kb s pairs) [(i, ogs)] ∧
      ∀ p ∈ pairs, p.1 ∈ (kb i).ops := by
  cases restrict with
  | none => exact FolSound.groundings_state kb i down s
  | some gs0 =>
    unfold groundingsR
    simp only
    split
    · right
      refine ⟨_, _, rfl, ?_⟩
      intro p hp
      obtain ⟨j, hj, rfl⟩ := List.mem_map.mp hp
      exact hj
    · exact FolSound.groundings_state kb i down s

/-- whatever is true of every table and preserved by `addg` at the table's own world default holds
after the restricted grounding management (the analogue of `groundings_induct`) -/
theorem groundingsR_induct (kb : FKB ι α) (P : ι → Table α → Prop)
    (hP : ∀ j t gs, P j t → P j (Table.addg (kb j).world t gs))
    (i : ι) (down : Bool) (restrict : Option (List Gr)) (s : FState ι α)
    (h : ∀ j, P j (s.get j)) :
    ∀ j, P j ((groundingsR kb i down restrict s).1.get j) := by
  rcases groundingsR_state kb i down restrict s with e | ⟨pairs, ogs, e, _⟩
  · rw [e]; exact h
  · rw [e]; exact addAll_induct kb P hP _ _ (addAll_induct kb P hP _ _ h)

/-- restricted grounding management only creates rows, at world defaults -/
theorem groundingsR_tightens (kb : FKB ι α) (hw : WorldsInUnit kb) (i : ι) (down : Bool)
    (restrict : Option (List Gr)) (s : FState ι α) (hs : FState.InUnit s) :
    FState.Tightens s (groundingsR kb i down restrict s).1 ∧
      FState.InUnit (groundingsR kb i down restrict s).1 := by
  have key := groundingsR_induct kb (fun j t => Table.Tightens (s.get j) t ∧ Table.InUnit t)
    (fun j t gs h => ⟨h.1.trans (Table.Tightens.addg _ t gs), h.2.addg (hw j) gs⟩)
    i down restrict s (fun j => ⟨Table.Tightens.refl _, hs j⟩)
  exact ⟨fun j => (key j).1, fun j => (key j).2⟩

/-- it touches only the operator and its operands -/
theorem groundingsR_frame (kb : FKB ι α) (i : ι) (down : Bool) (restrict : Option (List Gr))
    (s : FState ι α) (j : ι) (hj : j ∉ i :: (kb i).ops) :
    (groundingsR kb i down restrict s).1.get j = s.get j := by
  rcases groundingsR_state kb i down restrict s with h | ⟨pairs, ogs, h, hp⟩
  · rw [h]
  · rw [h, FolSound.addAll_frame, FolSound.addAll_frame]
    · intro p hp' e
      exact hj (List.mem_cons_of_mem _ (e ▸ hp p hp'))
    · intro p hp' e
      simp only [List.mem_singleton] at hp'
      subst hp'
      exact hj (e ▸ List.mem_cons_self ..)

/-- every row it creates, in any formula's table, is a row at THAT formula's world default -/
theorem groundingsR_only_world (kb : FKB ι α) (i : ι) (down : Bool) (restrict : Option (List Gr))
    (s : FState ι α) :
    ∀ j, ∀ r ∈ (groundingsR kb i down restrict s).1.get j,
      r ∈ s.get j ∨ r = ⟨r.g, (kb j).world, (kb j).world⟩ := by
  apply groundingsR_induct kb
    (fun j t => ∀ r ∈ t, r ∈ s.get j ∨ r = ⟨r.g, (kb j).world, (kb j).world⟩)
  · intro j t gs ht r hr
    rcases Table.addg_only_world _ t gs r hr with h | h
    · exact ht r h
    · exact Or.inr h
  · intro j r hr; exact Or.inl hr

/-- … and it keeps every stored row as it is -/
theorem groundingsR_keeps (kb : FKB ι α) (i : ι) (down : Bool) (restrict : Option (List Gr))
    (s : FState ι α) :
    ∀ j g r, Table.find? (s.get j) g = some r →
      Table.find? ((groundingsR kb i down restrict s).1.get j) g = some r := by
  intro j g r h
  revert j
  apply groundingsR_induct kb
    (fun j t => Table.find? (s.get j) g = some r → Table.find? t g = some r)
  · intro j t gs ht h; exact Table.addg_keeps gs (ht h)
  · intro j h; exact h

/-- hence the value a query returns for any grounding of any formula is not changed by it: a
grounding created because it was requested reads exactly as it read when it was absent -/
theorem groundingsR_read_unchanged (kb : FKB ι α) (i : ι) (down : Bool)
    (restrict : Option (List Gr)) (s : FState ι α) :
    ∀ j g, Table.getD (kb j).world ((groundingsR kb i down restrict s).1.get j) g
      = Table.getD (kb j).world (s.get j) g := by
  intro j g
  revert j
  apply groundingsR_induct kb
    (fun j t => Table.getD (kb j).world t g = Table.getD (kb j).world (s.get j) g)
  · intro j t gs ht; rw [Table.getD_addg, ht]
  · intro j; rfl

/-! #### what the restriction does

A formula that is not a join-free connective ignores the restriction; a join-free (homogeneous)
connective creates exactly the requested groundings, in itself and in its operands. -/

theorem groundingsR_of_not_homogeneous (kb : FKB ι α) (i : ι) (down : Bool)
    (restrict : Option (List Gr)) (s : FState ι α) (hh : isHomogeneous (kb i) = false) :
    groundingsR kb i down restrict s = groundings kb i down s := by
  cases restrict with
  | none => rfl
  | some gs0 =>
    unfold groundingsR
    simp only
    rw [if_neg (by rw [hh]; exact Bool.false_ne_true)]

theorem groundingsR_some_of_homogeneous (kb : FKB ι α) (i : ι) (down : Bool) (gs0 : List Gr)
    (s : FState ι α) (hh : isHomogeneous (kb i) = true) :
    groundingsR kb i down (some gs0) s =
      (addAll kb (addAll kb s ((kb i).ops.map fun j => (j, dedupKeepFirst gs0)))
          [(i, dedupKeepFirst gs0)],
        some (dedupKeepFirst gs0, (kb i).ops.map fun _ => dedupKeepFirst gs0)) := by
  unfold groundingsR
  simp only
  rw [if_pos hh]

theorem addAll_keys_mono (kb : FKB ι α) (s : FState ι α) (pairs : List (ι × List Gr)) (j : ι)
    (g : Gr) (h : g ∈ Table.keys (s.get j)) : g ∈ Table.keys ((addAll kb s pairs).get j) := by
  revert h j
  apply addAll_induct kb (fun j t => g ∈ Table.keys (s.get j) → g ∈ Table.keys t)
  · intro j t gs ht h; exact Table.mem_keys_addg.mpr (Or.inl (ht h))
  · intro j h; exact h

theorem addAll_keys_mem (kb : FKB ι α) (s : FState ι α) (pairs : List (ι × List Gr))
    (p : ι × List Gr) (hp : p ∈ pairs) (g : Gr) (hg : g ∈ p.2) :
    g ∈ Table.keys ((addAll kb s pairs).get p.1) := by
  induction pairs generalizing s with
  | nil => cases hp
  | cons q ps ih =>
    have e : addAll kb s (q :: ps)
        = addAll kb (s.set q.1 (Table.addg (kb q.1).world (s.get q.1) q.2)) ps := rfl
    rw [e]
    rcases List.mem_cons.mp hp with h | h
    · subst h
      apply addAll_keys_mono
      rw [FState.get_set_self]
      exact Table.mem_keys_addg.mpr (Or.inr hg)
    · exact ih _ h

/-- the restriction is honoured by a join-free connective: after its grounding management a table
stores what it stored before and, if it is the table of the operator or of an operand, the
requested groundings — nothing else -/
theorem groundingsR_keys_some (kb : FKB ι α) (i : ι) (down : Bool) (gs0 : List Gr)
    (s : FState ι α) (hh : isHomogeneous (kb i) = true) (j : ι) (g : Gr) :
    g ∈ Table.keys ((groundingsR kb i down (some gs0) s).1.get j) ↔
      g ∈ Table.keys (s.get j) ∨ (j ∈ i :: (kb i).ops ∧ g ∈ gs0) := by
  rw [groundingsR_some_of_homogeneous kb i down gs0 s hh]
  simp only
  constructor
  · revert j
    have hstep : ∀ (ps : List (ι × List Gr)),
        (∀ p ∈ ps, p.1 ∈ i :: (kb i).ops ∧ p.2 = dedupKeepFirst gs0) →
        ∀ p ∈ ps, ∀ t : Table α,
          (g ∈ Table.keys t → g ∈ Table.keys (s.get p.1) ∨ (p.1 ∈ i :: (kb i).ops ∧ g ∈ gs0)) →
          (g ∈ Table.keys (Table.addg (kb p.1).world t p.2) →
            g ∈ Table.keys (s.get p.1) ∨ (p.1 ∈ i :: (kb i).ops ∧ g ∈ gs0)) := by
      intro ps hps p hp t ht hg
      rcases Table.mem_keys_addg.mp hg with h | h
      · exact ht h
      · rw [(hps p hp).2] at h
        exact Or.inr ⟨(hps p hp).1, FolSound.mem_of_mem_dedupKeepFirst _ _ h⟩
    apply FolSound.addAll_inv kb
      (fun j t => g ∈ Table.keys t → g ∈ Table.keys (s.get j) ∨ (j ∈ i :: (kb i).ops ∧ g ∈ gs0))
    · apply FolSound.addAll_inv kb
        (fun j t => g ∈ Table.keys t → g ∈ Table.keys (s.get j) ∨ (j ∈ i :: (kb i).ops ∧ g ∈ gs0))
      · intro j h; exact Or.inl h
      · apply hstep
        intro p hp
        obtain ⟨k, hk, rfl⟩ := List.mem_map.mp hp
        exact ⟨List.mem_cons_of_mem _ hk, rfl⟩
    · apply hstep
      intro p hp
      rw [List.mem_singleton] at hp
      subst hp
      exact ⟨List.mem_cons_self .., rfl⟩
  · rintro (h | ⟨hj, hg⟩)
    · exact addAll_keys_mono kb _ _ j g (addAll_keys_mono kb _ _ j g h)
    · have hg' : g ∈ dedupKeepFirst gs0 := (Quant.mem_dedupKeepFirst gs0 g).mpr hg
      rcases List.mem_cons.mp hj with e | e
      · subst e
        exact addAll_keys_mem kb _ [(j, dedupKeepFirst gs0)] (j, dedupKeepFirst gs0)
          (List.mem_singleton.mpr rfl) g hg'
      · apply addAll_keys_mono
        exact addAll_keys_mem kb s _ (j, dedupKeepFirst gs0)
          (List.mem_map.mpr ⟨j, e, rfl⟩) g hg'

/-! ### 2. the restricted calls only tighten -/

theorem fUpConnR_tightens (kb : FKB ι α) (hw : WorldsInUnit kb) (i : ι)
    (restrict : Option (List Gr)) (s : FState ι α) (hs : FState.InUnit s) :
    FState.Tightens s (fUpConnR kb i restrict s).1 ∧
      FState.InUnit (fUpConnR kb i restrict s).1 := by
  have hg := groundingsR_tightens kb hw i false restrict s hs
  unfold fUpConnR
  simp only
  split
  next s1 hgr => rw [hgr] at hg; exact hg
  next s1 ogs per hgr =>
    rw [hgr] at hg
    simp only at hg ⊢
    apply FState.tightens_set hg
    refine FolSound.foldl_inv
      (fun acc : Table α × α => Table.Tightens (s1.get i) acc.1 ∧ Table.InUnit acc.1) _ _ _ ?_ ?_
    · exact ⟨Table.Tightens.refl _, hg.2 i⟩
    · intro acc hacc x _
      exact aggRow_step hacc _ _ _

theorem fDownConnR_tightens (kb : FKB ι α) (hw : WorldsInUnit kb) (i : ι) (idx : Option Nat)
    (restrict : Option (List Gr)) (s : FState ι α) (hs : FState.InUnit s) :
    FState.Tightens s (fDownConnR kb i idx restrict s).1 ∧
      FState.InUnit (fDownConnR kb i idx restrict s).1 := by
  have hg := groundingsR_tightens kb hw i true restrict s hs
  unfold fDownConnR
  simp only
  split
  next s1 hgr => rw [hgr] at hg; exact hg
  next s1 ogs per hgr =>
    rw [hgr] at hg
    simp only at hg
    split
    · exact hg
    · apply FolSound.foldl_inv
        (fun acc : FState ι α × α => FState.Tightens s acc.1 ∧ FState.InUnit acc.1) _ _ _ hg
      intro acc hacc p _
      split
      · exact FState.tightens_set hacc _ _ (writeMerged_tightens _ _ (hacc.2 _))
      · exact hacc

/-- the tables under the pending-grounding layer are those of the calls underneath -/
theorem pUpR_st (kb : FKB ι α) (i : ι) (restrict : Option (List Gr)) (p : PState ι α) :
    (pUpR kb i restrict p).1.st =
      if isConn (kb i) then (fUpConnR kb i restrict p.st).1 else (pUp kb i p).1.st := by
  unfold pUpR
  split <;> rfl

theorem pUpR_amount (kb : FKB ι α) (i : ι) (restrict : Option (List Gr)) (p : PState ι α) :
    (pUpR kb i restrict p).2 =
      if isConn (kb i) then (fUpConnR kb i restrict p.st).2 else (pUp kb i p).2 := by
  unfold pUpR
  split <;> rfl

theorem pDownR_st (kb : FKB ι α) (i : ι) (idx : Option Nat) (restrict : Option (List Gr))
    (p : PState ι α) :
    (pDownR kb i idx restrict p).1.st =
      if isConn (kb i) then (fDownConnR kb i idx restrict p.st).1 else (pDown kb i idx p).1.st := by
  unfold pDownR
  split <;> rfl

theorem pDownR_amount (kb : FKB ι α) (i : ι) (idx : Option Nat) (restrict : Option (List Gr))
    (p : PState ι α) :
    (pDownR kb i idx restrict p).2 =
      if isConn (kb i) then (fDownConnR kb i idx restrict p.st).2 else (pDown kb i idx p).2 := by
  unfold pDownR
  split <;> rfl

theorem pUpR_tightens (kb : FKB ι α) (hw : WorldsInUnit kb) (i : ι) (restrict : Option (List Gr))
    (p : PState ι α) (hs : FState.InUnit p.st) :
    FState.Tightens p.st (pUpR kb i restrict p).1.st ∧
      FState.InUnit (pUpR kb i restrict p).1.st := by
  rw [pUpR_st]
  split
  · exact fUpConnR_tightens kb hw i restrict p.st hs
  · exact pUp_tightens kb hw i p hs

theorem pDownR_tightens (kb : FKB ι α) (hw : WorldsInUnit kb) (i : ι) (idx : Option Nat)
    (restrict : Option (List Gr)) (p : PState ι α) (hs : FState.InUnit p.st) :
    FState.Tightens p.st (pDownR kb i idx restrict p).1.st ∧
      FState.InUnit (pDownR kb i idx restrict p).1.st := by
  rw [pDownR_st]
  split
  · exact fDownConnR_tightens kb hw i idx restrict p.st hs
  · exact pDown_tightens kb hw i idx p hs

/-! #### the calls write working bounds only

After the grounding management the restricted calls only overwrite working bounds of stored rows
(`Table.setB`): in particular they store exactly the groundings the grounding management left. -/

theorem fUpConnR_induct (kb : FKB ι α) (i : ι) (restrict : Option (List Gr)) (s : FState ι α)
    (P : ι → Table α → Prop) (hset : ∀ j t g b, P j t → P j (Table.setB t g b))
    (h : ∀ j, P j ((groundingsR kb i false restrict s).1.get j)) :
    ∀ j, P j ((fUpConnR kb i restrict s).1.get j) := by
  unfold fUpConnR
  simp only
  split
  next s1 hgr => rw [hgr] at h; exact h
  next s1 ogs per hgr =>
    rw [hgr] at h
    simp only at h ⊢
    intro j
    rw [FState.get_set]
    split
    next e =>
      subst e
      apply FolSound.foldl_inv (fun acc : Table α × α => P j acc.1) _ _ _ (h j)
      intro acc hacc x _
      exact Table.aggRow_induct (P j) (hset j) _ _ _ _ hacc
    next => exact h j

theorem fDownConnR_induct (kb : FKB ι α) (i : ι) (idx : Option Nat) (restrict : Option (List Gr))
    (s : FState ι α) (P : ι → Table α → Prop) (hset : ∀ j t g b, P j t → P j (Table.setB t g b))
    (h : ∀ j, P j ((groundingsR kb i true restrict s).1.get j)) :
    ∀ j, P j ((fDownConnR kb i idx restrict s).1.get j) := by
  unfold fDownConnR
  simp only
  split
  next s1 hgr => rw [hgr] at h; exact h
  next s1 ogs per hgr =>
    rw [hgr] at h
    simp only at h
    split
    · exact h
    · apply FolSound.foldl_inv (fun acc : FState ι α × α => ∀ j, P j (acc.1.get j)) _ _ _ h
      intro acc hacc p _
      split
      · intro j
        simp only
        rw [FState.get_set]
        split
        next e =>
          subst e
          exact Table.writeMerged_induct (P _) (hset _) _ _ (hacc _)
        next => exact hacc j
      · exact hacc

/-- the restricted upward call stores exactly the groundings its grounding management left -/
theorem fUpConnR_keys (kb : FKB ι α) (i : ι) (restrict : Option (List Gr)) (s : FState ι α)
    (j : ι) :
    Table.keys ((fUpConnR kb i restrict s).1.get j) =
      Table.keys ((groundingsR kb i false restrict s).1.get j) := by
  revert j
  apply fUpConnR_induct kb i restrict s
    (fun j t => Table.keys t = Table.keys ((groundingsR kb i false restrict s).1.get j))
  · intro j t g b ht; rw [Table.keys_setB, ht]
  · intro j; rfl

theorem fDownConnR_keys (kb : FKB ι α) (i : ι) (idx : Option Nat) (restrict : Option (List Gr))
    (s : FState ι α) (j : ι) :
    Table.keys ((fDownConnR kb i idx restrict s).1.get j) =
      Table.keys ((groundingsR kb i true restrict s).1.get j) := by
  revert j
  apply fDownConnR_induct kb i idx restrict s
    (fun j t => Table.keys t = Table.keys ((groundingsR kb i true restrict s).1.get j))
  · intro j t g b ht; rw [Table.keys_setB, ht]
  · intro j; rfl

/-- **the restriction is honoured**: a restricted upward call of a join-free connective creates
exactly the requested groundings (in the operator and its operands) and no other -/
theorem fUpConnR_keys_some (kb : FKB ι α) (i : ι) (gs0 : List Gr) (s : FState ι α)
    (hh : isHomogeneous (kb i) = true) (j : ι) (g : Gr) :
    g ∈ Table.keys ((fUpConnR kb i (some gs0) s).1.get j) ↔
      g ∈ Table.keys (s.get j) ∨ (j ∈ i :: (kb i).ops ∧ g ∈ gs0) := by
  rw [fUpConnR_keys, groundingsR_keys_some kb i false gs0 s hh]

theorem fDownConnR_keys_some (kb : FKB ι α) (i : ι) (idx : Option Nat) (gs0 : List Gr)
    (s : FState ι α) (hh : isHomogeneous (kb i) = true) (j : ι) (g : Gr) :
    g ∈ Table.keys ((fDownConnR kb i idx (some gs0) s).1.get j) ↔
      g ∈ Table.keys (s.get j) ∨ (j ∈ i :: (kb i).ops ∧ g ∈ gs0) := by
  rw [fDownConnR_keys, groundingsR_keys_some kb i true gs0 s hh]

/-- a connective that is not join-free ignores the restriction -/
theorem fUpConnR_of_not_homogeneous (kb : FKB ι α) (i : ι) (restrict : Option (List Gr))
    (s : FState ι α) (hh : isHomogeneous (kb i) = false) :
    fUpConnR kb i restrict s = fUpConn kb i s := by
  unfold fUpConnR fUpConn
  rw [groundingsR_of_not_homogeneous kb i false restrict s hh]
  rfl

theorem fDownConnR_of_not_homogeneous (kb : FKB ι α) (i : ι) (idx : Option Nat)
    (restrict : Option (List Gr)) (s : FState ι α) (hh : isHomogeneous (kb i) = false) :
    fDownConnR kb i idx restrict s = fDownConn kb i idx s := by
  unfold fDownConnR fDownConn
  rw [groundingsR_of_not_homogeneous kb i true restrict s hh]
  rfl

/-! ### 3. frame -/

theorem fUpConnR_frame (kb : FKB ι α) (i : ι) (restrict : Option (List Gr)) (s : FState ι α)
    (j : ι) (hj : j ∉ i :: (kb i).ops) : (fUpConnR kb i restrict s).1.get j = s.get j := by
  have hg := groundingsR_frame kb i false restrict s j hj
  unfold fUpConnR
  simp only
  split
  next s1 hgr => rw [hgr] at hg; exact hg
  next s1 ogs per hgr =>
    rw [hgr] at hg
    simp only
    rw [FolSound.get_set_ne _ _ _ _
      (fun e : j = i => hj (by rw [e]; exact List.mem_cons_self ..))]
    exact hg

theorem fDownConnR_frame (kb : FKB ι α) (i : ι) (idx : Option Nat) (restrict : Option (List Gr))
    (s : FState ι α) (j : ι) (hj : j ∉ i :: (kb i).ops) :
    (fDownConnR kb i idx restrict s).1.get j = s.get j := by
  have hg := groundingsR_frame kb i true restrict s j hj
  unfold fDownConnR
  simp only
  split
  next s1 hgr => rw [hgr] at hg; exact hg
  next s1 ogs per hgr =>
    rw [hgr] at hg
    simp only at hg
    split
    · exact hg
    · apply FolSound.foldl_inv (fun acc : FState ι α × α => acc.1.get j = s.get j) _ _ _ hg
      intro acc hacc p hp
      split
      · simp only
        have hp2 : p.2 ∈ (kb i).ops := (List.of_mem_zip (show (p.1, p.2) ∈ _ from hp)).2
        rw [FolSound.get_set_ne _ _ _ _
          (fun e : j = p.2 => hj (by rw [e]; exact List.mem_cons_of_mem _ hp2))]
        exact hacc
      · exact hacc

/-! ### 4. amounts -/

/-- restricted grounding management only creates rows at world defaults: a step that reports
nothing and changes no reading -/
theorem sstep_groundingsR (kb : FKB ι α) (i : ι) (down : Bool) (restrict : Option (List Gr))
    (s : FState ι α) : FolAmount.SStep kb s (groundingsR kb i down restrict s).1 0 :=
  FolAmount.Step.of_same
    (fun h => ⟨h.1, groundingsR_induct kb (fun _ t => FolAmount.TInUnit t)
      (fun j _ gs ht => ht.addg (h.1 j) gs) i down restrict s h.2⟩)
    (fun k => groundingsR_read_unchanged kb i down restrict s k.1 k.2)

theorem sstep_fUpConnR (kb : FKB ι α) (i : ι) (restrict : Option (List Gr)) (s : FState ι α) :
    FolAmount.SStep kb s (fUpConnR kb i restrict s).1 (fUpConnR kb i restrict s).2 := by
  have hg := sstep_groundingsR kb i false restrict s
  unfold fUpConnR
  simp only
  split
  next s1 hgr => rw [hgr] at hg; exact hg
  next s1 ogs per hgr =>
    rw [hgr] at hg
    simp only at hg ⊢
    refine (hg.trans (FolAmount.sstep_set kb s1 i ?_)).cast (zero_add _)
    exact FolAmount.tstep_foldAgg _ (fun it : Gr × Bounds α => it.1) (fun it => it.2) .both _ _
      (_, 0) (FolAmount.Step.refl _ _ _)

theorem sstep_fDownConnR (kb : FKB ι α) (i : ι) (idx : Option Nat) (restrict : Option (List Gr))
    (s : FState ι α) :
    FolAmount.SStep kb s (fDownConnR kb i idx restrict s).1 (fDownConnR kb i idx restrict s).2 := by
  have hg := sstep_groundingsR kb i true restrict s
  unfold fDownConnR
  simp only
  split
  next s1 hgr => rw [hgr] at hg; exact hg
  next s1 ogs per hgr =>
    rw [hgr] at hg
    simp only at hg
    split
    · exact hg
    · apply FolSound.foldl_inv
        (fun acc : FState ι α × α => FolAmount.SStep kb s acc.1 acc.2) _ _ _ hg
      intro acc hacc p _
      split
      · exact hacc.trans (FolAmount.sstep_set kb acc.1 p.2 (FolAmount.tstep_writeMerged _ _ _))
      · exact hacc

theorem fUpConnR_amount_nonneg (kb : FKB ι α) (i : ι) (restrict : Option (List Gr))
    (s : FState ι α) : 0 ≤ (fUpConnR kb i restrict s).2 :=
  (sstep_fUpConnR kb i restrict s).nonneg

theorem fDownConnR_amount_nonneg (kb : FKB ι α) (i : ι) (idx : Option Nat)
    (restrict : Option (List Gr)) (s : FState ι α) : 0 ≤ (fDownConnR kb i idx restrict s).2 :=
  (sstep_fDownConnR kb i idx restrict s).nonneg

/-- the in-range invariant (in the vocabulary of `FolAmount`) is kept -/
theorem fUpConnR_inUnit (kb : FKB ι α) (hw : FolAmount.WorldsInUnit kb) (i : ι)
    (restrict : Option (List Gr)) (s : FState ι α) (hs : FolAmount.SInUnit s) :
    FolAmount.SInUnit (fUpConnR kb i restrict s).1 :=
  (sstep_fUpConnR kb i restrict s).inUnit hw hs

theorem fDownConnR_inUnit (kb : FKB ι α) (hw : FolAmount.WorldsInUnit kb) (i : ι)
    (idx : Option Nat) (restrict : Option (List Gr)) (s : FState ι α) (hs : FolAmount.SInUnit s) :
    FolAmount.SInUnit (fDownConnR kb i idx restrict s).1 :=
  (sstep_fDownConnR kb i idx restrict s).inUnit hw hs

/-- what a query returns only tightens -/
theorem fUpConnR_readsTighter (kb : FKB ι α) (hw : FolAmount.WorldsInUnit kb) (i : ι)
    (restrict : Option (List Gr)) (s : FState ι α) (hs : FolAmount.SInUnit s) :
    FolAmount.ReadsTighter kb s (fUpConnR kb i restrict s).1 :=
  (sstep_fUpConnR kb i restrict s).readsTighter hw hs

theorem fDownConnR_readsTighter (kb : FKB ι α) (hw : FolAmount.WorldsInUnit kb) (i : ι)
    (idx : Option Nat) (restrict : Option (List Gr)) (s : FState ι α) (hs : FolAmount.SInUnit s) :
    FolAmount.ReadsTighter kb s (fDownConnR kb i idx restrict s).1 :=
  (sstep_fDownConnR kb i idx restrict s).readsTighter hw hs

/-- MAIN (upward): the amount reported by the restricted call is zero exactly when no query sees a
change -/
theorem fUpConnR_amount_zero_iff (kb : FKB ι α) (hw : FolAmount.WorldsInUnit kb) (i : ι)
    (restrict : Option (List Gr)) (s : FState ι α) (hs : FolAmount.SInUnit s) :
    (fUpConnR kb i restrict s).2 = 0 ↔ FolAmount.SameReads kb s (fUpConnR kb i restrict s).1 :=
  (sstep_fUpConnR kb i restrict s).sameReads_iff hw hs

/-- MAIN (downward) -/
theorem fDownConnR_amount_zero_iff (kb : FKB ι α) (hw : FolAmount.WorldsInUnit kb) (i : ι)
    (idx : Option Nat) (restrict : Option (List Gr)) (s : FState ι α) (hs : FolAmount.SInUnit s) :
    (fDownConnR kb i idx restrict s).2 = 0 ↔
      FolAmount.SameReads kb s (fDownConnR kb i idx restrict s).1 :=
  (sstep_fDownConnR kb i idx restrict s).sameReads_iff hw hs

/-! #### the same under the pending-grounding layer -/

/-- what `pDown` does before the call underneath (`_propagate_groundings`) only creates rows at the
world default of the body -/
theorem sstep_preDown (kb : FKB ι α) (i : ι) (p : PState ι α) :
    FolAmount.SStep kb p.st (preDown kb i p).st 0 :=
  FolAmount.Step.of_same
    (fun h => ⟨h.1, (preDown_tightens kb h.1 i p h.2).2⟩)
    (fun k => preDown_read kb i p k.1 k.2)

theorem sstep_pUpR (kb : FKB ι α) (i : ι) (restrict : Option (List Gr)) (p : PState ι α) :
    FolAmount.SStep kb p.st (pUpR kb i restrict p).1.st (pUpR kb i restrict p).2 := by
  unfold pUpR
  split
  · exact sstep_fUpConnR kb i restrict p.st
  · exact FolAmount.sstep_fUp kb i p.st

theorem sstep_pDownR (kb : FKB ι α) (i : ι) (idx : Option Nat) (restrict : Option (List Gr))
    (p : PState ι α) :
    FolAmount.SStep kb p.st (pDownR kb i idx restrict p).1.st (pDownR kb i idx restrict p).2 := by
  unfold pDownR
  split
  · exact sstep_fDownConnR kb i idx restrict p.st
  · exact ((sstep_preDown kb i p).trans
      (FolAmount.sstep_fDown kb i (preDown kb i p).st idx)).cast (zero_add _)

theorem pUpR_amount_nonneg (kb : FKB ι α) (i : ι) (restrict : Option (List Gr)) (p : PState ι α) :
    0 ≤ (pUpR kb i restrict p).2 :=
  (sstep_pUpR kb i restrict p).nonneg

theorem pDownR_amount_nonneg (kb : FKB ι α) (i : ι) (idx : Option Nat)
    (restrict : Option (List Gr)) (p : PState ι α) : 0 ≤ (pDownR kb i idx restrict p).2 :=
  (sstep_pDownR kb i idx restrict p).nonneg

theorem pUpR_amount_zero_iff (kb : FKB ι α) (hw : FolAmount.WorldsInUnit kb) (i : ι)
    (restrict : Option (List Gr)) (p : PState ι α) (hs : FolAmount.SInUnit p.st) :
    (pUpR kb i restrict p).2 = 0 ↔ FolAmount.SameReads kb p.st (pUpR kb i restrict p).1.st :=
  (sstep_pUpR kb i restrict p).sameReads_iff hw hs

theorem pDownR_amount_zero_iff (kb : FKB ι α) (hw : FolAmount.WorldsInUnit kb) (i : ι)
    (idx : Option Nat) (restrict : Option (List Gr)) (p : PState ι α)
    (hs : FolAmount.SInUnit p.st) :
    (pDownR kb i idx restrict p).2 = 0 ↔
      FolAmount.SameReads kb p.st (pDownR kb i idx restrict p).1.st :=
  (sstep_pDownR kb i idx restrict p).sameReads_iff hw hs

/-! ### 5. non-vacuity -/

section examples

/-- predicates `P` (formula `0`) and `Q` (formula `1`), and the join-free conjunction
`P(x) ∧ Q(x)` (formula `2`: both operands carry the operator's variable tuple) -/
private def exKB : FKB Nat ℚ := fun i =>
  match i with
  | 2 => { kind := .and, ops := [0, 1], ws := [1, 1], bias := 1, alpha := 1,
           opmap := [[0], [0]], world := ⟨0, 1⟩ }
  | _ => { kind := .pred, bias := 1, alpha := 1, world := ⟨0, 1⟩ }

/-- `P(0)`, `P(1)`, `Q(0)`, `Q(1)` are TRUE; the conjunction has no row yet -/
private def exS : FState Nat ℚ :=
  ⟨[(0, [⟨[0], ⟨1, 1⟩, ⟨1, 1⟩⟩, ⟨[1], ⟨1, 1⟩, ⟨1, 1⟩⟩]),
    (1, [⟨[0], ⟨1, 1⟩, ⟨1, 1⟩⟩, ⟨[1], ⟨1, 1⟩, ⟨1, 1⟩⟩])]⟩

/-- the conjunction is TRUE at `[0]` and `[1]`; `P` and `Q` are stored at UNKNOWN -/
private def exS' : FState Nat ℚ :=
  ⟨[(0, [⟨[0], ⟨0, 1⟩, ⟨0, 1⟩⟩, ⟨[1], ⟨0, 1⟩, ⟨0, 1⟩⟩]),
    (1, [⟨[0], ⟨0, 1⟩, ⟨0, 1⟩⟩, ⟨[1], ⟨0, 1⟩, ⟨0, 1⟩⟩]),
    (2, [⟨[0], ⟨1, 1⟩, ⟨1, 1⟩⟩, ⟨[1], ⟨1, 1⟩, ⟨1, 1⟩⟩])]⟩

private theorem exKB_worlds : WorldsInUnit exKB := by
  intro i
  unfold exKB
  split <;> norm_num

private theorem inUnit_of_all (s : FState Nat ℚ)
    (h : ∀ p ∈ s.tabs, ∀ r ∈ p.2, 0 ≤ r.b.lo ∧ r.b.lo ≤ 1 ∧ 0 ≤ r.b.hi ∧ r.b.hi ≤ 1) :
    FState.InUnit s := by
  intro i r hr
  unfold FState.get at hr
  split at hr
  next p hp => exact h p (List.mem_of_find?_eq_some hp) r hr
  next => cases hr

private theorem exS_inUnit : FState.InUnit exS := by
  apply inUnit_of_all
  intro p hp r hr
  simp only [exS, List.mem_cons, List.not_mem_nil, or_false] at hp
  rcases hp with rfl | rfl <;>
    (simp only [List.mem_cons, List.not_mem_nil, or_false] at hr
     rcases hr with rfl | rfl <;> norm_num)

private theorem exS'_inUnit : FState.InUnit exS' := by
  apply inUnit_of_all
  intro p hp r hr
  simp only [exS', List.mem_cons, List.not_mem_nil, or_false] at hp
  rcases hp with rfl | rfl | rfl <;>
    (simp only [List.mem_cons, List.not_mem_nil, or_false] at hr
     rcases hr with rfl | rfl <;> norm_num)

/-- UPWARD. Restricted to `[1]`, the call creates and evaluates only grounding `[1]` of the
conjunction (its table has exactly that key, it becomes TRUE, `[0]` still reads UNKNOWN, the call
reports `1`); the plain call evaluates both groundings (and reports `2`). -/
example :
    isHomogeneous (exKB 2) = true ∧
    Table.keys ((fUpConnR exKB 2 (some [[1]]) exS).1.get 2) = [[1]] ∧
    Table.getD ⟨0, 1⟩ ((fUpConnR exKB 2 (some [[1]]) exS).1.get 2) [1] = ⟨1, 1⟩ ∧
    Table.getD ⟨0, 1⟩ ((fUpConnR exKB 2 (some [[1]]) exS).1.get 2) [0] = ⟨0, 1⟩ ∧
    (fUpConnR exKB 2 (some [[1]]) exS).2 = 1 ∧
    Table.keys ((fUpConn exKB 2 exS).1.get 2) = [[0], [1]] ∧
    Table.getD ⟨0, 1⟩ ((fUpConn exKB 2 exS).1.get 2) [0] = ⟨1, 1⟩ ∧
    Table.getD ⟨0, 1⟩ ((fUpConn exKB 2 exS).1.get 2) [1] = ⟨1, 1⟩ ∧
    (fUpConn exKB 2 exS).2 = 2 := by
  decide +kernel

/-- a requested grounding that nobody stores (given twice) is created once, at the world default,
in the operands and in the operator; nothing is learnt, the call reports `0` -/
example :
    Table.keys ((fUpConnR exKB 2 (some [[7], [7]]) exS).1.get 0) = [[0], [1], [7]] ∧
    Table.keys ((fUpConnR exKB 2 (some [[7], [7]]) exS).1.get 1) = [[0], [1], [7]] ∧
    Table.keys ((fUpConnR exKB 2 (some [[7], [7]]) exS).1.get 2) = [[7]] ∧
    Table.getD ⟨0, 1⟩ ((fUpConnR exKB 2 (some [[7], [7]]) exS).1.get 2) [7] = ⟨0, 1⟩ ∧
    (fUpConnR exKB 2 (some [[7], [7]]) exS).2 = 0 := by
  decide +kernel

/-- DOWNWARD. Restricted to `[1]`, only `P(1)` and `Q(1)` are tightened (to TRUE; the call reports
`2`), `P(0)` and `Q(0)` stay UNKNOWN; the plain call tightens all four (and reports `4`). -/
example :
    Table.getD ⟨0, 1⟩ ((fDownConnR exKB 2 none (some [[1]]) exS').1.get 0) [1] = ⟨1, 1⟩ ∧
    Table.getD ⟨0, 1⟩ ((fDownConnR exKB 2 none (some [[1]]) exS').1.get 1) [1] = ⟨1, 1⟩ ∧
    Table.getD ⟨0, 1⟩ ((fDownConnR exKB 2 none (some [[1]]) exS').1.get 0) [0] = ⟨0, 1⟩ ∧
    Table.getD ⟨0, 1⟩ ((fDownConnR exKB 2 none (some [[1]]) exS').1.get 1) [0] = ⟨0, 1⟩ ∧
    (fDownConnR exKB 2 none (some [[1]]) exS').2 = 2 ∧
    Table.getD ⟨0, 1⟩ ((fDownConn exKB 2 none exS').1.get 0) [0] = ⟨1, 1⟩ ∧
    Table.getD ⟨0, 1⟩ ((fDownConn exKB 2 none exS').1.get 1) [0] = ⟨1, 1⟩ ∧
    (fDownConn exKB 2 none exS').2 = 4 := by
  decide +kernel

/-- the hypotheses of the theorems are satisfiable, and this is what they say of the restricted
calls above: they tighten, stay in range, and — having reported a non-zero amount — changed
something a query can see -/
example :
    (FState.Tightens exS (fUpConnR exKB 2 (some [[1]]) exS).1 ∧
      FState.InUnit (fUpConnR exKB 2 (some [[1]]) exS).1) ∧
    (FState.Tightens exS' (fDownConnR exKB 2 none (some [[1]]) exS').1 ∧
      FState.InUnit (fDownConnR exKB 2 none (some [[1]]) exS').1) ∧
    ¬ FolAmount.SameReads exKB exS (fUpConnR exKB 2 (some [[1]]) exS).1 ∧
    ¬ FolAmount.SameReads exKB exS' (fDownConnR exKB 2 none (some [[1]]) exS').1 := by
  refine ⟨fUpConnR_tightens exKB exKB_worlds 2 _ exS exS_inUnit,
    fDownConnR_tightens exKB exKB_worlds 2 none _ exS' exS'_inUnit, fun h => ?_, fun h => ?_⟩
  · have h0 := (fUpConnR_amount_zero_iff exKB exKB_worlds 2 (some [[1]]) exS exS_inUnit).mpr h
    have h1 : (fUpConnR exKB 2 (some [[1]]) exS).2 = 1 := by decide +kernel
    rw [h1] at h0
    norm_num at h0
  · have h0 := (fDownConnR_amount_zero_iff exKB exKB_worlds 2 none (some [[1]]) exS'
      exS'_inUnit).mpr h
    have h1 : (fDownConnR exKB 2 none (some [[1]]) exS').2 = 2 := by decide +kernel
    rw [h1] at h0
    norm_num at h0

/-- a second restricted upward call reports `0`, and no query sees a change -/
example :
    (fUpConnR exKB 2 (some [[1]]) (fUpConnR exKB 2 (some [[1]]) exS).1).2 = 0 ∧
    FolAmount.SameReads exKB (fUpConnR exKB 2 (some [[1]]) exS).1
      (fUpConnR exKB 2 (some [[1]]) (fUpConnR exKB 2 (some [[1]]) exS).1).1 := by
  have h : (fUpConnR exKB 2 (some [[1]]) (fUpConnR exKB 2 (some [[1]]) exS).1).2 = 0 := by
    decide +kernel
  exact ⟨h, (fUpConnR_amount_zero_iff exKB exKB_worlds 2 _ _
    (fUpConnR_inUnit exKB exKB_worlds 2 _ exS exS_inUnit)).mp h⟩

end examples

end FolRestrict
end LNN
