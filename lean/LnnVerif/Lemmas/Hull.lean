/-
Exactness ("hull") lemmas for one weighted Łukasiewicz connective at alpha = 1.

* the clamped And value ranges over the whole interval `[andUp.lo, andUp.hi]` when the operands range
  over their boxes (an intermediate-value theorem for an affine map over an ordered field, with an
  explicit witness on the diagonal of the box — no completeness needed),
* pinning one operand to a value `x` (replacing its box by `[x, x]`) reduces the projection of the
  feasible set onto that operand to the operator-level statement,
* the two proposals of `andDown` at alpha = 1 are the exact end points of that projection,
* negation dualities that transport everything to Or and Implies.
-/
import LnnVerif.Lemmas.ArithOr
import LnnVerif.Model.Node
import Mathlib.Algebra.Order.Group.MinMax
import Mathlib.Data.List.Forall2

set_option linter.unusedSectionVars false

namespace LNN.Hull

variable {α : Type} [Field α] [LinearOrder α] [IsStrictOrderedRing α]

/-! ### the diagonal segment of the box -/

/-- non-negative weights and non-empty boxes -/
def BoxWf (ops : List (Opd α)) : Prop := ∀ o ∈ ops, 0 ≤ o.w ∧ o.lo ≤ o.hi

/-- the segment from the upper corner (`lam = 0`) to the lower corner (`lam = 1`) -/
def seg (lam : α) (ops : List (Opd α)) : List α := ops.map fun o => o.hi - lam * (o.hi - o.lo)

theorem seg_inBox (lam : α) (h0 : 0 ≤ lam) (h1 : lam ≤ 1) (ops : List (Opd α)) (hwf : BoxWf ops) :
    InBox ops (seg lam ops) := by
  unfold InBox seg
  rw [List.forall₂_map_right_iff]
  refine List.forall₂_same.mpr ?_
  intro o ho
  have h := hwf o ho
  refine ⟨h.1, ?_, ?_⟩
  · nlinarith [h.2]
  · nlinarith [h.2]

theorem wsum_seg (lam : α) (ops : List (Opd α)) :
    wsum ops (seg lam ops)
      = (ops.map termHi).sum + lam * ((ops.map termLo).sum - (ops.map termHi).sum) := by
  induction ops with
  | nil => simp [wsum, seg]
  | cons o ops ih =>
    simp only [wsum, seg, List.map_cons, List.zipWith_cons_cons, List.sum_cons] at ih ⊢
    rw [ih]; unfold termHi termLo; ring

theorem sumHi_le_sumLo (ops : List (Opd α)) (hwf : BoxWf ops) :
    (ops.map termHi).sum ≤ (ops.map termLo).sum := by
  induction ops with
  | nil => simp
  | cons o ops ih =>
    simp only [List.map_cons, List.sum_cons]
    have h := hwf o (by simp)
    have h' := ih (fun o' ho' => hwf o' (by simp [ho']))
    have : termHi o ≤ termLo o := by
      unfold termHi termLo
      exact mul_le_mul_of_nonneg_left (by linarith [h.2]) h.1
    linarith

/-- every target between the two corner sums is attained inside the box -/
theorem exists_inBox_wsum_eq (ops : List (Opd α)) (hwf : BoxWf ops) (t : α)
    (ht0 : (ops.map termHi).sum ≤ t) (ht1 : t ≤ (ops.map termLo).sum) :
    ∃ ys, InBox ops ys ∧ wsum ops ys = t := by
  rcases eq_or_lt_of_le (sumHi_le_sumLo ops hwf) with heq | hlt
  · refine ⟨seg 0 ops, seg_inBox 0 le_rfl zero_le_one ops hwf, ?_⟩
    rw [wsum_seg]; simp; linarith
  · have hpos : 0 < (ops.map termLo).sum - (ops.map termHi).sum := by linarith
    refine ⟨seg ((t - (ops.map termHi).sum) / ((ops.map termLo).sum - (ops.map termHi).sum)) ops,
      seg_inBox _ ?_ ?_ ops hwf, ?_⟩
    · exact div_nonneg (by linarith) hpos.le
    · rw [div_le_one hpos]; linarith
    · rw [wsum_seg, div_mul_cancel₀ _ (ne_of_gt hpos)]; ring

/-- **Range of the And truth function over a box**: every value between the two upward bounds is
the And value of some assignment inside the box. -/
theorem andVal_range (b : α) (ops : List (Opd α)) (hwf : BoxWf ops) (v : α)
    (h0 : (andUp b ops).lo ≤ v) (h1 : v ≤ (andUp b ops).hi) :
    ∃ xs, InBox ops xs ∧ andVal b ops xs = v := by
  unfold andUp at h0 h1
  simp only at h0 h1
  have hv0 : 0 ≤ v := le_trans (clamp01_nonneg _) h0
  have hv1 : v ≤ 1 := le_trans h1 (clamp01_le_one _)
  have hle := sumHi_le_sumLo ops hwf
  rcases le_total (b - v) ((ops.map termHi).sum) with hA | hA
  · -- the upper corner
    obtain ⟨xs, hbox, hs⟩ := exists_inBox_wsum_eq ops hwf _ le_rfl hle
    refine ⟨xs, hbox, ?_⟩
    unfold andVal andPre
    rw [hs]
    apply le_antisymm _ h1
    have := clamp01_mono (show b - (ops.map termHi).sum ≤ v by linarith)
    rwa [clamp01_of_mem hv0 hv1] at this
  · rcases le_total ((ops.map termLo).sum) (b - v) with hB | hB
    · -- the lower corner
      obtain ⟨xs, hbox, hs⟩ := exists_inBox_wsum_eq ops hwf _ hle le_rfl
      refine ⟨xs, hbox, ?_⟩
      unfold andVal andPre
      rw [hs]
      apply le_antisymm h0
      have := clamp01_mono (show v ≤ b - (ops.map termLo).sum by linarith)
      rwa [clamp01_of_mem hv0 hv1] at this
    · obtain ⟨xs, hbox, hs⟩ := exists_inBox_wsum_eq ops hwf (b - v) hA hB
      refine ⟨xs, hbox, ?_⟩
      unfold andVal andPre
      rw [hs, sub_sub_cancel, clamp01_of_mem hv0 hv1]

/-- **Operator-level feasibility**: an assignment inside the box with And value in `[L, U]` exists
iff `[L, U]` meets `[andUp.lo, andUp.hi]`. -/
theorem and_feasible_iff (b L U : α) (ops : List (Opd α)) (hwf : BoxWf ops) (hLU : L ≤ U) :
    (∃ xs, InBox ops xs ∧ L ≤ andVal b ops xs ∧ andVal b ops xs ≤ U)
      ↔ (L ≤ (andUp b ops).hi ∧ (andUp b ops).lo ≤ U) := by
  constructor
  · rintro ⟨xs, hbox, h1, h2⟩
    have h := andUp_sound b ops xs hbox
    exact ⟨le_trans h1 h.2, le_trans h.1 h2⟩
  · rintro ⟨h1, h2⟩
    have hAB : (andUp b ops).lo ≤ (andUp b ops).hi := by
      unfold andUp; exact clamp01_mono (by linarith [sumHi_le_sumLo ops hwf])
    obtain ⟨xs, hbox, hv⟩ := andVal_range b ops hwf (max (andUp b ops).lo L)
      (le_max_left _ _) (max_le hAB h1)
    exact ⟨xs, hbox, by rw [hv]; exact le_max_right _ _, by rw [hv]; exact max_le h2 hLU⟩

/-! ### pinning one operand -/

/-- the operand with its box collapsed to the single value `x` -/
def pinOpd (o : Opd α) (x : α) : Opd α := ⟨o.w, x, x⟩

theorem inBox_pin_iff (pre post : List (Opd α)) (o : Opd α) (x : α) (hx : o.lo ≤ x ∧ x ≤ o.hi)
    (xs : List α) :
    InBox (pre ++ pinOpd o x :: post) xs ↔ InBox (pre ++ o :: post) xs ∧ xs[pre.length]? = some x := by
  unfold InBox
  induction pre generalizing xs with
  | nil =>
    cases xs with
    | nil => simp
    | cons y ys =>
      simp only [List.nil_append, List.forall₂_cons, pinOpd, List.length_nil, List.getElem?_cons_zero,
        Option.some.injEq]
      constructor
      · rintro ⟨⟨hw, h1, h2⟩, hr⟩
        have : y = x := le_antisymm h2 h1
        subst this
        exact ⟨⟨⟨hw, hx.1, hx.2⟩, hr⟩, rfl⟩
      · rintro ⟨⟨⟨hw, _, _⟩, hr⟩, rfl⟩
        exact ⟨⟨hw, le_rfl, le_rfl⟩, hr⟩
  | cons a pre ih =>
    cases xs with
    | nil => simp
    | cons y ys =>
      simp only [List.cons_append, List.forall₂_cons, List.length_cons, List.getElem?_cons_succ, ih ys]
      tauto

theorem wsum_pin (pre post : List (Opd α)) (o : Opd α) (x : α) (xs : List α) :
    wsum (pre ++ pinOpd o x :: post) xs = wsum (pre ++ o :: post) xs := by
  unfold wsum
  induction pre generalizing xs with
  | nil => cases xs <;> simp [pinOpd]
  | cons a pre ih => cases xs <;> simp [ih]

theorem sumHi_pin (pre post : List (Opd α)) (o : Opd α) (x : α) :
    ((pre ++ pinOpd o x :: post).map termHi).sum
      = o.w * (1 - x) + (((pre ++ o :: post).map termHi).sum - termHi o) := by
  simp only [List.map_append, List.map_cons, List.sum_append, List.sum_cons, pinOpd, termHi]
  ring

theorem sumLo_pin (pre post : List (Opd α)) (o : Opd α) (x : α) :
    ((pre ++ pinOpd o x :: post).map termLo).sum
      = o.w * (1 - x) + (((pre ++ o :: post).map termLo).sum - termLo o) := by
  simp only [List.map_append, List.map_cons, List.sum_append, List.sum_cons, pinOpd, termLo]
  ring

theorem boxWf_pin (pre post : List (Opd α)) (o : Opd α) (x : α) (h : BoxWf (pre ++ o :: post)) :
    BoxWf (pre ++ pinOpd o x :: post) := by
  intro o' ho'
  simp only [List.mem_append, List.mem_cons] at ho'
  rcases ho' with h1 | rfl | h1
  · exact h o' (by simp [h1])
  · exact ⟨(h o (by simp)).1, le_rfl⟩
  · exact h o' (by simp [h1])

theorem inBox_mid (pre post : List (Opd α)) (o : Opd α) (x : α) (xs : List α)
    (h : InBox (pre ++ o :: post) xs) (hk : xs[pre.length]? = some x) : o.lo ≤ x ∧ x ≤ o.hi := by
  unfold InBox at h
  induction pre generalizing xs with
  | nil =>
    cases h with
    | cons h1 _ =>
      simp only [List.length_nil, List.getElem?_cons_zero, Option.some.injEq] at hk
      subst hk; exact h1.2
  | cons a pre ih =>
    cases h with
    | cons _ h2 =>
      simp only [List.length_cons, List.getElem?_cons_succ] at hk
      exact ih _ h2 hk

/-- **Projection of the feasible set onto one operand.** A value `x` of the operand `o` in
`pre ++ o :: post` extends to an assignment inside the box whose And value lies in `[L, U]` iff it
lies in the operand's box and the two upward bounds with that operand pinned to `x` meet `[L, U]`. -/
theorem and_slice_iff (b L U : α) (pre post : List (Opd α)) (o : Opd α)
    (hwf : BoxWf (pre ++ o :: post)) (hLU : L ≤ U) (x : α) :
    (∃ xs, InBox (pre ++ o :: post) xs ∧ xs[pre.length]? = some x ∧
        L ≤ andVal b (pre ++ o :: post) xs ∧ andVal b (pre ++ o :: post) xs ≤ U)
      ↔ (o.lo ≤ x ∧ x ≤ o.hi ∧
          L ≤ clamp01 (b - o.w * (1 - x) - (((pre ++ o :: post).map termHi).sum - termHi o)) ∧
          clamp01 (b - o.w * (1 - x) - (((pre ++ o :: post).map termLo).sum - termLo o)) ≤ U) := by
  have key := and_feasible_iff b L U (pre ++ pinOpd o x :: post) (boxWf_pin pre post o x hwf) hLU
  unfold andUp at key
  simp only [sumHi_pin, sumLo_pin, andVal, andPre, wsum_pin] at key
  rw [← sub_sub, ← sub_sub] at key
  constructor
  · rintro ⟨xs, hbox, hk, h1, h2⟩
    have hx := inBox_mid pre post o x xs hbox hk
    have := key.mp ⟨xs, (inBox_pin_iff pre post o x hx xs).mpr ⟨hbox, hk⟩, h1, h2⟩
    exact ⟨hx.1, hx.2, this.1, this.2⟩
  · rintro ⟨hx1, hx2, h1, h2⟩
    obtain ⟨xs, hbox, h3, h4⟩ := key.mpr ⟨h1, h2⟩
    rw [inBox_pin_iff pre post o x ⟨hx1, hx2⟩] at hbox
    exact ⟨xs, hbox.1, hbox.2, h3, h4⟩

/-! ### the two proposals of the And inverse at alpha = 1 are exact -/

/-- lower proposal of `andDown` at alpha = 1 for operand `o`; `sHi'` is the hi-term sum of the
other operands -/
def loProp (b L sHi' : α) (o : Opd α) : α :=
  if o.w = 0 then 0 else if 0 < L then clamp01 (1 + (L - b + sHi') / o.w) else 0

/-- upper proposal of `andDown` at alpha = 1 for operand `o`; `sLo'` is the lo-term sum of the
other operands -/
def hiProp (b U sLo' : α) (o : Opd α) : α :=
  if o.w = 0 then 1 else if U < 1 then clamp01 (1 + (U - b + sLo') / o.w) else 1

theorem andDown_alpha_one (b L U : α) (ops : List (Opd α)) (hw : ∀ o ∈ ops, 0 ≤ o.w) :
    andDown b 1 L U ops = ops.map fun o =>
      ⟨loProp b L ((ops.map termHi).sum - termHi o) o, hiProp b U ((ops.map termLo).sum - termLo o) o⟩ := by
  unfold andDown
  simp only
  apply List.map_congr_left
  intro o ho
  unfold loProp hiProp
  by_cases hw0 : o.w = 0
  · simp [hw0]
  · simp only [hw0, if_false, max_eq_left (hw o ho), sub_self]
    congr 1
    · by_cases hL : 0 < L
      · simp [hL, not_le.mpr hL]
      · simp [hL]
    · by_cases hU : U < 1
      · simp [hU, not_le.mpr hU]
      · simp [hU]

section slice

variable (b L U sHi' sLo' : α) (o : Opd α)

theorem loProp_le (hw : 0 ≤ o.w) {x : α} (hx0 : 0 ≤ x)
    (h : L ≤ clamp01 (b - o.w * (1 - x) - sHi')) : loProp b L sHi' o ≤ x := by
  unfold loProp
  by_cases hw0 : o.w = 0
  · simp [hw0, hx0]
  · simp only [hw0, if_false]
    by_cases hL : 0 < L
    · simp only [hL, if_true]
      have hwpos : 0 < o.w := lt_of_le_of_ne hw (Ne.symm hw0)
      have hpre := le_of_pos_le_clamp hL h
      apply clamp01_le_of_le hx0
      have : (L - b + sHi') / o.w ≤ x - 1 := by
        rw [div_le_iff₀ hwpos]; nlinarith
      linarith
    · simp [hL, hx0]

theorem le_hiProp (hw : 0 ≤ o.w) {x : α} (hx1 : x ≤ 1)
    (h : clamp01 (b - o.w * (1 - x) - sLo') ≤ U) : x ≤ hiProp b U sLo' o := by
  unfold hiProp
  by_cases hw0 : o.w = 0
  · simp [hw0, hx1]
  · simp only [hw0, if_false]
    by_cases hU : U < 1
    · simp only [hU, if_true]
      have hwpos : 0 < o.w := lt_of_le_of_ne hw (Ne.symm hw0)
      have hpre := le_of_clamp_le_lt_one hU h
      apply le_clamp01_of_le hx1
      have : x - 1 ≤ (U - b + sLo') / o.w := by
        rw [le_div_iff₀ hwpos]; nlinarith
      linarith
    · simp [hU, hx1]

/-- the lower condition persists for every value above the lower proposal -/
theorem lo_cond_of_ge (hw : 0 ≤ o.w) {x0 x : α} (hx01 : x0 ≤ 1)
    (h0 : L ≤ clamp01 (b - o.w * (1 - x0) - sHi')) (hx : loProp b L sHi' o ≤ x) :
    L ≤ clamp01 (b - o.w * (1 - x) - sHi') := by
  rcases le_or_gt L 0 with hL | hL
  · exact le_trans hL (clamp01_nonneg _)
  · have hL1 : L ≤ 1 := le_trans h0 (clamp01_le_one _)
    by_cases hw0 : o.w = 0
    · simpa [hw0] using h0
    · have hwpos : 0 < o.w := lt_of_le_of_ne hw (Ne.symm hw0)
      have hpre := le_of_pos_le_clamp hL h0
      have hz : 1 + (L - b + sHi') / o.w ≤ x0 := by
        have : (L - b + sHi') / o.w ≤ x0 - 1 := by
          rw [div_le_iff₀ hwpos]; nlinarith
        linarith
      unfold loProp at hx
      simp only [hw0, if_false, hL, if_true] at hx
      have hzx : 1 + (L - b + sHi') / o.w ≤ x :=
        le_trans (le_clamp01_of_le (le_trans hz hx01) le_rfl) hx
      apply le_clamp01_of_le hL1
      have : (L - b + sHi') / o.w ≤ x - 1 := by linarith
      rw [div_le_iff₀ hwpos] at this
      nlinarith

/-- the upper condition persists for every value below the upper proposal -/
theorem hi_cond_of_le (hw : 0 ≤ o.w) {x0 x : α} (hx00 : 0 ≤ x0)
    (h0 : clamp01 (b - o.w * (1 - x0) - sLo') ≤ U) (hx : x ≤ hiProp b U sLo' o) :
    clamp01 (b - o.w * (1 - x) - sLo') ≤ U := by
  rcases le_or_gt 1 U with hU | hU
  · exact le_trans (clamp01_le_one _) hU
  · have hU0 : 0 ≤ U := le_trans (clamp01_nonneg _) h0
    by_cases hw0 : o.w = 0
    · simpa [hw0] using h0
    · have hwpos : 0 < o.w := lt_of_le_of_ne hw (Ne.symm hw0)
      have hpre := le_of_clamp_le_lt_one hU h0
      have hz : x0 ≤ 1 + (U - b + sLo') / o.w := by
        have : x0 - 1 ≤ (U - b + sLo') / o.w := by
          rw [le_div_iff₀ hwpos]; nlinarith
        linarith
      unfold hiProp at hx
      simp only [hw0, if_false, hU, if_true] at hx
      have hzx : x ≤ 1 + (U - b + sLo') / o.w :=
        le_trans hx (clamp01_le_of_le (le_trans hx00 hz) le_rfl)
      apply clamp01_le_of_le hU0
      have : x - 1 ≤ (U - b + sLo') / o.w := by linarith
      rw [le_div_iff₀ hwpos] at this
      nlinarith

/-- `x` is a value of operand `o` that extends to a feasible assignment (see `and_slice_iff`) -/
def Slice (x : α) : Prop :=
  o.lo ≤ x ∧ x ≤ o.hi ∧ L ≤ clamp01 (b - o.w * (1 - x) - sHi') ∧ clamp01 (b - o.w * (1 - x) - sLo') ≤ U

/-- the operand's new bounds: `aggregate` of the old ones with the two proposals -/
def sliceRes : Bounds α :=
  (aggregate .both ⟨o.lo, o.hi⟩ ⟨loProp b L sHi' o, hiProp b U sLo' o⟩).1

theorem sliceRes_lo : (sliceRes b L U sHi' sLo' o).lo = clamp01 (max o.lo (loProp b L sHi' o)) := by
  simp [sliceRes, aggregate]

theorem sliceRes_hi : (sliceRes b L U sHi' sLo' o).hi = clamp01 (min o.hi (hiProp b U sLo' o)) := by
  simp [sliceRes, aggregate]

theorem slice_sound (hw : 0 ≤ o.w) (ho0 : 0 ≤ o.lo) (ho1 : o.hi ≤ 1) {x : α}
    (h : Slice b L U sHi' sLo' o x) :
    (sliceRes b L U sHi' sLo' o).lo ≤ x ∧ x ≤ (sliceRes b L U sHi' sLo' o).hi := by
  obtain ⟨h1, h2, h3, h4⟩ := h
  have hx0 : 0 ≤ x := le_trans ho0 h1
  have hx1 : x ≤ 1 := le_trans h2 ho1
  rw [sliceRes_lo, sliceRes_hi]
  exact ⟨clamp01_le_of_le hx0 (max_le h1 (loProp_le b L sHi' o hw hx0 h3)),
    le_clamp01_of_le hx1 (le_min h2 (le_hiProp b U sLo' o hw hx1 h4))⟩

theorem slice_mono_lo (hw : 0 ≤ o.w) {x x' : α} (hxx : x ≤ x')
    (h : L ≤ clamp01 (b - o.w * (1 - x) - sHi')) : L ≤ clamp01 (b - o.w * (1 - x') - sHi') := by
  refine le_trans h (clamp01_mono ?_)
  have := mul_le_mul_of_nonneg_left (show 1 - x' ≤ 1 - x by linarith) hw
  linarith

theorem slice_mono_hi (hw : 0 ≤ o.w) {x x' : α} (hxx : x' ≤ x)
    (h : clamp01 (b - o.w * (1 - x) - sLo') ≤ U) : clamp01 (b - o.w * (1 - x') - sLo') ≤ U := by
  refine le_trans (clamp01_mono ?_) h
  have := mul_le_mul_of_nonneg_left (show 1 - x ≤ 1 - x' by linarith) hw
  linarith

/-- the new lower bound is itself a feasible value -/
theorem slice_lo_tight (hw : 0 ≤ o.w) (ho0 : 0 ≤ o.lo) (ho1 : o.hi ≤ 1) {x0 : α}
    (h : Slice b L U sHi' sLo' o x0) :
    Slice b L U sHi' sLo' o (sliceRes b L U sHi' sLo' o).lo := by
  have hs := (slice_sound b L U sHi' sLo' o hw ho0 ho1 h).1
  obtain ⟨h1, h2, h3, h4⟩ := h
  have hx01 : x0 ≤ 1 := le_trans h2 ho1
  have hx00 : 0 ≤ x0 := le_trans ho0 h1
  have hp : loProp b L sHi' o ≤ x0 := loProp_le b L sHi' o hw hx00 h3
  rw [sliceRes_lo] at hs ⊢
  refine ⟨le_clamp01_of_le (le_trans h1 hx01) (le_max_left _ _), le_trans hs h2, ?_, ?_⟩
  · exact lo_cond_of_ge b L sHi' o hw hx01 h3
      (le_clamp01_of_le (le_trans hp hx01) (le_max_right _ _))
  · exact slice_mono_hi b U sLo' o hw hs h4

/-- the new upper bound is itself a feasible value -/
theorem slice_hi_tight (hw : 0 ≤ o.w) (ho0 : 0 ≤ o.lo) (ho1 : o.hi ≤ 1) {x0 : α}
    (h : Slice b L U sHi' sLo' o x0) :
    Slice b L U sHi' sLo' o (sliceRes b L U sHi' sLo' o).hi := by
  have hs := (slice_sound b L U sHi' sLo' o hw ho0 ho1 h).2
  obtain ⟨h1, h2, h3, h4⟩ := h
  have hx01 : x0 ≤ 1 := le_trans h2 ho1
  have hx00 : 0 ≤ x0 := le_trans ho0 h1
  have hp : x0 ≤ hiProp b U sLo' o := le_hiProp b U sLo' o hw hx01 h4
  rw [sliceRes_hi] at hs ⊢
  refine ⟨le_trans h1 hs, clamp01_le_of_le (le_trans hx00 h2) (min_le_left _ _), ?_, ?_⟩
  · exact slice_mono_lo b L sHi' o hw hs h3
  · exact hi_cond_of_le b U sLo' o hw hx00 h4
      (clamp01_le_of_le (le_trans hx00 hp) (min_le_right _ _))

end slice

/-! ### one operand of an And connective, list level -/

/-- non-negative weights, non-empty operand boxes inside `[0,1]` -/
def OpsWf (ops : List (Opd α)) : Prop := ∀ o ∈ ops, 0 ≤ o.w ∧ 0 ≤ o.lo ∧ o.lo ≤ o.hi ∧ o.hi ≤ 1

theorem OpsWf.boxWf {ops : List (Opd α)} (h : OpsWf ops) : BoxWf ops :=
  fun o ho => ⟨(h o ho).1, (h o ho).2.2.1⟩

theorem inBox_iff (ops : List (Opd α)) (xs : List α) (hw : ∀ o ∈ ops, 0 ≤ o.w) :
    InBox ops xs ↔ List.Forall₂ (fun o x => o.lo ≤ x ∧ x ≤ o.hi) ops xs := by
  unfold InBox
  rw [List.forall₂_iff_zip, List.forall₂_iff_zip]
  refine and_congr_right fun _ => ⟨fun h a b hab => (h hab).2, fun h a b hab => ⟨?_, h hab⟩⟩
  exact hw a (List.of_mem_zip hab).1

/-- what `aggregate ∘ andDown` writes on the operands, as a map over the operands -/
theorem andDown_zip (b L U : α) (ops : List (Opd α)) (hw : ∀ o ∈ ops, 0 ≤ o.w) :
    List.zipWith (fun o p => (aggregate .both ⟨o.lo, o.hi⟩ p).1) ops (andDown b 1 L U ops)
      = ops.map fun o => sliceRes b L U ((ops.map termHi).sum - termHi o)
          ((ops.map termLo).sum - termLo o) o := by
  rw [andDown_alpha_one b L U ops hw, List.zipWith_map_right, List.zipWith_self]
  rfl

theorem split_of_getElem? {β : Type} (l : List β) (k : Nat) (a : β) (h : l[k]? = some a) :
    ∃ pre post, l = pre ++ a :: post ∧ pre.length = k := by
  induction l generalizing k with
  | nil => simp at h
  | cons c l ih =>
    cases k with
    | zero =>
      simp only [List.getElem?_cons_zero, Option.some.injEq] at h
      exact ⟨[], l, by simp [h], rfl⟩
    | succ k =>
      simp only [List.getElem?_cons_succ] at h
      obtain ⟨pre, post, h1, h2⟩ := ih k h
      exact ⟨c :: pre, post, by simp [h1], by simp [h2]⟩

/-- **Exactness of the And inverse for one operand** (alpha = 1): the aggregated proposal for the
operand `o` of `pre ++ o :: post` contains every value of `o` occurring in an assignment inside the
boxes with And value in `[L, U]`, and both its end points occur in such assignments. -/
theorem and_operand_hull_raw (b L U : α) (pre post : List (Opd α)) (o : Opd α)
    (hwf : OpsWf (pre ++ o :: post)) (hLU : L ≤ U) :
    let ops := pre ++ o :: post
    let r := sliceRes b L U ((ops.map termHi).sum - termHi o) ((ops.map termLo).sum - termLo o) o
    (∀ xs x, InBox ops xs → xs[pre.length]? = some x → L ≤ andVal b ops xs → andVal b ops xs ≤ U →
        r.lo ≤ x ∧ x ≤ r.hi) ∧
    ((∃ xs, InBox ops xs ∧ L ≤ andVal b ops xs ∧ andVal b ops xs ≤ U) →
      (∃ xs, InBox ops xs ∧ xs[pre.length]? = some r.lo ∧ L ≤ andVal b ops xs ∧ andVal b ops xs ≤ U) ∧
      (∃ xs, InBox ops xs ∧ xs[pre.length]? = some r.hi ∧ L ≤ andVal b ops xs ∧ andVal b ops xs ≤ U)) := by
  intro ops r
  have ho := hwf o (by simp)
  have hiff := and_slice_iff b L U pre post o hwf.boxWf hLU
  constructor
  · intro xs x hbox hk h1 h2
    exact slice_sound b L U _ _ o ho.1 ho.2.1 ho.2.2.2 ((hiff x).mp ⟨xs, hbox, hk, h1, h2⟩)
  · rintro ⟨xs, hbox, h1, h2⟩
    have hlen : pre.length < xs.length := by
      have := hbox.length_eq
      simp only [ops, List.length_append, List.length_cons] at this
      omega
    have hs := (hiff xs[pre.length]).mp ⟨xs, hbox, List.getElem?_eq_getElem hlen, h1, h2⟩
    exact ⟨(hiff r.lo).mpr (slice_lo_tight b L U _ _ o ho.1 ho.2.1 ho.2.2.2 hs),
      (hiff r.hi).mpr (slice_hi_tight b L U _ _ o ho.1 ho.2.1 ho.2.2.2 hs)⟩

/-! ### negation dualities -/

theorem negB_negB (a : Bounds α) : negB (negB a) = a := by
  cases a; simp [negB]

@[simp] theorem negB_lo (a : Bounds α) : (negB a).lo = 1 - a.hi := rfl
@[simp] theorem negB_hi (a : Bounds α) : (negB a).hi = 1 - a.lo := rfl

theorem aggregate_negB (a p : Bounds α) :
    (aggregate .both (negB a) (negB p)).1 = negB (aggregate .both a p).1 := by
  simp only [aggregate, negB, reduceCtorEq, if_false, max_sub_sub_left, min_sub_sub_left,
    clamp01_one_sub]

theorem sum_termHi_neg (ops : List (Opd α)) :
    ((ops.map Opd.neg).map termHi).sum = (ops.map (fun o => o.w * o.lo)).sum := by
  rw [List.map_map]; congr 1; apply List.map_congr_left; intro o _
  simp [termHi, Opd.neg]

theorem sum_termLo_neg (ops : List (Opd α)) :
    ((ops.map Opd.neg).map termLo).sum = (ops.map (fun o => o.w * o.hi)).sum := by
  rw [List.map_map]; congr 1; apply List.map_congr_left; intro o _
  simp [termLo, Opd.neg]

theorem orUp_eq_negB (t : Bool) (b : α) (ops : List (Opd α)) (hw : ∀ o ∈ ops, 0 ≤ o.w) :
    orUp t b ops = negB (andUp b (ops.map Opd.neg)) := by
  have hc : (if t = true then (ops.map (fun o => min o.w 0)).sum else (0:α)) = 0 := by
    split <;> simp [minw_sum_zero ops hw]
  unfold orUp andUp negB
  simp only [hc, sum_termHi_neg, sum_termLo_neg, ← clamp01_one_sub]
  congr 2 <;> ring

theorem impliesUp_eq_negB (b : α) (x y : Opd α) :
    impliesUp b [x, y] = negB (andUp b [x, y.neg]) := by
  unfold impliesUp andUp negB
  simp only [List.map_cons, List.map_nil, List.sum_cons, List.sum_nil, termHi, termLo, Opd.neg,
    ← clamp01_one_sub]
  congr 2 <;> ring

/-- crossed bounds inside `[0,1]` are a contradiction at alpha = 1 -/
theorem isContra_one_of_crossed (r : Bounds α) (h0 : 0 ≤ r.hi) (h1 : r.lo ≤ 1) (h : r.hi < r.lo) :
    isContra 1 r = true := by
  have hlo : ¬ r.lo ≤ 0 := not_le.mpr (lt_of_le_of_lt h0 h)
  have hhi : ¬ 1 ≤ r.hi := not_le.mpr (lt_of_lt_of_le h h1)
  have h5 : ¬ ((1:α) ≤ r.hi) := hhi
  have hlo1 : region 1 r.lo ≠ 1 := by
    unfold region
    simp only [sub_self, hlo, if_false]
    split_ifs <;> simp
  have hhi5 : region 1 r.hi ≠ 5 := by
    unfold region
    simp only [h5, if_false]
    split_ifs <;> simp
  unfold isContra
  simp [h, hlo1, hhi5]

end LNN.Hull
