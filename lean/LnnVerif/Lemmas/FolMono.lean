/-
The first-order engine only ever TIGHTENS bounds and keeps them in `[0,1]`.

For every knowledge base whose world defaults are bounds in `[0,1]` — no hypothesis on weights,
biases, alphas, operand maps, graph shape — and every first-order state whose stored working bounds
lie in `[0,1]`, every call of the first-order engine (`fUp` / `fDown` of a predicate, a Not, a
connective, a quantifier; any sequence of calls; `fInfer` with any step limit; and the same calls
under the pending-grounding layer of `Model/FolPend.lean`, `pInferQ` included)

* keeps every stored grounding stored, with the same data (leaf),
* never lowers a stored lower bound and never raises a stored upper bound,
* leaves every stored working bound (of old and of newly created rows) in `[0,1]`.

Rows are only ever created at the world default of their formula (`Table.addg`); that is where
`WorldsInUnit` is used. The range hypothesis on the state is needed for the same reason as in the
propositional case (C05): `aggregate` clamps, and the clamp would loosen a bound outside `[0,1]`.

No `NodupKeys` hypothesis is needed: `Table.InUnit` speaks about every row (duplicates included),
`Table.Tightens` about what `Table.find?` reads, and `Table.setB` overwrites every row of a key.
-/
import LnnVerif.Lemmas.TableLemmas
import LnnVerif.Lemmas.Basic
import LnnVerif.Lemmas.FolSound
import LnnVerif.Lemmas.PendLemmas
import Mathlib.Algebra.Order.Field.Rat
import Mathlib.Tactic.NormNum

set_option linter.unusedSectionVars false

namespace LNN

variable {ι : Type} [DecidableEq ι] {α : Type} [Field α] [LinearOrder α] [IsStrictOrderedRing α]

/-! ### vocabulary -/

/-- every stored working bound lies in [0,1] (crossed bounds allowed) -/
def Table.InUnit (t : Table α) : Prop :=
  ∀ r ∈ t, 0 ≤ r.b.lo ∧ r.b.lo ≤ 1 ∧ 0 ≤ r.b.hi ∧ r.b.hi ≤ 1

def FState.InUnit (s : FState ι α) : Prop := ∀ i, Table.InUnit (s.get i)

/-- `t'` tightens `t`: every grounding stored in `t` is still stored in `t'`, with a lower bound
that is not lower, an upper bound that is not higher, and the same data (leaf) -/
def Table.Tightens (t t' : Table α) : Prop :=
  ∀ g r, Table.find? t g = some r →
    ∃ r', Table.find? t' g = some r' ∧ r.b.lo ≤ r'.b.lo ∧ r'.b.hi ≤ r.b.hi ∧ r'.leaf = r.leaf

def FState.Tightens (s s' : FState ι α) : Prop := ∀ i, Table.Tightens (s.get i) (s'.get i)

/-- the world defaults of the knowledge base are bounds in [0,1] -/
def WorldsInUnit (kb : FKB ι α) : Prop :=
  ∀ i, 0 ≤ (kb i).world.lo ∧ (kb i).world.lo ≤ 1 ∧ 0 ≤ (kb i).world.hi ∧ (kb i).world.hi ≤ 1

/-! ### 1. preorder -/

theorem Table.Tightens.refl (t : Table α) : Table.Tightens t t :=
  fun _ r h => ⟨r, h, le_rfl, le_rfl, rfl⟩

theorem Table.Tightens.trans {t u v : Table α} (h1 : Table.Tightens t u)
    (h2 : Table.Tightens u v) : Table.Tightens t v := by
  intro g r hr
  obtain ⟨r1, hr1, a1, b1, c1⟩ := h1 g r hr
  obtain ⟨r2, hr2, a2, b2, c2⟩ := h2 g r1 hr1
  exact ⟨r2, hr2, le_trans a1 a2, le_trans b2 b1, c2.trans c1⟩

theorem FState.Tightens.refl (s : FState ι α) : FState.Tightens s s :=
  fun i => Table.Tightens.refl (s.get i)

theorem FState.Tightens.trans {s t u : FState ι α} (h1 : FState.Tightens s t)
    (h2 : FState.Tightens t u) : FState.Tightens s u :=
  fun i => (h1 i).trans (h2 i)

/-! ### 2. the table writers -/

theorem Table.InUnit.setB {t : Table α} (h : Table.InUnit t) (g : Gr) {b : Bounds α}
    (hb : LNN.InUnit b) : Table.InUnit (Table.setB t g b) := by
  intro r hr
  obtain ⟨r0, hr0, _, hc⟩ := FolSound.mem_setB hr
  rcases hc with ⟨_, h2⟩ | ⟨_, h2⟩
  · rw [h2]; exact hb
  · rw [h2]; exact h r0 hr0

/-- overwriting the row of `g` in a table `acc` that tightens `t` by bounds that tighten what `t`
stores for `g` gives a table that tightens `t` -/
theorem Table.Tightens.setB {t acc : Table α} (h : Table.Tightens t acc) (g : Gr) (b : Bounds α)
    (hb : ∀ r, Table.find? t g = some r → r.b.lo ≤ b.lo ∧ b.hi ≤ r.b.hi) :
    Table.Tightens t (Table.setB acc g b) := by
  intro g' r hr
  obtain ⟨r', hr', h1, h2, h3⟩ := h g' r hr
  by_cases e : g' = g
  · subst e
    refine ⟨{ r' with b := b }, ?_, (hb r hr).1, (hb r hr).2, h3⟩
    rw [Table.find?_setB_self, hr']; rfl
  · exact ⟨r', by rw [Table.find?_setB_of_ne acc b e]; exact hr', h1, h2, h3⟩

theorem aggRow_tightens (t : Table α) (g : Gr) (sel : BoundSel) (new : Bounds α)
    (ht : Table.InUnit t) :
    Table.Tightens t (aggRow t g sel new).1 ∧ Table.InUnit (aggRow t g sel new).1 := by
  rw [Table.aggRow_fst]
  cases hf : Table.find? t g with
  | none => exact ⟨Table.Tightens.refl t, ht⟩
  | some r =>
    simp only
    have hr : LNN.InUnit r.b := ht r (Table.find?_some hf).1
    refine ⟨(Table.Tightens.refl t).setB g _ ?_, ht.setB g (aggregate_inUnit _ _ _)⟩
    intro r0 hr0
    rw [hf] at hr0; cases hr0
    exact aggregate_tightens sel new hr

theorem mergeB_tightens {p a b : Bounds α}
    (ha : LNN.InUnit a ∧ p.lo ≤ a.lo ∧ a.hi ≤ p.hi) (hb : LNN.InUnit b ∧ p.lo ≤ b.lo ∧ b.hi ≤ p.hi) :
    LNN.InUnit (mergeB a b) ∧ p.lo ≤ (mergeB a b).lo ∧ (mergeB a b).hi ≤ p.hi := by
  obtain ⟨⟨a1, a2, a3, a4⟩, a5, a6⟩ := ha
  obtain ⟨⟨b1, b2, b3, b4⟩, b5, b6⟩ := hb
  unfold mergeB
  exact ⟨⟨le_max_of_le_left a1, max_le a2 b2, le_min a3 b3, min_le_of_left_le a4⟩,
    le_max_of_le_left a5, min_le_of_left_le a6⟩

theorem writeMerged_tightens (t : Table α) (props : List (Gr × Bounds α)) (ht : Table.InUnit t) :
    Table.Tightens t (writeMerged t props).1 ∧ Table.InUnit (writeMerged t props).1 := by
  apply Table.writeMerged_induct' t props (fun acc => Table.Tightens t acc ∧ Table.InUnit acc) _
    ⟨Table.Tightens.refl t, ht⟩
  intro acc g r c cs ha hr hx
  have hrb : LNN.InUnit r.b := ht r (Table.find?_some hr).1
  have hm : LNN.InUnit (cs.foldl mergeB c) ∧ r.b.lo ≤ (cs.foldl mergeB c).lo ∧
      (cs.foldl mergeB c).hi ≤ r.b.hi := by
    apply Table.foldl_mergeB_induct (fun x => LNN.InUnit x ∧ r.b.lo ≤ x.lo ∧ x.hi ≤ r.b.hi)
    · intro a b ha' hb'; exact mergeB_tightens ha' hb'
    · intro x hx'
      obtain ⟨p, rfl⟩ := hx x hx'
      exact ⟨aggregate_inUnit _ _ _, aggregate_tightens _ _ hrb⟩
  refine ⟨ha.1.setB g _ ?_, ha.2.setB g hm.1⟩
  intro r0 hr0
  rw [hr] at hr0; cases hr0
  exact hm.2

/-- row creation keeps every stored row exactly as it is -/
theorem Table.Tightens.addg (w : Bounds α) (t : Table α) (gs : List Gr) :
    Table.Tightens t (Table.addg w t gs) :=
  fun _ r hr => ⟨r, Table.addg_keeps gs hr, le_rfl, le_rfl, rfl⟩

/-- … and the created rows carry the world default -/
theorem Table.InUnit.addg {w : Bounds α} {t : Table α} (ht : Table.InUnit t)
    (hw : 0 ≤ w.lo ∧ w.lo ≤ 1 ∧ 0 ≤ w.hi ∧ w.hi ≤ 1) (gs : List Gr) :
    Table.InUnit (Table.addg w t gs) := by
  intro r hr
  rcases Table.addg_only_world w t gs r hr with h | h
  · exact ht r h
  · rw [h]; exact hw

theorem addg_tightens (w : Bounds α) (t : Table α) (gs : List Gr) :
    Table.Tightens t (Table.addg w t gs) ∧
      ((0 ≤ w.lo ∧ w.lo ≤ 1 ∧ 0 ≤ w.hi ∧ w.hi ≤ 1) → Table.InUnit t →
        Table.InUnit (Table.addg w t gs)) :=
  ⟨Table.Tightens.addg w t gs, fun hw ht => ht.addg hw gs⟩

/-- one `aggRow` step inside a fold that started from `t0` -/
theorem aggRow_step {t0 acc : Table α} (h : Table.Tightens t0 acc ∧ Table.InUnit acc) (g : Gr)
    (sel : BoundSel) (new : Bounds α) :
    Table.Tightens t0 (aggRow acc g sel new).1 ∧ Table.InUnit (aggRow acc g sel new).1 :=
  have := aggRow_tightens acc g sel new h.2
  ⟨h.1.trans this.1, this.2⟩

/-! ### states -/

theorem FState.tightens_set {s0 s : FState ι α} (h : FState.Tightens s0 s ∧ FState.InUnit s)
    (i : ι) (t : Table α) (ht : Table.Tightens (s.get i) t ∧ Table.InUnit t) :
    FState.Tightens s0 (s.set i t) ∧ FState.InUnit (s.set i t) := by
  constructor
  · intro j
    by_cases e : j = i
    · subst e; rw [FState.get_set_self]; exact (h.1 j).trans ht.1
    · rw [FState.get_set_of_ne s t e]; exact h.1 j
  · intro j
    by_cases e : j = i
    · subst e; rw [FState.get_set_self]; exact ht.2
    · rw [FState.get_set_of_ne s t e]; exact h.2 j

/-- overwrite the table of `j` by the result of a fold of tightening steps that starts from it -/
theorem FState.tightens_set_fold {β : Type} {s0 s : FState ι α}
    (h : FState.Tightens s0 s ∧ FState.InUnit s) (j : ι) (a0 : α) (l : List β)
    (f : Table α × α → β → Table α × α)
    (hf : ∀ acc x, Table.InUnit acc.1 →
      Table.Tightens acc.1 (f acc x).1 ∧ Table.InUnit (f acc x).1) :
    FState.Tightens s0 (s.set j (l.foldl f (s.get j, a0)).1) ∧
      FState.InUnit (s.set j (l.foldl f (s.get j, a0)).1) := by
  apply FState.tightens_set h
  refine FolSound.foldl_inv
    (fun acc : Table α × α => Table.Tightens (s.get j) acc.1 ∧ Table.InUnit acc.1) _ _ _ ?_ ?_
  · exact ⟨Table.Tightens.refl _, h.2 j⟩
  · intro acc hacc x _
    have := hf acc x hacc.2
    exact ⟨hacc.1.trans this.1, this.2⟩

/-- grounding management only creates rows, at world defaults -/
theorem groundings_tightens (kb : FKB ι α) (hw : WorldsInUnit kb) (i : ι) (down : Bool)
    (s : FState ι α) (hs : FState.InUnit s) :
    FState.Tightens s (groundings kb i down s).1 ∧ FState.InUnit (groundings kb i down s).1 := by
  have key := groundings_induct kb (fun j t => Table.Tightens (s.get j) t ∧ Table.InUnit t)
    (fun j t gs h => ⟨h.1.trans (Table.Tightens.addg _ t gs), h.2.addg (hw j) gs⟩)
    i down s (fun j => ⟨Table.Tightens.refl _, hs j⟩)
  exact ⟨fun j => (key j).1, fun j => (key j).2⟩

/-! ### 3. the node-level calls -/

section calls
variable (kb : FKB ι α) (hw : WorldsInUnit kb) (i : ι) (s : FState ι α) (hs : FState.InUnit s)
include hw hs

theorem fUpConn_tightens :
    FState.Tightens s (fUpConn kb i s).1 ∧ FState.InUnit (fUpConn kb i s).1 := by
  have hg := groundings_tightens kb hw i false s hs
  unfold fUpConn
  simp only
  split
  next s1 hgr => rw [hgr] at hg; exact hg
  next s1 ogs per hgr =>
    rw [hgr] at hg
    simp only at hg ⊢
    apply FState.tightens_set hg
    refine FolSound.foldl_inv
      (fun acc : Table α × α => Table.Tightens (s1.get i) acc.1 ∧ Table.InUnit acc.1) _ _ _ ?_ ?_
    · exact ⟨Table.Tightens.refl _, hg.2 i⟩
    · intro acc hacc x _
      exact aggRow_step hacc _ _ _

theorem fDownConn_tightens (idx : Option Nat) :
    FState.Tightens s (fDownConn kb i idx s).1 ∧ FState.InUnit (fDownConn kb i idx s).1 := by
  have hg := groundings_tightens kb hw i true s hs
  unfold fDownConn
  simp only
  split
  next s1 hgr => rw [hgr] at hg; exact hg
  next s1 ogs per hgr =>
    rw [hgr] at hg
    simp only at hg
    split
    · exact hg
    · apply FolSound.foldl_inv
        (fun acc : FState ι α × α => FState.Tightens s acc.1 ∧ FState.InUnit acc.1) _ _ _ hg
      intro acc hacc p _
      split
      · exact FState.tightens_set hacc _ _ (writeMerged_tightens _ _ (hacc.2 _))
      · exact hacc

theorem fUpNot_tightens :
    FState.Tightens s (fUpNot kb i s).1 ∧ FState.InUnit (fUpNot kb i s).1 := by
  unfold fUpNot
  split
  · exact ⟨FState.Tightens.refl s, hs⟩
  · simp only
    split
    · exact ⟨FState.Tightens.refl s, hs⟩
    · apply FState.tightens_set ⟨FState.Tightens.refl s, hs⟩
      refine FolSound.foldl_inv
        (fun acc : Table α × α => Table.Tightens (s.get i) acc.1 ∧ Table.InUnit acc.1) _ _ _ ?_ ?_
      · exact ⟨Table.Tightens.addg _ _ _, (hs i).addg (hw i) _⟩
      · intro acc hacc x _
        exact aggRow_step hacc _ _ _

theorem fDownNot_tightens :
    FState.Tightens s (fDownNot kb i s).1 ∧ FState.InUnit (fDownNot kb i s).1 := by
  unfold fDownNot
  split
  · exact ⟨FState.Tightens.refl s, hs⟩
  next j rest hops =>
    simp only
    split
    · exact ⟨FState.Tightens.refl s, hs⟩
    · apply FState.tightens_set ⟨FState.Tightens.refl s, hs⟩
      refine FolSound.foldl_inv
        (fun acc : Table α × α => Table.Tightens (s.get j) acc.1 ∧ Table.InUnit acc.1) _ _ _ ?_ ?_
      · exact ⟨Table.Tightens.addg _ _ _, (hs j).addg (hw j) _⟩
      · intro acc hacc x _
        exact aggRow_step hacc _ _ _

theorem fUpQuant_tightens :
    FState.Tightens s (fUpQuant kb i s).1 ∧ FState.InUnit (fUpQuant kb i s).1 := by
  unfold fUpQuant
  simp only
  split
  · exact ⟨FState.Tightens.refl s, hs⟩
  · split
    · exact ⟨FState.Tightens.refl s, hs⟩
    · apply FState.tightens_set ⟨FState.Tightens.refl s, hs⟩
      refine FolSound.foldl_inv
        (fun acc : Table α × α => Table.Tightens (s.get i) acc.1 ∧ Table.InUnit acc.1) _ _ _ ?_ ?_
      · exact ⟨Table.Tightens.addg _ _ _, (hs i).addg (hw i) _⟩
      · intro acc hacc x _
        exact aggRow_step hacc _ _ _

theorem fDownQuant_tightens :
    FState.Tightens s (fDownQuant kb i s).1 ∧ FState.InUnit (fDownQuant kb i s).1 := by
  unfold fDownQuant
  simp only
  split
  · exact ⟨FState.Tightens.refl s, hs⟩
  next j rest hops =>
    split
    · exact ⟨FState.Tightens.refl s, hs⟩
    · refine FState.tightens_set_fold (FState.tightens_set ⟨FState.Tightens.refl s, hs⟩ i _
        ⟨Table.Tightens.addg _ _ _, (hs i).addg (hw i) _⟩) j _ _ _ ?_
      intro acc x hacc
      exact aggRow_tightens _ _ _ _ hacc

/-- **an upward call of any formula only tightens** -/
theorem fUp_tightens : FState.Tightens s (fUp kb i s).1 ∧ FState.InUnit (fUp kb i s).1 := by
  unfold fUp
  split
  · exact ⟨FState.Tightens.refl s, hs⟩
  · exact fUpNot_tightens kb hw i s hs
  · exact fUpQuant_tightens kb hw i s hs
  · exact fUpQuant_tightens kb hw i s hs
  · exact fUpConn_tightens kb hw i s hs

/-- **a downward call of any formula, with or without an operand index, only tightens** -/
theorem fDown_tightens (idx : Option Nat) :
    FState.Tightens s (fDown kb i idx s).1 ∧ FState.InUnit (fDown kb i idx s).1 := by
  unfold fDown
  split
  · exact ⟨FState.Tightens.refl s, hs⟩
  · exact fDownNot_tightens kb hw i s hs
  · exact fDownQuant_tightens kb hw i s hs
  · exact fDownQuant_tightens kb hw i s hs
  · exact fDownConn_tightens kb hw i s hs idx

end calls

/-! ### 4. sequences of calls, `fInfer` -/

theorem runFCall_tightens (kb : FKB ι α) (hw : WorldsInUnit kb) (c : FCall ι) (s : FState ι α)
    (hs : FState.InUnit s) :
    FState.Tightens s (runFCall kb c s).1 ∧ FState.InUnit (runFCall kb c s).1 := by
  cases c with
  | up i => exact fUp_tightens kb hw i s hs
  | down i idx => exact fDown_tightens kb hw i s hs idx

theorem runFCalls_tightens (kb : FKB ι α) (hw : WorldsInUnit kb) (cs : List (FCall ι))
    (s : FState ι α) (hs : FState.InUnit s) :
    FState.Tightens s (runFCalls kb cs s).1 ∧ FState.InUnit (runFCalls kb cs s).1 := by
  induction cs generalizing s with
  | nil => exact ⟨FState.Tightens.refl s, hs⟩
  | cons c rest ih =>
    simp only [runFCalls]
    have h1 := runFCall_tightens kb hw c s hs
    have h2 := ih (runFCall kb c s).1 h1.2
    exact ⟨h1.1.trans h2.1, h2.2⟩

theorem fInfer_tightens (kb : FKB ι α) (hw : WorldsInUnit kb) (nodes : List ι)
    (up down : List (FCall ι)) (eps : α) (fuel : Nat) (s : FState ι α) (hs : FState.InUnit s) :
    FState.Tightens s (fInfer kb nodes up down eps fuel s).state ∧
      FState.InUnit (fInfer kb nodes up down eps fuel s).state := by
  induction fuel generalizing s with
  | zero => exact ⟨FState.Tightens.refl s, hs⟩
  | succ n ih =>
    have h1 := runFCalls_tightens kb hw up s hs
    have h2 := runFCalls_tightens kb hw down (runFCalls kb up s).1 h1.2
    have h12 : FState.Tightens s (runFCalls kb down (runFCalls kb up s).1).1 := h1.1.trans h2.1
    simp only [fInfer]
    split_ifs
    · exact ⟨h12, h2.2⟩
    · have h3 := ih (runFCalls kb down (runFCalls kb up s).1).1 h2.2
      exact ⟨h12.trans h3.1, h3.2⟩

/-! ### 5. the pending-grounding layer -/

/-- `_propagate_groundings` only creates rows, at the world default of the body -/
theorem propagateQ_tightens (kb : FKB ι α) (hw : WorldsInUnit kb) (i : ι) (p : PState ι α)
    (hs : FState.InUnit p.st) :
    FState.Tightens p.st (propagateQ kb i p).st ∧ FState.InUnit (propagateQ kb i p).st := by
  constructor
  · intro k
    obtain ⟨gs, e⟩ := propagateQ_get kb i p k
    rw [e]
    split_ifs
    · exact Table.Tightens.addg _ _ gs
    · exact Table.Tightens.refl _
  · intro k
    obtain ⟨gs, e⟩ := propagateQ_get kb i p k
    rw [e]
    split_ifs
    · exact (hs k).addg (hw k) gs
    · exact hs k

theorem preDown_tightens (kb : FKB ι α) (hw : WorldsInUnit kb) (i : ι) (p : PState ι α)
    (hs : FState.InUnit p.st) :
    FState.Tightens p.st (preDown kb i p).st ∧ FState.InUnit (preDown kb i p).st := by
  unfold preDown
  split_ifs
  · split
    · split_ifs
      · exact ⟨FState.Tightens.refl _, hs⟩
      · exact propagateQ_tightens kb hw i p hs
    · exact ⟨FState.Tightens.refl _, hs⟩
  · exact ⟨FState.Tightens.refl _, hs⟩

theorem pUp_tightens (kb : FKB ι α) (hw : WorldsInUnit kb) (i : ι) (p : PState ι α)
    (hs : FState.InUnit p.st) :
    FState.Tightens p.st (pUp kb i p).1.st ∧ FState.InUnit (pUp kb i p).1.st := by
  rw [(pUp_st kb i p).1]
  exact fUp_tightens kb hw i p.st hs

theorem pDown_tightens (kb : FKB ι α) (hw : WorldsInUnit kb) (i : ι) (idx : Option Nat)
    (p : PState ι α) (hs : FState.InUnit p.st) :
    FState.Tightens p.st (pDown kb i idx p).1.st ∧ FState.InUnit (pDown kb i idx p).1.st := by
  rw [(pDown_st kb i idx p).1]
  have h1 := preDown_tightens kb hw i p hs
  have h2 := fDown_tightens kb hw i (preDown kb i p).st h1.2 idx
  exact ⟨h1.1.trans h2.1, h2.2⟩

theorem runPCall_tightens (kb : FKB ι α) (hw : WorldsInUnit kb) (c : FCall ι) (p : PState ι α)
    (hs : FState.InUnit p.st) :
    FState.Tightens p.st (runPCall kb c p).1.st ∧ FState.InUnit (runPCall kb c p).1.st := by
  cases c with
  | up i => exact pUp_tightens kb hw i p hs
  | down i idx => exact pDown_tightens kb hw i idx p hs

theorem runPCalls_tightens (kb : FKB ι α) (hw : WorldsInUnit kb) (cs : List (FCall ι))
    (p : PState ι α) (hs : FState.InUnit p.st) :
    FState.Tightens p.st (runPCalls kb cs p).1.st ∧ FState.InUnit (runPCalls kb cs p).1.st := by
  induction cs generalizing p with
  | nil => exact ⟨FState.Tightens.refl _, hs⟩
  | cons c rest ih =>
    simp only [runPCalls]
    have h1 := runPCall_tightens kb hw c p hs
    have h2 := ih (runPCall kb c p).1 h1.2
    exact ⟨h1.1.trans h2.1, h2.2⟩

theorem pInferQ_tightens (kb : FKB ι α) (hw : WorldsInUnit kb) (nodes : List ι)
    (up down : List (FCall ι)) (eps : α) (query : Option ι) (fuel : Nat) (p : PState ι α)
    (hs : FState.InUnit p.st) :
    FState.Tightens p.st (pInferQ kb nodes up down eps query fuel p).state.st ∧
      FState.InUnit (pInferQ kb nodes up down eps query fuel p).state.st := by
  induction fuel generalizing p with
  | zero => exact ⟨FState.Tightens.refl _, hs⟩
  | succ n ih =>
    have h1 := runPCalls_tightens kb hw up p hs
    have h2 := runPCalls_tightens kb hw down (runPCalls kb up p).1 h1.2
    have h12 : FState.Tightens p.st (runPCalls kb down (runPCalls kb up p).1).1.st :=
      h1.1.trans h2.1
    simp only [pInferQ]
    split_ifs
    · exact ⟨FState.Tightens.refl _, hs⟩
    · exact ⟨h12, h2.2⟩
    · have h3 := ih (runPCalls kb down (runPCalls kb up p).1).1 h2.2
      exact ⟨h12.trans h3.1, h3.2⟩

theorem pInfer_tightens (kb : FKB ι α) (hw : WorldsInUnit kb) (nodes : List ι)
    (up down : List (FCall ι)) (eps : α) (fuel : Nat) (p : PState ι α)
    (hs : FState.InUnit p.st) :
    FState.Tightens p.st (pInfer kb nodes up down eps fuel p).state.st ∧
      FState.InUnit (pInfer kb nodes up down eps fuel p).state.st := by
  rw [← pInferQ_none]
  exact pInferQ_tightens kb hw nodes up down eps none fuel p hs

/-! ### 6. non-vacuity -/

section examples

/-- one stored grounding `[0]` at UNKNOWN -/
private def exT : Table ℚ := [⟨[0], ⟨0, 1⟩, ⟨0, 1⟩⟩]

private theorem exT_inUnit : Table.InUnit exT := by
  intro r hr
  simp only [exT, List.mem_singleton] at hr
  subst hr
  norm_num

/-- the hypothesis is satisfiable, and an `aggRow` really moves both bounds (strictly), keeping the
leaf: `(0, 1)` becomes `(1/2, 3/4)` -/
example : Table.InUnit exT ∧
    Table.getD ⟨0, 1⟩ exT [0] = ⟨0, 1⟩ ∧
    Table.getD ⟨0, 1⟩ (aggRow exT [0] .both ⟨1/2, 3/4⟩).1 [0] = ⟨1/2, 3/4⟩ ∧
    ((Table.find? (aggRow exT [0] .both ⟨1/2, 3/4⟩).1 [0]).map (·.leaf)) = some ⟨0, 1⟩ := by
  refine ⟨exT_inUnit, ?_, ?_, ?_⟩
  · simp [exT, Table.getD, Table.find?]
  · simp [exT, aggRow, Table.getD, Table.find?, Table.setB, aggregate, clamp01]
    norm_num
  · simp [exT, aggRow, Table.find?, Table.setB]

/-- … which is what the theorem says -/
example : Table.Tightens exT (aggRow exT [0] .both ⟨1/2, 3/4⟩).1 ∧
    Table.InUnit (aggRow exT [0] .both ⟨1/2, 3/4⟩).1 :=
  aggRow_tightens exT [0] .both ⟨1/2, 3/4⟩ exT_inUnit

/-- a two-formula knowledge base: predicate `P` (formula `0`) and `¬P` (formula `1`) -/
private def exKB : FKB Nat ℚ := fun i =>
  match i with
  | 1 => { kind := .neg, ops := [0], bias := 1, alpha := 1, world := ⟨0, 1⟩ }
  | _ => { kind := .pred, bias := 1, alpha := 1, world := ⟨0, 1⟩ }

/-- `P(0)` is TRUE, `¬P(0)` is stored at UNKNOWN -/
private def exS : FState Nat ℚ :=
  ⟨[(0, [⟨[0], ⟨1, 1⟩, ⟨1, 1⟩⟩]), (1, [⟨[0], ⟨0, 1⟩, ⟨0, 1⟩⟩])]⟩

/-- the hypotheses of `fUp_tightens` are satisfiable and the call really tightens: the upper
bound of `¬P(0)` goes from `1` to `0` -/
example : WorldsInUnit exKB ∧ FState.InUnit exS ∧
    Table.getD ⟨0, 1⟩ (exS.get 1) [0] = ⟨0, 1⟩ ∧
    Table.getD ⟨0, 1⟩ ((fUp exKB 1 exS).1.get 1) [0] = ⟨0, 0⟩ := by
  refine ⟨?_, ?_, ?_, ?_⟩
  · intro i
    unfold exKB
    split <;> norm_num
  · intro i r hr
    by_cases h0 : i = 0
    · subst h0
      have : r = ⟨[0], ⟨1, 1⟩, ⟨1, 1⟩⟩ := by simpa [exS, FState.get] using hr
      subst this; norm_num
    · by_cases h1 : i = 1
      · subst h1
        have : r = ⟨[0], ⟨0, 1⟩, ⟨0, 1⟩⟩ := by simpa [exS, FState.get] using hr
        subst this; norm_num
      · exfalso
        have h0' : ¬ 0 = i := fun e => h0 e.symm
        have h1' : ¬ 1 = i := fun e => h1 e.symm
        simp [exS, FState.get, h0', h1'] at hr
  · simp [exS, FState.get, Table.getD, Table.find?]
  · simp [fUp, fUpNot, exKB, exS, FState.get, FState.set, Table.keys, Table.addg, Table.has,
      Table.find?, Table.getD, aggRow, Table.setB, aggregate, negB, clamp01]

end examples

end LNN
