/-
Lemmas about the formula registry model (`LnnVerif.Model.Registry`), used by property C08.

Specification vocabulary (namespace `LNN`): `Desc` (descendant-or-self), `Numbered`, `Closed`,
`Good`, `KeysNodup`, the invariants `WInv` (holds between the roots of one `add_knowledge` call)
and `Inv` (holds after every call).  Helper lemmas live in `LNN.Reg`.

The key lemma is `Reg.setNumber_top`: numbering a root on top of a set of numbered objects that is
closed under operands numbers exactly the missing descendants of the root, with fresh consecutive
numbers, and leaves a set that is again closed under operands.  Closedness is what makes it sound
that `set_formula_number` skips an operand that already has a number together with its whole
sub-DAG.
-/
import LnnVerif.Model.Registry
import Mathlib.Data.List.Nodup

namespace LNN

/-- `Desc ops o d`: `d` is `o` or a descendant of `o` (reflexive-transitive closure of `ops`) -/
inductive Desc (ops : ObjId → List ObjId) : ObjId → ObjId → Prop
  | refl (o : ObjId) : Desc ops o o
  | step {o c d : ObjId} : c ∈ ops o → Desc ops c d → Desc ops o d

/-- the object has a formula number -/
def Numbered (t : NumTab) (o : ObjId) : Prop := ∃ n, assoc t o = some n

/-- the numbered objects are closed under operands -/
def Closed (ops : ObjId → List ObjId) (t : NumTab) : Prop :=
  ∀ o, Numbered t o → ∀ c ∈ ops o, Numbered t c

/-- no two objects share a number, and every number in use is below `nx` -/
def Good (t : NumTab) (nx : Nat) : Prop :=
  (∀ o₁ o₂ n, assoc t o₁ = some n → assoc t o₂ = some n → o₁ = o₂) ∧
    ∀ o n, assoc t o = some n → n < nx

/-- an association list with at most one entry per key -/
def KeysNodup {β : Type} (l : List (Nat × β)) : Prop := (l.map Prod.fst).Nodup

namespace Reg

/-! ### association lists -/

theorem mem_of_assoc {β : Type} {l : List (Nat × β)} {a : Nat} {v : β}
    (h : assoc l a = some v) : (a, v) ∈ l := by
  induction l with
  | nil => simp [assoc] at h
  | cons p t ih =>
    obtain ⟨k, w⟩ := p
    simp only [assoc] at h
    split at h
    · cases h; subst_vars; exact List.mem_cons_self
    · exact List.mem_cons_of_mem _ (ih h)

theorem mem_keys_iff {β : Type} {l : List (Nat × β)} {k : Nat} :
    k ∈ l.map Prod.fst ↔ ∃ v, assoc l k = some v := by
  induction l with
  | nil => simp [assoc]
  | cons p t ih =>
    obtain ⟨k0, w⟩ := p
    simp only [List.map_cons, List.mem_cons, assoc, ih]
    by_cases h : k = k0
    · simp [h]
    · simp [h]

theorem assoc_of_mem {β : Type} {l : List (Nat × β)} {a : Nat} {v : β}
    (hk : KeysNodup l) (h : (a, v) ∈ l) : assoc l a = some v := by
  induction l with
  | nil => cases h
  | cons p t ih =>
    obtain ⟨k, w⟩ := p
    simp only [KeysNodup, List.map_cons, List.nodup_cons] at hk
    simp only [assoc]
    rcases List.mem_cons.mp h with h1 | h1
    · cases h1; simp
    · have hne : a ≠ k := by
        rintro rfl
        exact hk.1 (List.mem_map.mpr ⟨(a, v), h1, rfl⟩)
      simp only [hne, if_false]
      exact ih hk.2 h1

theorem mem_iff_assoc {β : Type} {l : List (Nat × β)} (hk : KeysNodup l) {a : Nat} {v : β} :
    (a, v) ∈ l ↔ assoc l a = some v :=
  ⟨assoc_of_mem hk, mem_of_assoc⟩

theorem assoc_eraseKey {β : Type} (l : List (Nat × β)) (a x : Nat) :
    assoc (eraseKey l a) x = if x = a then none else assoc l x := by
  induction l with
  | nil => simp [eraseKey, assoc]
  | cons p t ih =>
    obtain ⟨k, w⟩ := p
    unfold eraseKey at ih ⊢
    by_cases hk : k = a
    · subst hk
      simp only [List.filter_cons, bne_self_eq_false, Bool.false_eq_true, if_false, ih, assoc]
      by_cases hx : x = k <;> simp [hx]
    · have : (k != a) = true := by simpa using hk
      simp only [List.filter_cons, this, if_true, assoc, ih]
      by_cases hx : x = a
      · subst hx
        have : ¬ x = k := fun e => hk e.symm
        simp [this]
      · simp [hx]

theorem keysNodup_eraseKey {β : Type} {l : List (Nat × β)} (a : Nat) (h : KeysNodup l) :
    KeysNodup (eraseKey l a) :=
  List.Nodup.sublist ((List.filter_sublist (l := l)).map Prod.fst) h

theorem assoc_setNum (t : NumTab) (o idx x : Nat) :
    assoc (setNum t o idx) x = if x = o then some idx else assoc t x := by
  unfold setNum
  simp only [assoc, assoc_eraseKey]
  by_cases h : x = o <;> simp [h]

theorem keysNodup_setNum {t : NumTab} (o idx : Nat) (h : KeysNodup t) :
    KeysNodup (setNum t o idx) := by
  unfold setNum KeysNodup
  rw [List.map_cons, List.nodup_cons]
  refine ⟨?_, keysNodup_eraseKey o h⟩
  rw [mem_keys_iff]
  simp [assoc_eraseKey]

theorem setNum_eraseKey (t : NumTab) (o idx : Nat) :
    setNum (eraseKey t o) o idx = setNum t o idx := by
  simp [setNum, eraseKey, List.filter_filter]

theorem setNumber_eraseKey (ops : ObjId → List ObjId) (fuel o idx : Nat) (t : NumTab) :
    setNumber ops fuel o idx (eraseKey t o) = setNumber ops fuel o idx t := by
  cases fuel <;> simp [setNumber, setNum_eraseKey]

theorem assoc_setNode (nd : NodeTab) (n o k : Nat) :
    assoc (setNode nd n o) k = if k = n then some o else assoc nd k := by
  induction nd with
  | nil => simp [setNode, assoc]
  | cons p t ih =>
    obtain ⟨k0, v0⟩ := p
    unfold setNode
    by_cases h : k0 = n
    · subst h
      simp only [if_true, assoc]
      by_cases hk : k = k0 <;> simp [hk]
    · simp only [h, if_false, assoc, ih]
      by_cases hk : k = k0
      · subst hk
        simp [h]
      · simp [hk]

theorem keysNodup_setNode {nd : NodeTab} (n o : Nat) (h : KeysNodup nd) :
    KeysNodup (setNode nd n o) := by
  induction nd with
  | nil => simp [setNode, KeysNodup]
  | cons p t ih =>
    obtain ⟨k0, v0⟩ := p
    have h' := h
    simp only [KeysNodup, List.map_cons, List.nodup_cons] at h'
    unfold setNode
    by_cases hk : k0 = n
    · subst hk
      simpa [KeysNodup] using h
    · simp only [hk, if_false]
      unfold KeysNodup
      rw [List.map_cons, List.nodup_cons]
      refine ⟨?_, ih h'.2⟩
      rw [mem_keys_iff]
      rintro ⟨v, hv⟩
      rw [assoc_setNode] at hv
      simp only [hk, if_false] at hv
      exact h'.1 (mem_keys_iff.mpr ⟨v, hv⟩)

theorem setNode_eq_self {nd : NodeTab} {n o : Nat} (h : assoc nd n = some o) :
    setNode nd n o = nd := by
  induction nd with
  | nil => simp [assoc] at h
  | cons p t ih =>
    obtain ⟨k0, v0⟩ := p
    unfold setNode
    simp only [assoc] at h
    by_cases hk : k0 = n
    · subst hk
      simp only [if_true] at h ⊢
      cases h; rfl
    · have : ¬ n = k0 := fun e => hk e.symm
      simp only [this, if_false] at h
      simp only [hk, if_false, ih h]

/-! ### the graph -/

theorem mem_addNodes (l g : List ObjId) (x : ObjId) : x ∈ addNodes g l ↔ x ∈ g ∨ x ∈ l := by
  unfold addNodes
  induction l generalizing g with
  | nil => simp
  | cons o os ih =>
    rw [List.foldl_cons, ih]
    by_cases h : o ∈ g
    · simp only [h, if_true, List.mem_cons]
      constructor
      · rintro (h1 | h1)
        · exact Or.inl h1
        · exact Or.inr (Or.inr h1)
      · rintro (h1 | h1 | h1)
        · exact Or.inl h1
        · exact Or.inl (h1 ▸ h)
        · exact Or.inr h1
    · simp only [h, if_false, List.mem_append, List.mem_cons]
      tauto

theorem nodup_addNodes (l g : List ObjId) (h : g.Nodup) : (addNodes g l).Nodup := by
  unfold addNodes
  induction l generalizing g with
  | nil => simpa
  | cons o os ih =>
    rw [List.foldl_cons]
    apply ih
    by_cases ho : o ∈ g
    · simpa [ho] using h
    · simp only [ho, if_false]
      rw [List.nodup_append]
      refine ⟨h, List.nodup_singleton o, ?_⟩
      intro a ha b hb
      rw [List.mem_singleton] at hb
      subst hb
      rintro rfl
      exact ho ha

theorem addNodes_eq_self (l g : List ObjId) (h : ∀ x ∈ l, x ∈ g) : addNodes g l = g := by
  unfold addNodes
  induction l with
  | nil => rfl
  | cons o os ih =>
    rw [List.foldl_cons]
    have ho : o ∈ g := h o List.mem_cons_self
    simp only [ho, if_true]
    exact ih (fun x hx => h x (List.mem_cons_of_mem _ hx))

theorem desc_of_mem_reach (ops : ObjId → List ObjId) :
    ∀ (fuel : Nat) (o d : ObjId), d ∈ reach ops fuel o → Desc ops o d := by
  intro fuel
  induction fuel with
  | zero =>
    intro o d h
    simp only [reach, List.mem_singleton] at h
    subst h; exact Desc.refl _
  | succ k ih =>
    intro o d h
    simp only [reach, List.mem_cons, List.mem_flatMap] at h
    rcases h with h | ⟨c, hc, hd⟩
    · subst h; exact Desc.refl _
    · exact Desc.step hc (ih c d hd)

theorem self_mem_reach (ops : ObjId → List ObjId) (fuel : Nat) (o : ObjId) :
    o ∈ reach ops fuel o := by
  cases fuel <;> simp [reach]

theorem mem_reach_of_desc {ops : ObjId → List ObjId} {rank : ObjId → Nat}
    (hrank : ∀ o, ∀ c ∈ ops o, rank c < rank o) {o d : ObjId} (h : Desc ops o d) :
    ∀ fuel, rank o < fuel → d ∈ reach ops fuel o := by
  induction h with
  | refl o => intro fuel _; exact self_mem_reach ops fuel o
  | @step o c d hc _ ih =>
    intro fuel hf
    cases fuel with
    | zero => omega
    | succ k =>
      simp only [reach, List.mem_cons, List.mem_flatMap]
      have := hrank o c hc
      exact Or.inr ⟨c, hc, ih k (by omega)⟩

/-- with enough fuel `reach` lists exactly the descendants-or-self -/
theorem mem_reach_iff {ops : ObjId → List ObjId} {rank : ObjId → Nat}
    (hrank : ∀ o, ∀ c ∈ ops o, rank c < rank o) {fuel : Nat} {o : ObjId} (hf : rank o < fuel)
    (d : ObjId) : d ∈ reach ops fuel o ↔ Desc ops o d :=
  ⟨desc_of_mem_reach ops fuel o d, fun h => mem_reach_of_desc hrank h fuel hf⟩

theorem desc_numbered {ops : ObjId → List ObjId} {t : NumTab} (hc : Closed ops t) {o d : ObjId}
    (h : Desc ops o d) : Numbered t o → Numbered t d := by
  induction h with
  | refl o => exact id
  | step hmem _ ih => intro ho; exact ih (hc _ ho _ hmem)

/-! ### numbering -/

theorem good_setNum {t : NumTab} {idx : Nat} (o : ObjId) (h : Good t idx) :
    Good (setNum t o idx) (idx + 1) := by
  refine ⟨?_, ?_⟩
  · intro o₁ o₂ n h1 h2
    rw [assoc_setNum] at h1 h2
    by_cases e1 : o₁ = o <;> by_cases e2 : o₂ = o
    · rw [e1, e2]
    · simp only [e1, if_true, e2, if_false] at h1 h2
      cases h1
      exact absurd (h.2 _ _ h2) (Nat.lt_irrefl _)
    · simp only [e1, if_false, e2, if_true] at h1 h2
      cases h2
      exact absurd (h.2 _ _ h1) (Nat.lt_irrefl _)
    · simp only [e1, e2, if_false] at h1 h2
      exact h.1 _ _ _ h1 h2
  · intro x n hx
    rw [assoc_setNum] at hx
    by_cases e : x = o
    · simp only [e, if_true] at hx
      cases hx; exact Nat.lt_succ_self _
    · simp only [e, if_false] at hx
      exact Nat.lt_succ_of_lt (h.2 _ _ hx)

theorem good_eraseKey {t : NumTab} {nx : Nat} (o : ObjId) (h : Good t nx) :
    Good (eraseKey t o) nx := by
  have key : ∀ x n, assoc (eraseKey t o) x = some n → assoc t x = some n := by
    intro x n hx
    rw [assoc_eraseKey] at hx
    by_cases e : x = o
    · simp [e] at hx
    · simpa [e] using hx
  exact ⟨fun o₁ o₂ n h1 h2 => h.1 _ _ _ (key _ _ h1) (key _ _ h2), fun x n hx => h.2 _ _ (key _ _ hx)⟩

/-- `Ext ops U a na b nb`: the numbering `b` (next free index `nb`) arises from the numbering `a`
(next free index `na`) by giving fresh consecutive numbers to some objects of `U` that had none,
and every newly numbered object has all its operands numbered in `b`. -/
structure Ext (ops : ObjId → List ObjId) (U : ObjId → Prop) (a : NumTab) (na : Nat) (b : NumTab)
    (nb : Nat) : Prop where
  le : na ≤ nb
  frame : ∀ x n, assoc a x = some n → assoc b x = some n
  fresh : ∀ x n, assoc b x = some n → assoc a x = some n ∨ (na ≤ n ∧ n < nb)
  dense : ∀ n, na ≤ n → n < nb → ∃ x, assoc b x = some n
  good : Good a na → Good b nb
  keys : KeysNodup a → KeysNodup b
  sub : ∀ x, Numbered b x → Numbered a x ∨ U x
  newClosed : ∀ x, Numbered b x → ¬ Numbered a x → ∀ c ∈ ops x, Numbered b c

theorem Ext.refl (ops : ObjId → List ObjId) (U : ObjId → Prop) (a : NumTab) (na : Nat) :
    Ext ops U a na a na where
  le := Nat.le_refl _
  frame := fun _ _ h => h
  fresh := fun _ _ h => Or.inl h
  dense := fun _ h1 h2 => absurd (Nat.lt_of_le_of_lt h1 h2) (Nat.lt_irrefl _)
  good := id
  keys := id
  sub := fun _ h => Or.inl h
  newClosed := fun _ h h' => absurd h h'

theorem Ext.numbered {ops : ObjId → List ObjId} {U : ObjId → Prop} {a b : NumTab} {na nb : Nat}
    (e : Ext ops U a na b nb) {x : ObjId} (h : Numbered a x) : Numbered b x := by
  obtain ⟨n, hn⟩ := h
  exact ⟨n, e.frame _ _ hn⟩

theorem Ext.mono {ops : ObjId → List ObjId} {U V : ObjId → Prop} {a b : NumTab} {na nb : Nat}
    (e : Ext ops U a na b nb) (hUV : ∀ x, U x → V x) : Ext ops V a na b nb :=
  { e with sub := fun x h => (e.sub x h).imp_right (hUV x) }

theorem Ext.trans {ops : ObjId → List ObjId} {U : ObjId → Prop} {a b c : NumTab} {na nb nc : Nat}
    (e1 : Ext ops U a na b nb) (e2 : Ext ops U b nb c nc) : Ext ops U a na c nc where
  le := Nat.le_trans e1.le e2.le
  frame := fun x n h => e2.frame x n (e1.frame x n h)
  fresh := by
    intro x n h
    rcases e2.fresh x n h with h | ⟨h1, h2⟩
    · rcases e1.fresh x n h with h | ⟨h1, h2⟩
      · exact Or.inl h
      · exact Or.inr ⟨h1, Nat.lt_of_lt_of_le h2 e2.le⟩
    · exact Or.inr ⟨Nat.le_trans e1.le h1, h2⟩
  dense := by
    intro n h1 h2
    by_cases hn : n < nb
    · obtain ⟨x, hx⟩ := e1.dense n h1 hn
      exact ⟨x, e2.frame x n hx⟩
    · exact e2.dense n (Nat.le_of_not_lt hn) h2
  good := fun h => e2.good (e1.good h)
  keys := fun h => e2.keys (e1.keys h)
  sub := by
    intro x h
    rcases e2.sub x h with h | h
    · exact e1.sub x h
    · exact Or.inr h
  newClosed := by
    intro x hx hna d hd
    by_cases hb : Numbered b x
    · exact e2.numbered (e1.newClosed x hb hna d hd)
    · exact e2.newClosed x hx hb d hd

/-- the operand loop, given that the recursive call meets its specification on every operand -/
theorem numberOperands_ext {ops : ObjId → List ObjId}
    (recur : ObjId → Nat → NumTab → NumTab × Nat) :
    ∀ (cs : List ObjId),
      (∀ c ∈ cs, ∀ idx t, assoc t c = none →
        Ext ops (Desc ops c) t idx (recur c idx t).1 ((recur c idx t).2 + 1) ∧
          Numbered (recur c idx t).1 c) →
      ∀ acc : NumTab × Nat,
        Ext ops (fun x => ∃ c ∈ cs, Desc ops c x) acc.1 (acc.2 + 1)
            (numberOperands recur cs acc).1 ((numberOperands recur cs acc).2 + 1) ∧
          ∀ c ∈ cs, Numbered (numberOperands recur cs acc).1 c := by
  intro cs
  induction cs with
  | nil =>
    intro _ acc
    exact ⟨Ext.refl _ _ _ _, fun c hc => absurd hc List.not_mem_nil⟩
  | cons c cs ih =>
    intro hrec acc
    have hrec' : ∀ c' ∈ cs, ∀ idx t, assoc t c' = none →
        Ext ops (Desc ops c') t idx (recur c' idx t).1 ((recur c' idx t).2 + 1) ∧
          Numbered (recur c' idx t).1 c' :=
      fun c' hc' => hrec c' (List.mem_cons_of_mem _ hc')
    have hU : ∀ x, (∃ c' ∈ cs, Desc ops c' x) → ∃ c' ∈ c :: cs, Desc ops c' x :=
      fun x ⟨c', h1, h2⟩ => ⟨c', List.mem_cons_of_mem _ h1, h2⟩
    unfold numberOperands
    cases hc : assoc acc.1 c with
    | some n =>
      simp only
      obtain ⟨e, hnum⟩ := ih hrec' acc
      refine ⟨e.mono hU, ?_⟩
      intro c' hc'
      rcases List.mem_cons.mp hc' with h | h
      · subst h; exact e.numbered ⟨n, hc⟩
      · exact hnum c' h
    | none =>
      simp only
      obtain ⟨e1, hn1⟩ := hrec c List.mem_cons_self (acc.2 + 1) acc.1 hc
      obtain ⟨e2, hnum⟩ := ih hrec' (recur c (acc.2 + 1) acc.1)
      refine ⟨(e1.mono ?_).trans (e2.mono hU), ?_⟩
      · intro x hx
        exact ⟨c, List.mem_cons_self, hx⟩
      · intro c' hc'
        rcases List.mem_cons.mp hc' with h | h
        · subst h; exact e2.numbered hn1
        · exact hnum c' h

/-- **Specification of `set_formula_number` on an object without a number.** -/
theorem setNumber_ext {ops : ObjId → List ObjId} {rank : ObjId → Nat}
    (hrank : ∀ o, ∀ c ∈ ops o, rank c < rank o) :
    ∀ (fuel : Nat) (o : ObjId) (idx : Nat) (t : NumTab), rank o < fuel → assoc t o = none →
      Ext ops (Desc ops o) t idx (setNumber ops fuel o idx t).1
          ((setNumber ops fuel o idx t).2 + 1) ∧
        assoc (setNumber ops fuel o idx t).1 o = some idx := by
  intro fuel
  induction fuel with
  | zero => intro o idx t h; omega
  | succ k ih =>
    intro o idx t hf ho
    unfold setNumber
    have hm : ∀ x, x ≠ o → assoc (setNum t o idx) x = assoc t x := by
      intro x hx; rw [assoc_setNum]; simp [hx]
    have hmo : assoc (setNum t o idx) o = some idx := by rw [assoc_setNum]; simp
    obtain ⟨e, hops⟩ := numberOperands_ext (ops := ops) (setNumber ops k) (ops o)
      (fun c hc idx' t' hc' =>
        let r := ih c idx' t' (by have := hrank o c hc; omega) hc'
        ⟨r.1, ⟨idx', r.2⟩⟩)
      (setNum t o idx, idx)
    simp only at e hops
    have hne : ∀ x n, assoc t x = some n → x ≠ o := by
      rintro x n hx rfl
      rw [ho] at hx; cases hx
    refine ⟨?_, e.frame _ _ hmo⟩
    exact
      { le := Nat.le_trans (Nat.le_succ _) e.le
        frame := fun x n hx => e.frame x n (by rw [hm x (hne x n hx)]; exact hx)
        fresh := by
          intro x n hx
          rcases e.fresh x n hx with h | ⟨h1, h2⟩
          · by_cases hxo : x = o
            · subst hxo
              rw [hmo] at h; cases h
              exact Or.inr ⟨Nat.le_refl _, Nat.lt_of_lt_of_le (Nat.lt_succ_self _) e.le⟩
            · rw [hm x hxo] at h; exact Or.inl h
          · exact Or.inr ⟨Nat.le_of_succ_le h1, h2⟩
        dense := by
          intro n h1 h2
          by_cases hn : n = idx
          · subst hn; exact ⟨o, e.frame _ _ hmo⟩
          · exact e.dense n (by omega) h2
        good := fun h => e.good (good_setNum o h)
        keys := fun h => e.keys (keysNodup_setNum o idx h)
        sub := by
          intro x hx
          rcases e.sub x hx with ⟨n, hn⟩ | ⟨c, hc, hd⟩
          · by_cases hxo : x = o
            · subst hxo; exact Or.inr (Desc.refl _)
            · rw [hm x hxo] at hn; exact Or.inl ⟨n, hn⟩
          · exact Or.inr (Desc.step hc hd)
        newClosed := by
          intro x hx hna c hc
          by_cases hxo : x = o
          · subst hxo; exact hops c hc
          · refine e.newClosed x hx ?_ c hc
            rintro ⟨n, hn⟩
            rw [hm x hxo] at hn
            exact hna ⟨n, hn⟩ }

/-- **Key lemma.** `f.set_formula_number(idx)` on top of a numbering `t` that is injective, below
`idx` and closed under operands — `f` itself may or may not have a number already:
the result is injective, below `last + 1`, closed under operands; it numbers exactly the old
objects and the descendants of `f`; every object other than `f` keeps its number; `f` gets `idx`. -/
theorem setNumber_top {ops : ObjId → List ObjId} {rank : ObjId → Nat}
    (hrank : ∀ o, ∀ c ∈ ops o, rank c < rank o) {fuel : Nat} {f : ObjId} (hf : rank f < fuel)
    {t : NumTab} {idx : Nat} (hk : KeysNodup t) (hg : Good t idx) (hc : Closed ops t) :
    KeysNodup (setNumber ops fuel f idx t).1 ∧
    Good (setNumber ops fuel f idx t).1 ((setNumber ops fuel f idx t).2 + 1) ∧
    Closed ops (setNumber ops fuel f idx t).1 ∧
    (∀ x, Numbered (setNumber ops fuel f idx t).1 x ↔ Numbered t x ∨ Desc ops f x) ∧
    (∀ x n, x ≠ f → assoc t x = some n → assoc (setNumber ops fuel f idx t).1 x = some n) ∧
    assoc (setNumber ops fuel f idx t).1 f = some idx ∧
    idx ≤ (setNumber ops fuel f idx t).2 := by
  rw [← setNumber_eraseKey]
  have h0 : assoc (eraseKey t f) f = none := by rw [assoc_eraseKey]; simp
  have hne : ∀ x, x ≠ f → assoc (eraseKey t f) x = assoc t x := by
    intro x hx; rw [assoc_eraseKey]; simp [hx]
  obtain ⟨e, hown⟩ := setNumber_ext hrank fuel f idx (eraseKey t f) hf h0
  generalize setNumber ops fuel f idx (eraseKey t f) = res at e hown
  have hold : ∀ x, Numbered t x → Numbered res.1 x := by
    rintro x ⟨n, hn⟩
    by_cases hx : x = f
    · subst hx; exact ⟨idx, hown⟩
    · exact ⟨n, e.frame _ _ (by rw [hne x hx]; exact hn)⟩
  have hclosed : Closed ops res.1 := by
    intro x hx c hcx
    by_cases h0x : Numbered (eraseKey t f) x
    · obtain ⟨n, hn⟩ := h0x
      have hxf : x ≠ f := by
        rintro rfl
        rw [h0] at hn; cases hn
      rw [hne x hxf] at hn
      exact hold c (hc x ⟨n, hn⟩ c hcx)
    · exact e.newClosed x hx h0x c hcx
  refine ⟨e.keys (keysNodup_eraseKey f hk), e.good (good_eraseKey f hg), hclosed, ?_, ?_, hown, ?_⟩
  · intro x
    constructor
    · intro hx
      rcases e.sub x hx with ⟨n, hn⟩ | h
      · left
        by_cases hxf : x = f
        · subst hxf; rw [h0] at hn; cases hn
        · rw [hne x hxf] at hn; exact ⟨n, hn⟩
      · exact Or.inr h
    · rintro (h | h)
      · exact hold x h
      · exact desc_numbered hclosed h ⟨idx, hown⟩
  · intro x n hx hn
    exact e.frame _ _ (by rw [hne x hx]; exact hn)
  · rcases e.fresh f idx hown with h | ⟨_, h⟩
    · rw [h0] at h; cases h
    · exact Nat.le_of_lt_succ h

end Reg

/-! ### invariants of the registry -/

/-- Invariant that holds after every root of an `add_knowledge` call (`nodes` may lag behind:
it is refreshed only at the end of the call). -/
structure WInv (ops : ObjId → List ObjId) (r : Reg) : Prop where
  /-- an object has at most one formula number -/
  numKeys : KeysNodup r.num
  /-- no two objects share a number; every number is below `num_formulae` -/
  good : Good r.num r.next
  /-- numbered objects have numbered operands -/
  closed : Closed ops r.num
  graphNodup : r.graph.Nodup
  /-- the graph holds exactly the numbered objects -/
  graph_iff : ∀ o, o ∈ r.graph ↔ Numbered r.num o
  nodeKeys : KeysNodup r.nodes
  /-- an object found in `nodes` under `n` has formula number `n` -/
  nodes_sound : ∀ n o, assoc r.nodes n = some o → assoc r.num o = some n

/-- Invariant that holds after every `add_knowledge` call. -/
structure Inv (ops : ObjId → List ObjId) (r : Reg) : Prop extends WInv ops r where
  /-- every numbered object is in `nodes` under its number -/
  nodes_complete : ∀ o n, assoc r.num o = some n → assoc r.nodes n = some o

/-- the numbers in use are exactly `0 … num_formulae - 1` -/
def Dense (r : Reg) : Prop := ∀ n, n < r.next → ∃ o, numOf r o = some n

namespace Reg

theorem empty_inv (ops : ObjId → List ObjId) : Inv ops Reg.empty where
  numKeys := List.nodup_nil
  good := ⟨fun _ _ _ h => by simp [Reg.empty, assoc] at h, fun _ _ h => by simp [Reg.empty, assoc] at h⟩
  closed := fun _ ⟨_, h⟩ => by simp [Reg.empty, assoc] at h
  graphNodup := List.nodup_nil
  graph_iff := fun o => by simp [Reg.empty, Numbered, assoc]
  nodeKeys := List.nodup_nil
  nodes_sound := fun _ _ h => by simp [Reg.empty, assoc] at h
  nodes_complete := fun _ _ h => by simp [Reg.empty, assoc] at h

theorem registered_of {r : Reg} {f n : Nat} (h1 : assoc r.num f = some n)
    (h2 : assoc r.nodes n = some f) : registered r f = true := by
  unfold registered numOf
  rw [h1]
  simp [h2]

theorem of_registered {r : Reg} {f : Nat} (h : registered r f = true) :
    ∃ n, assoc r.num f = some n ∧ assoc r.nodes n = some f := by
  unfold registered numOf at h
  split at h
  · next n hn => exact ⟨n, hn, by simpa using h⟩
  · cases h

/-- re-adding an object that the model holds under its number changes nothing at all -/
theorem step_registered {ops : ObjId → List ObjId} (fuel : Nat) {r : Reg} {f : ObjId}
    (h : WInv ops r) (hreg : registered r f = true) : addRootStep ops fuel r f = r := by
  obtain ⟨n, hn, _⟩ := of_registered hreg
  have hg : addNodes r.graph (reach ops fuel f) = r.graph := by
    apply addNodes_eq_self
    intro x hx
    exact (h.graph_iff x).mpr (desc_numbered h.closed (desc_of_mem_reach ops fuel f x hx) ⟨n, hn⟩)
  unfold addRootStep
  simp only [hreg, if_true, hg]

theorem step_unregistered (ops : ObjId → List ObjId) (fuel : Nat) {r : Reg} {f : ObjId}
    (hreg : ¬ registered r f = true) :
    addRootStep ops fuel r f =
      { num := (setNumber ops fuel f r.next r.num).1
        next := (setNumber ops fuel f r.next r.num).2 + 1
        nodes := r.nodes
        graph := addNodes r.graph (reach ops fuel f) } := by
  unfold addRootStep
  simp only [hreg, Bool.false_eq_true, if_false]

/-- one root: the weak invariant is preserved, the graph grows by exactly the descendants of the
root, `nodes` is untouched -/
theorem step_winv {ops : ObjId → List ObjId} {rank : ObjId → Nat}
    (hrank : ∀ o, ∀ c ∈ ops o, rank c < rank o) {fuel : Nat} {r : Reg} {f : ObjId}
    (hf : rank f < fuel) (h : WInv ops r) :
    WInv ops (addRootStep ops fuel r f) ∧
      (∀ o, o ∈ (addRootStep ops fuel r f).graph ↔ o ∈ r.graph ∨ Desc ops f o) := by
  by_cases hreg : registered r f = true
  · rw [step_registered fuel h hreg]
    refine ⟨h, fun o => ⟨Or.inl, ?_⟩⟩
    rintro (ho | ho)
    · exact ho
    · obtain ⟨n, hn, _⟩ := of_registered hreg
      exact (h.graph_iff o).mpr (desc_numbered h.closed ho ⟨n, hn⟩)
  · obtain ⟨tk, tg, tc, tiff, tframe, _, _⟩ :=
      setNumber_top hrank hf (idx := r.next) h.numKeys h.good h.closed
    have hgraph : ∀ o, o ∈ addNodes r.graph (reach ops fuel f) ↔ o ∈ r.graph ∨ Desc ops f o := by
      intro o
      rw [mem_addNodes, mem_reach_iff hrank hf]
    rw [step_unregistered ops fuel hreg]
    refine ⟨?_, hgraph⟩
    exact
      { numKeys := tk
        good := tg
        closed := tc
        graphNodup := nodup_addNodes _ _ h.graphNodup
        graph_iff := fun o => by rw [hgraph, tiff, h.graph_iff]
        nodeKeys := h.nodeKeys
        nodes_sound := by
          intro n o hno
          have hn := h.nodes_sound n o hno
          by_cases hof : o = f
          · subst hof
            exact absurd (registered_of hn hno) hreg
          · exact tframe o n hof hn }

theorem foldl_step_winv {ops : ObjId → List ObjId} {rank : ObjId → Nat}
    (hrank : ∀ o, ∀ c ∈ ops o, rank c < rank o) {fuel : Nat} :
    ∀ (roots : List ObjId) (r : Reg), (∀ f ∈ roots, rank f < fuel) → WInv ops r →
      WInv ops (roots.foldl (addRootStep ops fuel) r) ∧
        (∀ o, o ∈ (roots.foldl (addRootStep ops fuel) r).graph ↔
          o ∈ r.graph ∨ ∃ f ∈ roots, Desc ops f o) := by
  intro roots
  induction roots with
  | nil => intro r _ h; exact ⟨h, fun o => by simp⟩
  | cons f fs ih =>
    intro r hf h
    obtain ⟨h1, g1⟩ := step_winv hrank (hf f List.mem_cons_self) h
    obtain ⟨h2, g2⟩ := ih (addRootStep ops fuel r f) (fun f' hf' => hf f' (List.mem_cons_of_mem _ hf')) h1
    rw [List.foldl_cons]
    refine ⟨h2, fun o => ?_⟩
    rw [g2, g1]
    simp only [List.mem_cons, exists_eq_or_imp, or_assoc]

/-- `self.nodes[node.formula_number] = node` -/
def writeNode (t : NumTab) (nd : NodeTab) (o : ObjId) : NodeTab :=
  match assoc t o with
  | some n => setNode nd n o
  | none => nd

/-- the loop `for node in graph.nodes: nodes[node.formula_number] = node` -/
theorem refresh_fold {t : NumTab}
    (hinj : ∀ o₁ o₂ n, assoc t o₁ = some n → assoc t o₂ = some n → o₁ = o₂) :
    ∀ (L : List ObjId) (nd : NodeTab), KeysNodup nd →
      (∀ n o, assoc nd n = some o → assoc t o = some n) →
      KeysNodup (L.foldl (writeNode t) nd) ∧
      (∀ n o, assoc (L.foldl (writeNode t) nd) n = some o → assoc t o = some n) ∧
      (∀ n o, assoc nd n = some o → assoc (L.foldl (writeNode t) nd) n = some o) ∧
      (∀ o ∈ L, ∀ n, assoc t o = some n → assoc (L.foldl (writeNode t) nd) n = some o) := by
  intro L
  induction L with
  | nil =>
    intro nd hk hs
    exact ⟨hk, hs, fun _ _ h => h, fun o ho => absurd ho List.not_mem_nil⟩
  | cons o os ih =>
    intro nd hk hs
    rw [List.foldl_cons]
    unfold writeNode
    cases ho : assoc t o with
    | none =>
      simp only
      obtain ⟨k1, s1, p1, c1⟩ := ih nd hk hs
      refine ⟨k1, s1, p1, ?_⟩
      intro o' ho' n hn
      rcases List.mem_cons.mp ho' with e | e
      · subst e; rw [ho] at hn; cases hn
      · exact c1 o' e n hn
    | some m =>
      simp only
      have hs' : ∀ n o', assoc (setNode nd m o) n = some o' → assoc t o' = some n := by
        intro n o' h
        rw [assoc_setNode] at h
        by_cases e : n = m
        · subst e
          simp only [if_true] at h
          cases h; exact ho
        · simp only [e, if_false] at h
          exact hs n o' h
      have hp : ∀ n o', assoc nd n = some o' → assoc (setNode nd m o) n = some o' := by
        intro n o' h
        rw [assoc_setNode]
        by_cases e : n = m
        · subst e
          simp only [if_true]
          rw [hinj o o' n ho (hs n o' h)]
        · simp only [e, if_false]; exact h
      obtain ⟨k1, s1, p1, c1⟩ := ih (setNode nd m o) (keysNodup_setNode m o hk) hs'
      refine ⟨k1, s1, fun n o' h => p1 n o' (hp n o' h), ?_⟩
      intro o' ho' n hn
      rcases List.mem_cons.mp ho' with e | e
      · subst e
        rw [ho] at hn; cases hn
        exact p1 _ _ (by rw [assoc_setNode]; simp)
      · exact c1 o' e n hn

theorem refresh_fold_id {t : NumTab} :
    ∀ (L : List ObjId) (nd : NodeTab), (∀ o ∈ L, ∀ n, assoc t o = some n → assoc nd n = some o) →
      L.foldl (writeNode t) nd = nd := by
  intro L
  induction L with
  | nil => intro nd _; rfl
  | cons o os ih =>
    intro nd h
    rw [List.foldl_cons]
    have : writeNode t nd o = nd := by
      unfold writeNode
      cases ho : assoc t o with
      | none => rfl
      | some m => exact setNode_eq_self (h o List.mem_cons_self m ho)
    rw [this]
    exact ih nd (fun o' ho' => h o' (List.mem_cons_of_mem _ ho'))

theorem refreshNodes_eq (r : Reg) :
    refreshNodes r = { r with nodes := r.graph.foldl (writeNode r.num) r.nodes } := rfl

/-- the end of an `add_knowledge` call re-establishes the full invariant -/
theorem refresh_inv {ops : ObjId → List ObjId} {r : Reg} (h : WInv ops r) :
    Inv ops (refreshNodes r) := by
  obtain ⟨k1, s1, _, c1⟩ := refresh_fold h.good.1 r.graph r.nodes h.nodeKeys h.nodes_sound
  rw [refreshNodes_eq]
  exact
    { numKeys := h.numKeys
      good := h.good
      closed := h.closed
      graphNodup := h.graphNodup
      graph_iff := h.graph_iff
      nodeKeys := k1
      nodes_sound := s1
      nodes_complete := fun o n hn => c1 o ((h.graph_iff o).mpr ⟨n, hn⟩) n hn }

theorem refresh_id {ops : ObjId → List ObjId} {r : Reg} (h : Inv ops r) : refreshNodes r = r := by
  rw [refreshNodes_eq, refresh_fold_id r.graph r.nodes (fun o _ n hn => h.nodes_complete o n hn)]

/-- one `add_knowledge(*roots)` call -/
theorem addCall_inv {ops : ObjId → List ObjId} {rank : ObjId → Nat}
    (hrank : ∀ o, ∀ c ∈ ops o, rank c < rank o) {fuel : Nat} {r : Reg} {roots : List ObjId}
    (hf : ∀ f ∈ roots, rank f < fuel) (h : Inv ops r) :
    Inv ops (addCall ops fuel r roots) ∧
      (∀ o, o ∈ (addCall ops fuel r roots).graph ↔ o ∈ r.graph ∨ ∃ f ∈ roots, Desc ops f o) := by
  obtain ⟨h1, g1⟩ := foldl_step_winv hrank roots r hf h.toWInv
  exact ⟨refresh_inv h1, g1⟩

/-- any history of `add_knowledge` calls -/
theorem addKnowledgeCalls_inv {ops : ObjId → List ObjId} {rank : ObjId → Nat}
    (hrank : ∀ o, ∀ c ∈ ops o, rank c < rank o) {fuel : Nat} :
    ∀ (calls : List (List ObjId)) (r : Reg), (∀ call ∈ calls, ∀ f ∈ call, rank f < fuel) →
      Inv ops r →
      Inv ops (addKnowledgeCalls ops fuel r calls) ∧
        (∀ o, o ∈ (addKnowledgeCalls ops fuel r calls).graph ↔
          o ∈ r.graph ∨ ∃ call ∈ calls, ∃ f ∈ call, Desc ops f o) := by
  intro calls
  induction calls with
  | nil => intro r _ h; exact ⟨h, fun o => by simp [addKnowledgeCalls]⟩
  | cons c cs ih =>
    intro r hf h
    obtain ⟨h1, g1⟩ := addCall_inv hrank (hf c List.mem_cons_self) h
    obtain ⟨h2, g2⟩ := ih (addCall ops fuel r c) (fun c' hc' => hf c' (List.mem_cons_of_mem _ hc')) h1
    unfold addKnowledgeCalls at h2 g2 ⊢
    rw [List.foldl_cons]
    refine ⟨h2, fun o => ?_⟩
    rw [g2, g1]
    simp only [List.mem_cons, exists_eq_or_imp, or_assoc]

theorem addKnowledge_eq_calls (ops : ObjId → List ObjId) (fuel : Nat) (r : Reg)
    (roots : List ObjId) :
    addKnowledge ops fuel r roots = addKnowledgeCalls ops fuel r (roots.map fun f => [f]) := by
  unfold addKnowledge addKnowledgeCalls
  rw [List.foldl_map]
  rfl

/-- a call all of whose roots are already numbered (hence registered) leaves the registry
literally unchanged -/
theorem addCall_id {ops : ObjId → List ObjId} {fuel : Nat} {r : Reg} (h : Inv ops r) :
    ∀ (roots : List ObjId), (∀ f ∈ roots, Numbered r.num f) → addCall ops fuel r roots = r := by
  intro roots hroots
  have hfold : roots.foldl (addRootStep ops fuel) r = r := by
    induction roots with
    | nil => rfl
    | cons f fs ih =>
      obtain ⟨n, hn⟩ := hroots f List.mem_cons_self
      rw [List.foldl_cons,
        step_registered fuel h.toWInv (registered_of hn (h.nodes_complete f n hn))]
      exact ih (fun f' hf' => hroots f' (List.mem_cons_of_mem _ hf'))
  unfold addCall
  rw [hfold, refresh_id h]

/-- one root per call keeps the numbers dense -/
theorem addRoot_dense {ops : ObjId → List ObjId} {rank : ObjId → Nat}
    (hrank : ∀ o, ∀ c ∈ ops o, rank c < rank o) {fuel : Nat} {r : Reg} {f : ObjId}
    (hf : rank f < fuel) (h : Inv ops r) (hd : Dense r) : Dense (addRoot ops fuel r f) := by
  by_cases hnum : Numbered r.num f
  · have : addRoot ops fuel r f = r := addCall_id h [f] (by simpa using hnum)
    rw [this]; exact hd
  · have hnone : assoc r.num f = none := by
      cases hx : assoc r.num f with
      | none => rfl
      | some n => exact absurd ⟨n, hx⟩ hnum
    have hreg : ¬ registered r f = true := by
      intro hreg
      obtain ⟨n, hn, _⟩ := of_registered hreg
      exact hnum ⟨n, hn⟩
    obtain ⟨e, _⟩ := setNumber_ext hrank fuel f r.next r.num hf hnone
    intro n hn
    have hstep := step_unregistered ops fuel hreg
    have hn' : n < (setNumber ops fuel f r.next r.num).2 + 1 := by
      simpa [addRoot, addCall, refreshNodes_eq, hstep] using hn
    have goal : ∃ o, assoc (setNumber ops fuel f r.next r.num).1 o = some n := by
      by_cases hlt : n < r.next
      · obtain ⟨o, ho⟩ := hd n hlt
        exact ⟨o, e.frame o n ho⟩
      · exact e.dense n (Nat.le_of_not_lt hlt) hn'
    simpa [addRoot, addCall, refreshNodes_eq, hstep, numOf] using goal

end Reg
end LNN
