/-
L3 — the data API: value encodings, validation, storing and reading facts.

Transcribes
  lnn/_exceptions.py  : AssertBounds = AssertBoundsType ; AssertBoundsLen ; AssertBoundsInputs ;
                        AssertBoundsBroadcasting, AssertFOLFacts, AssertFormulaInModel
  lnn/model.py        : Model.add_data (validation order)
  lnn/symbolic/logic/formula.py : Formula.add_data (propositional / first-order branch)
  lnn/_utils.py       : fact_to_bounds
  lnn/neural/parameters/node.py : flush, reset_world
-/
import LnnVerif.Model.Fol

namespace LNN

variable {α : Type} [Field α] [LinearOrder α]

inductive FactE | unknown | true_ | false_ | contradiction
deriving DecidableEq, Repr

def FactE.bounds : FactE → Bounds α
  | .unknown => ⟨0, 1⟩ | .true_ => ⟨1, 1⟩ | .false_ => ⟨0, 0⟩ | .contradiction => ⟨1, 0⟩

/-- a value as the user may pass it for one formula / grounding -/
inductive Val (α : Type) where
  | fact (f : FactE)          -- `Fact.X` (or `World.X`)
  | bool (b : Bool)
  | num (x : α)               -- a python float
  | tuple (xs : List α)       -- a tuple of floats, of any length
  | other                     -- str, int, None, list …: a type the API does not accept
deriving Repr

/-- the exception classes the API raises -/
inductive Err | typeError | indexError | exception
deriving DecidableEq, Repr

def Err.toString : Err → String
  | .typeError => "TypeError" | .indexError => "IndexError" | .exception => "Exception"

/-- `AssertBounds` followed by `fact_to_bounds`: type, then length, then range -/
def Val.toBounds : Val α → Except Err (Bounds α)
  | .fact f => .ok f.bounds
  | .bool b => .ok (if b then ⟨1, 1⟩ else ⟨0, 0⟩)
  | .num x => if 0 ≤ x ∧ x ≤ 1 then .ok ⟨x, x⟩ else .error .indexError
  | .tuple xs =>
    match xs with
    | [l, u] => if 0 ≤ l ∧ l ≤ 1 ∧ 0 ≤ u ∧ u ≤ 1 then .ok ⟨l, u⟩ else .error .indexError
    | _ => .error .indexError
  | .other => .error .typeError

/-- the value given for one formula in `Model.add_data({formula: …})` -/
inductive DataArg (α : Type) where
  | single (v : Val α)
  | perGrounding (entries : List (Gr × Val α))

/-- `Model.add_data` for one formula that is in the model. Validation of *every* entry precedes
the first mutation; an error returns no table, i.e. the formula's table is unchanged. -/
def addDataChecked (propositional : Bool) (world : Bounds α) (t : Table α) :
    DataArg α → Except Err (Table α)
  | .single v =>
    if propositional then do
      let b ← v.toBounds
      .ok (Table.addData world t [] b)
    else
      -- a first-order formula wants a dict: `Formula.add_data` raises a plain Exception
      .error .exception
  | .perGrounding entries =>
    if propositional then
      -- a dict is not an accepted bounds type for a propositional formula
      .error .typeError
    else do
      let bs ← entries.mapM fun e => do
        let b ← e.2.toBounds
        pure (e.1, b)
      .ok (bs.foldl (fun t e => Table.addData world t e.1 e.2) t)

/-- `formula.flush()`: every stored row is asserted UNKNOWN (data and working bounds), for
propositional and first-order formulae alike -/
def flushTable (t : Table α) : Table α := Table.assertAll ⟨0, 1⟩ t

/-- `reset_world(w)` / `add_knowledge(world=w)` on a non-empty table: every stored row is asserted
to be the new default (data and working bounds) -/
def resetWorldTable (w : Bounds α) (t : Table α) : Table α := Table.assertAll w t

end LNN
