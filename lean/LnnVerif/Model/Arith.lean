/-
L0 — arithmetic of the weighted Łukasiewicz neurons.

Transcribes (file : function)
  lnn/_utils.py                                   : val_clamp, negate_bounds
  lnn/neural/methods/lukasiewicz.py               : _and_upward, _or_upward, _implies_upward, *_downward
  lnn/neural/methods/lukasiewicztransparent.py    : same (differs only in _or_upward for negative weights)
  lnn/neural/activations/neuron/neuron.py         : downward_conditional

Everything is a total computable function over an arbitrary ordered field `α`; the driver runs it
at `α = ℚ`, the theorems hold for every ordered field (in particular ℝ).
-/
import Mathlib.Algebra.Order.Field.Basic

namespace LNN

variable {α : Type} [Field α] [LinearOrder α]

/-- A pair of truth bounds `(L, U)`. -/
structure Bounds (α : Type) where
  lo : α
  hi : α
deriving DecidableEq, Repr

/-- `val_clamp` / `.clamp(0, 1)`: value-exact clamp to `[0,1]`. -/
def clamp01 (x : α) : α := min 1 (max 0 x)

/-- `_utils.negate_bounds`: `(1 - U, 1 - L)`. -/
def negB (b : Bounds α) : Bounds α := ⟨1 - b.hi, 1 - b.lo⟩

/-- One operand as an activation sees it: weight, lower bound, upper bound. -/
structure Opd (α : Type) where
  w : α
  lo : α
  hi : α
deriving DecidableEq, Repr

def Opd.neg (o : Opd α) : Opd α := ⟨o.w, 1 - o.hi, 1 - o.lo⟩

def termLo (o : Opd α) : α := o.w * (1 - o.lo)   -- `input_terms` row 0
def termHi (o : Opd α) : α := o.w * (1 - o.hi)   -- `input_terms` row 1

def sumW (ops : List (Opd α)) : α := (ops.map (·.w)).sum

/-- `_and_upward`: `clamp(bias - (1 - bounds) @ weights)` for both bounds. -/
def andUp (b : α) (ops : List (Opd α)) : Bounds α :=
  ⟨clamp01 (b - (ops.map termLo).sum), clamp01 (b - (ops.map termHi).sum)⟩

/-- `_or_upward`. `transparent = true` is `LukasiewiczTransparent`, which subtracts
`Σ min(w, 0)`; for non-negative weights both variants coincide (`orUp_variant_eq`). -/
def orUp (transparent : Bool) (b : α) (ops : List (Opd α)) : Bounds α :=
  let corr : α := if transparent then (ops.map (fun o => min o.w 0)).sum else 0
  ⟨clamp01 (1 - b - corr + (ops.map (fun o => o.w * o.lo)).sum),
   clamp01 (1 - b - corr + (ops.map (fun o => o.w * o.hi)).sum)⟩

/-- `_implies_upward` on exactly two operands (`x → y`); the code indexes `weights[0]`,
`weights[1]`, so any other operand count is outside the model: we return the unknown interval. -/
def impliesUp (b : α) (ops : List (Opd α)) : Bounds α :=
  match ops with
  | [x, y] => ⟨clamp01 (1 - b + x.w * (1 - x.hi) + y.w * y.lo),
               clamp01 (1 - b + x.w * (1 - x.lo) + y.w * y.hi)⟩
  | _ => ⟨0, 1⟩

/-- `_and_downward` + `downward_conditional`, per operand `(lower, upper)` proposals.

* `fL`, `fU` are the two components of `f_inv` (offsets applied when the operator bound sits on a
  clamp boundary),
* every operand sees the *opposite* bounds of the other operands (`partial_and_input.flip`),
* the divisor is `weights.clamp(min=0)`,
* the alpha gates: lower proposals only when `L > 1 - alpha`, upper ones only when `U < alpha`,
* operands of weight `0` get the unknown interval. -/
def andDown (b alpha L U : α) (ops : List (Opd α)) : List (Bounds α) :=
  let fL := L + (if L ≤ 0 then b - sumW ops else 0)
  let fU := U + (if 1 ≤ U then b - 1 else 0)
  let sLo := (ops.map termLo).sum
  let sHi := (ops.map termHi).sum
  ops.map fun o =>
    if o.w = 0 then ⟨0, 1⟩ else
      let wc := max o.w 0
      let lo := if 1 - alpha < L then clamp01 (1 + (fL - b + (sHi - termHi o)) / wc) else 0
      let hi := if U < alpha then clamp01 (1 + (fU - b + (sLo - termLo o)) / wc) else 1
      ⟨lo, hi⟩

/-- `_or_downward`: negate operator and operands, run the And inverse, negate back. -/
def orDown (b alpha L U : α) (ops : List (Opd α)) : List (Bounds α) :=
  (andDown b alpha (1 - U) (1 - L) (ops.map Opd.neg)).map negB

/-- `_implies_downward`: And inverse on `(x, ¬y)` with the negated operator, `y` negated back. -/
def impliesDown (b alpha L U : α) (ops : List (Opd α)) : List (Bounds α) :=
  match ops with
  | [x, y] =>
    match andDown b alpha (1 - U) (1 - L) [x, y.neg] with
    | [px, py] => [px, negB py]
    | r => r
  | _ => ops.map fun _ => ⟨0, 1⟩

end LNN
