/-
L8 — forward-mode model of autograd for the clamp and the upward activations.

A dual number carries a value and a tangent (the directional derivative along an arbitrary
direction in parameter/input space). `detach` cuts the tangent, exactly what `Tensor.detach()` does
to the gradient. Transcribes lnn/_utils.py : val_clamp and the `_and_upward`, `_or_upward`,
`_implies_upward` of lnn/neural/methods/lukasiewicztransparent.py.
-/
import LnnVerif.Model.Arith

namespace LNN

variable {α : Type} [Field α] [LinearOrder α]

structure Dual (α : Type) where
  val : α
  tan : α
deriving DecidableEq, Repr

namespace Dual

def const (x : α) : Dual α := ⟨x, 0⟩
def add (a b : Dual α) : Dual α := ⟨a.val + b.val, a.tan + b.tan⟩
def sub (a b : Dual α) : Dual α := ⟨a.val - b.val, a.tan - b.tan⟩
def mul (a b : Dual α) : Dual α := ⟨a.val * b.val, a.tan * b.val + a.val * b.tan⟩
def detach (a : Dual α) : Dual α := ⟨a.val, 0⟩

instance : Add (Dual α) := ⟨add⟩
instance : Sub (Dual α) := ⟨sub⟩
instance : Mul (Dual α) := ⟨mul⟩

@[simp] theorem add_val (a b : Dual α) : (a + b).val = a.val + b.val := rfl
@[simp] theorem add_tan (a b : Dual α) : (a + b).tan = a.tan + b.tan := rfl
@[simp] theorem sub_val (a b : Dual α) : (a - b).val = a.val - b.val := rfl
@[simp] theorem sub_tan (a b : Dual α) : (a - b).tan = a.tan - b.tan := rfl
@[simp] theorem mul_val (a b : Dual α) : (a * b).val = a.val * b.val := rfl
@[simp] theorem mul_tan (a b : Dual α) : (a * b).tan = a.tan * b.val + a.val * b.tan := rfl
@[simp] theorem const_val (x : α) : (const x).val = x := rfl
@[simp] theorem const_tan (x : α) : (const x : Dual α).tan = 0 := rfl
@[simp] theorem detach_val (a : Dual α) : a.detach.val = a.val := rfl
@[simp] theorem detach_tan (a : Dual α) : a.detach.tan = 0 := rfl

theorem ext' {a b : Dual α} (h1 : a.val = b.val) (h2 : a.tan = b.tan) : a = b := by
  cases a; cases b; simp_all

/-- `.clamp(min=0)`: derivative 1 where the input is above 0, else 0 -/
def clampMin0 (a : Dual α) : Dual α := ⟨max a.val 0, if 0 < a.val then a.tan else 0⟩
/-- `.clamp(max=0)` -/
def clampMax0 (a : Dual α) : Dual α := ⟨min a.val 0, if a.val < 0 then a.tan else 0⟩

/-- `val_clamp(x) = x - (x.detach() - 1).clamp(min=0) - (x.detach() - 0).clamp(max=0)` -/
def valClamp (x : Dual α) : Dual α :=
  x - clampMin0 (x.detach - const 1) - clampMax0 (x.detach - const 0)

def sum : List (Dual α) → Dual α
  | [] => const 0
  | d :: ds => d + sum ds

/-- `_and_upward` on one bound: `val_clamp(bias - Σ (1 - xᵢ) wᵢ)` -/
def andPreD (b : Dual α) (ws xs : List (Dual α)) : Dual α :=
  b - sum (List.zipWith (fun w x => (const 1 - x) * w) ws xs)
def andUpD (b : Dual α) (ws xs : List (Dual α)) : Dual α := valClamp (andPreD b ws xs)

/-- `_or_upward` of the plain Łukasiewicz form `1 - bias + Σ xᵢ wᵢ` (the transparent variant
subtracts `Σ min(wᵢ, 0)`, which is identically 0 with zero derivative for positive weights) -/
def orPreD (b : Dual α) (ws xs : List (Dual α)) : Dual α :=
  const 1 - b + sum (List.zipWith (fun w x => x * w) ws xs)
def orUpD (b : Dual α) (ws xs : List (Dual α)) : Dual α := valClamp (orPreD b ws xs)

/-- `_implies_upward` on one bound: `val_clamp(1 - bias + w₀ (1 - x) + w₁ y)` -/
def impPreD (b w0 w1 x y : Dual α) : Dual α := const 1 - b + w0 * (const 1 - x) + w1 * y
def impUpD (b w0 w1 x y : Dual α) : Dual α := valClamp (impPreD b w0 w1 x y)

end Dual

end LNN
