/-
Executable model of the formula registry of `lnn.Model` (repaired repository):
`Model._add_knowledge` (lnn/model.py) and `Formula.set_formula_number`
(lnn/symbolic/logic/formula.py).

Formula OBJECTS are graph nodes by identity (`__eq__` is `is`, `__hash__` is `id`), so an object is
modelled by an explicit identifier `ObjId`; the model never looks at the structure of a formula.
"The same sub-formula object used twice" is the same id occurring as an operand of several objects;
"two structurally equal sub-formulae written as separate objects" are two different ids.  For `Iff`
and `XOr` the generated inner formulae are operands of the composite, i.e. ordinary objects.

A formula universe is `ops : ObjId → List ObjId`, the operand objects of every object, in order.
It is acyclic (Python formulae are built bottom-up); the theorems express this by a rank function.
Recursion over the formula DAG is by fuel so that every definition is total and executable; fuel
`> rank o` is enough for object `o`.

Core Lean only, no imports.
-/

namespace LNN

/-- identity of a formula object (Python `id(f)`) -/
abbrev ObjId := Nat

/-- `formula_number` of the objects numbered so far: object ↦ number -/
abbrev NumTab := List (ObjId × Nat)

/-- `Model.nodes`: number ↦ object -/
abbrev NodeTab := List (Nat × ObjId)

/-- association-list lookup, first match (`dict.get`) -/
def assoc {β : Type} : List (Nat × β) → Nat → Option β
  | [], _ => none
  | (k, v) :: t, a => if a = k then some v else assoc t a

/-- remove every entry with key `a` -/
def eraseKey {β : Type} (l : List (Nat × β)) (a : Nat) : List (Nat × β) :=
  l.filter (fun p => p.1 != a)

/-- `self.formula_number = idx`: the attribute is overwritten, an object has at most one number -/
def setNum (num : NumTab) (o : ObjId) (idx : Nat) : NumTab :=
  (o, idx) :: eraseKey num o

/-- `self.nodes[n] = o` on a Python dict: an existing key keeps its place and gets the new value,
a new key is appended -/
def setNode : NodeTab → Nat → ObjId → NodeTab
  | [], n, o => [(n, o)]
  | (k, v) :: t, n, o => if k = n then (n, o) :: t else (k, v) :: setNode t n o

/-- The state of the registry.
* `num`   — the attribute `formula_number` of every object (`none` = Python `None`);
* `next`  — `Model.num_formulae`;
* `nodes` — `Model.nodes`;
* `graph` — the node set of `Model.graph` in insertion order (what `for node in self.graph.nodes`,
            hence every model-wide traversal, iterates over). -/
structure Reg where
  num : NumTab
  next : Nat
  nodes : NodeTab
  graph : List ObjId
  deriving Repr, DecidableEq

/-- `Model()` : nothing numbered, `num_formulae = 0`, empty `nodes`, empty graph -/
def Reg.empty : Reg := ⟨[], 0, [], []⟩

/-- `o.formula_number` -/
def numOf (r : Reg) (o : ObjId) : Option Nat := assoc r.num o

/-- The loop `for operand in self.operands:` of `set_formula_number`; the state is
`(formula numbers, idx)`, `recur` is the recursive call `operand.set_formula_number`:
```
    if operand.formula_number is None:
        idx = operand.set_formula_number(idx + 1)
```
(`operands_by_number` is only printed, never read, and is not modelled.) -/
def numberOperands (recur : ObjId → Nat → NumTab → NumTab × Nat) :
    List ObjId → NumTab × Nat → NumTab × Nat
  | [], acc => acc
  | c :: cs, acc =>
    match assoc acc.1 c with
    | some _ => numberOperands recur cs acc
    | none => numberOperands recur cs (recur c (acc.2 + 1) acc.1)

/-- `Formula.set_formula_number(self, idx) -> int`:
```
    self.formula_number = idx
    for operand in self.operands: ...      -- `numberOperands`
    return idx
```
Returns the new formula numbers and the last index used. With no fuel left only the object itself
is numbered (never happens when `fuel > rank o`). -/
def setNumber (ops : ObjId → List ObjId) : Nat → ObjId → Nat → NumTab → NumTab × Nat
  | 0, o, idx, num => (setNum num o idx, idx)
  | fuel + 1, o, idx, num =>
    numberOperands (setNumber ops fuel) (ops o) (setNum num o idx, idx)

/-- the object `o` and all its descendants: the nodes that `self.graph.add_node(f)` and
`self.graph.add_edges_from(f.edge_list)` touch (`edge_list` holds the edges of the whole
sub-formula DAG of `f`); may list an object several times -/
def reach (ops : ObjId → List ObjId) : Nat → ObjId → List ObjId
  | 0, o => [o]
  | fuel + 1, o => o :: (ops o).flatMap (reach ops fuel)

/-- adding nodes to a `networkx` graph: a node that is already present (same object) is left
alone, a new one is appended to the insertion-ordered node dict -/
def addNodes (g : List ObjId) (l : List ObjId) : List ObjId :=
  l.foldl (fun g o => if o ∈ g then g else g ++ [o]) g

/-- the guard `self.nodes.get(f.formula_number) is f` (its negation guards the numbering);
`nodes.get(None)` is `None` -/
def registered (r : Reg) (f : ObjId) : Bool :=
  match numOf r f with
  | some n => assoc r.nodes n == some f
  | none => false

/-- one iteration of the first loop of `_add_knowledge`:
```
    self.graph.add_node(f)
    self.graph.add_edges_from(f.edge_list)
    if self.nodes.get(f.formula_number) is not f:
        self.num_formulae = f.set_formula_number(self.num_formulae) + 1
```
`nodes` is NOT touched here. -/
def addRootStep (ops : ObjId → List ObjId) (fuel : Nat) (r : Reg) (f : ObjId) : Reg :=
  let graph := addNodes r.graph (reach ops fuel f)
  if registered r f then { r with graph := graph }
  else
    let res := setNumber ops fuel f r.next r.num
    { num := res.1, next := res.2 + 1, nodes := r.nodes, graph := graph }

/-- the second loop of `_add_knowledge`:
```
    for node in self.graph.nodes:
        ...
        self.nodes[node.formula_number] = node
```
(an object without a number is skipped here; by the invariant there is none) -/
def refreshNodes (r : Reg) : Reg :=
  let write : NodeTab → ObjId → NodeTab := fun nd o =>
    match numOf r o with
    | some n => setNode nd n o
    | none => nd
  { r with nodes := r.graph.foldl write r.nodes }

/-- one call `model.add_knowledge(*roots)` / `model._add_knowledge(*roots)`: all roots are
numbered first, `nodes` is refreshed once at the end -/
def addCall (ops : ObjId → List ObjId) (fuel : Nat) (r : Reg) (roots : List ObjId) : Reg :=
  refreshNodes (roots.foldl (addRootStep ops fuel) r)

/-- `model.add_knowledge(f)` with a single root (also `set_query(f)`, `add_propositions`, …) -/
def addRoot (ops : ObjId → List ObjId) (fuel : Nat) (r : Reg) (f : ObjId) : Reg :=
  addCall ops fuel r [f]

/-- the roots added one call each: `for f in roots: model.add_knowledge(f)` -/
def addKnowledge (ops : ObjId → List ObjId) (fuel : Nat) (r : Reg) (roots : List ObjId) : Reg :=
  roots.foldl (addRoot ops fuel) r

/-- an arbitrary history of calls `model.add_knowledge(*call)` -/
def addKnowledgeCalls (ops : ObjId → List ObjId) (fuel : Nat) (r : Reg)
    (calls : List (List ObjId)) : Reg :=
  calls.foldl (addCall ops fuel) r

/-- `Model.nodes.values()`: what `flush`, `reset_bounds`, `parameters`, … iterate over -/
def Reg.values (r : Reg) : List ObjId := r.nodes.map Prod.snd

end LNN
