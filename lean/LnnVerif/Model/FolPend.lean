/-
Grounding propagation THROUGH a partially quantified formula.

A quantifier with free variables that is used as a sub-formula (`S(x) → ∀y. …`, `¬∃y. …`, an outer
quantifier over an inner one) receives groundings of its free variables from its parent
(`_Quantifier._add_groundings`). It remembers the ones that were new (`_new_groundings`) and, at
the start of its next `downward`, instantiates its body at them: every pending grounding is
combined with every value the quantified variables take in the body's table
(`_propagate_groundings`: cross join, columns sorted back into the body's variable order), and
the resulting rows are created in the body at its world default.

This file layers that bookkeeping over the calls of `Model/Fol.lean`, which stay as they are:
the pending list of a quantifier is exactly the rows that calls of OTHER formulae appended to its
table (they are appended in order, so the difference of the key lists is the list).
-/
import LnnVerif.Model.Fol
import LnnVerif.Model.PropEngine

namespace LNN

variable {ι α : Type} [DecidableEq ι] [Field α] [LinearOrder α]

/-- first-order state plus the groundings each partially quantified formula still has to pass on
to its body -/
structure PState (ι α : Type) where
  st : FState ι α
  pend : List (ι × List Gr) := []

def isPartialQuant (n : FNode ι α) : Bool :=
  (n.kind = .all || n.kind = .ex) && !n.free.isEmpty

def PState.pendOf (p : PState ι α) (i : ι) : List Gr :=
  match p.pend.find? (fun q => decide (q.1 = i)) with
  | some q => q.2
  | none => []

def setPend (pend : List (ι × List Gr)) (i : ι) (gs : List Gr) : List (ι × List Gr) :=
  (i, gs) :: pend.filter (fun q => !decide (q.1 = i))

/-- after a call of formula `i` took the tables from `s` to `s'`: every operand of `i` that is a
partially quantified formula remembers the rows the call appended to its table -/
def notePend (kb : FKB ι α) (i : ι) (s s' : FState ι α) (pend : List (ι × List Gr)) :
    List (ι × List Gr) :=
  (dedup (kb i).ops).foldl (fun pend j =>
    if isPartialQuant (kb j) ∧ j ≠ i then
      let old := (s.get j).keys
      let new := (s'.get j).keys.filter fun g => !old.contains g
      if new.isEmpty then pend
      else
        let cur := match pend.find? (fun q => decide (q.1 = j)) with
          | some q => q.2
          | none => []
        setPend pend j (cur ++ new)
    else pend) pend

/-- the rows `_propagate_groundings` creates in the body `j` of quantifier `i` -/
def propagatedRows (n : FNode ι α) (pending : List Gr) (bodyKeys : List Gr) : List Gr :=
  match bodyKeys with
  | [] => []
  | g0 :: _ =>
    let ar := g0.length
    let qcols := (List.range ar).filter fun c => !n.free.contains c
    let cols := n.free ++ qcols
    let rowsQ := bodyKeys.map fun g => qcols.map fun c => g.getD c 0
    let merged := pending.flatMap fun a => rowsQ.map fun b => a ++ b
    merged.map fun r => Rel.project cols r (List.range ar)

/-- `_propagate_groundings` of quantifier `i` (only reached with a non-empty body table) -/
def propagateQ (kb : FKB ι α) (i : ι) (p : PState ι α) : PState ι α :=
  let n := kb i
  match n.ops with
  | [] => p
  | j :: _ =>
    let pg := p.pendOf i
    if pg.isEmpty then p else
      let gs := propagatedRows n pg (p.st.get j).keys
      let s1 := p.st.set j (Table.addg (kb j).world (p.st.get j) gs)
      -- the body may itself be a partially quantified formula: it remembers what it was given
      ⟨s1, notePend kb i p.st s1 (setPend p.pend i [])⟩

def pUp (kb : FKB ι α) (i : ι) (p : PState ι α) : PState ι α × α :=
  let r := fUp kb i p.st
  (⟨r.1, notePend kb i p.st r.1 p.pend⟩, r.2)

def pDown (kb : FKB ι α) (i : ι) (idx : Option Nat) (p : PState ι α) : PState ι α × α :=
  let n := kb i
  let p1 :=
    if isPartialQuant n then
      match n.ops with
      | j :: _ => if (p.st.get j).isEmpty then p else propagateQ kb i p
      | [] => p
    else p
  let r := fDown kb i idx p1.st
  (⟨r.1, notePend kb i p1.st r.1 p1.pend⟩, r.2)

def runPCall (kb : FKB ι α) (c : FCall ι) (p : PState ι α) : PState ι α × α :=
  match c with
  | .up i => pUp kb i p
  | .down i idx => pDown kb i idx p

def runPCalls (kb : FKB ι α) : List (FCall ι) → PState ι α → PState ι α × α
  | [], p => (p, 0)
  | c :: rest, p =>
    let r := runPCall kb c p
    let t := runPCalls kb rest r.1
    (t.1, r.2 + t.2)

structure PInferResult (ι α : Type) where
  state : PState ι α
  steps : Nat
  total : α
  converged : Bool

/-- `Model._infer` with the pending lists carried along (same loop as `fInfer`) -/
def pInfer (kb : FKB ι α) (nodes : List ι) (up down : List (FCall ι)) (eps : α) :
    Nat → PState ι α → PInferResult ι α
  | 0, p => ⟨p, 0, 0, false⟩
  | fuel + 1, p =>
    let n0 := nGroundings nodes p.st
    let u := runPCalls kb up p
    let d := runPCalls kb down u.1
    let diff := u.2 + d.2
    if diff ≤ eps ∧ nGroundings nodes d.1.st = n0 then ⟨d.1, 1, diff, true⟩
    else
      let t := pInfer kb nodes up down eps fuel d.1
      ⟨t.state, t.steps + 1, diff + t.total, t.converged⟩

/-! ### node-level calls restricted to given groundings (`upward(groundings=…)`, `downward(groundings=…)`)

Only a connective whose operands all carry the operator's variable tuple (the join-free branch
`_fol_bounds`) honours the restriction: the given groundings replace the union of the operands'
(and, downward, the operator's) groundings; they are created in the operands and in the operator
and only they are evaluated. Every other formula ignores the argument. -/

def groundingsR (kb : FKB ι α) (i : ι) (down : Bool) (restrict : Option (List Gr)) (s : FState ι α) :
    FState ι α × Option (List Gr × List (List Gr)) :=
  match restrict with
  | none => groundings kb i down s
  | some gs0 =>
    let n := kb i
    if isHomogeneous n then
      let gs := dedupKeepFirst gs0
      let s1 := addAll kb s (n.ops.map fun j => (j, gs))
      let s2 := addAll kb s1 [(i, gs)]
      (s2, some (gs, n.ops.map fun _ => gs))
    else groundings kb i down s

/-- `fUpConn` over the restricted grounding management -/
def fUpConnR (kb : FKB ι α) (i : ι) (restrict : Option (List Gr)) (s : FState ι α) : FState ι α × α :=
  let n := kb i
  match groundingsR kb i false restrict s with
  | (s1, none) => (s1, 0)
  | (s1, some (ogs, per)) =>
    let items := (List.range ogs.length).filterMap fun k =>
      let bs := List.zipWith (fun j g => Table.getD (kb j).world (s1.get j) g) n.ops (rowsOf per k)
      if (bs.take 2).any (isContra n.alpha) then none else some (ogs.getD k [], fActUp n bs)
    let r := items.foldl (fun (acc : Table α × α) it =>
      let a := aggRow acc.1 it.1 .both it.2
      (a.1, acc.2 + a.2)) (s1.get i, 0)
    (s1.set i r.1, r.2)

/-- `fDownConn` over the restricted grounding management -/
def fDownConnR (kb : FKB ι α) (i : ι) (idx : Option Nat) (restrict : Option (List Gr)) (s : FState ι α) :
    FState ι α × α :=
  let n := kb i
  match groundingsR kb i true restrict s with
  | (s1, none) => (s1, 0)
  | (s1, some (ogs, per)) =>
    let items := (List.range ogs.length).filterMap fun k =>
      let gsk := rowsOf per k
      let bs := List.zipWith (fun j g => Table.getD (kb j).world (s1.get j) g) n.ops gsk
      let ob := Table.getD n.world (s1.get i) (ogs.getD k [])
      if (bs.take 2).any (isContra n.alpha) || isContra n.alpha ob then none
      else some (gsk, fActDown n ob bs)
    if items.isEmpty then (s1, 0) else
      (List.zip (List.range n.ops.length) n.ops).foldl (fun (acc : FState ι α × α) p =>
        if idx = none ∨ idx = some p.1 then
          let props := items.filterMap fun it =>
            match it.1[p.1]?, it.2[p.1]? with
            | some g, some b => some (g, b)
            | _, _ => none
          let w := writeMerged (acc.1.get p.2) props
          (acc.1.set p.2 w.1, acc.2 + w.2)
        else acc) (s1, 0)

theorem groundingsR_none (kb : FKB ι α) (i : ι) (down : Bool) (s : FState ι α) :
    groundingsR kb i down none s = groundings kb i down s := rfl

/-- without a restriction the restricted calls are the plain ones -/
theorem fUpConnR_none (kb : FKB ι α) (i : ι) (s : FState ι α) : fUpConnR kb i none s = fUpConn kb i s := rfl

theorem fDownConnR_none (kb : FKB ι α) (i : ι) (idx : Option Nat) (s : FState ι α) :
    fDownConnR kb i idx none s = fDownConn kb i idx s := rfl

def isConn (n : FNode ι α) : Bool := n.kind = .and || n.kind = .or || n.kind = .implies

def pUpR (kb : FKB ι α) (i : ι) (restrict : Option (List Gr)) (p : PState ι α) : PState ι α × α :=
  if isConn (kb i) then
    let r := fUpConnR kb i restrict p.st
    (⟨r.1, notePend kb i p.st r.1 p.pend⟩, r.2)
  else pUp kb i p

def pDownR (kb : FKB ι α) (i : ι) (idx : Option Nat) (restrict : Option (List Gr)) (p : PState ι α) :
    PState ι α × α :=
  if isConn (kb i) then
    let r := fDownConnR kb i idx restrict p.st
    (⟨r.1, notePend kb i p.st r.1 p.pend⟩, r.2)
  else pDown kb i idx p

/-- the early exit of `_infer` for a query without variables (`is_classically_resolved` is only
ever true of a proposition-like formula): its single grounding is TRUE, FALSE or CONTRADICTION -/
def fQueryStop (kb : FKB ι α) (query : Option ι) (s : FState ι α) : Bool :=
  match query with
  | some q => classicallyResolved (Table.getD (kb q).world (s.get q) [])
  | none => false

/-- `Model._infer` restricted to a query (`infer_query()` without `converge`): the loop of `pInfer`,
left before a sweep as soon as the query is classically resolved -/
def pInferQ (kb : FKB ι α) (nodes : List ι) (up down : List (FCall ι)) (eps : α) (query : Option ι) :
    Nat → PState ι α → PInferResult ι α
  | 0, p => ⟨p, 0, 0, false⟩
  | fuel + 1, p =>
    if fQueryStop kb query p.st then ⟨p, 0, 0, false⟩ else
    let n0 := nGroundings nodes p.st
    let u := runPCalls kb up p
    let d := runPCalls kb down u.1
    let diff := u.2 + d.2
    if diff ≤ eps ∧ nGroundings nodes d.1.st = n0 then ⟨d.1, 1, diff, true⟩
    else
      let t := pInferQ kb nodes up down eps query fuel d.1
      ⟨t.state, t.steps + 1, diff + t.total, t.converged⟩

/-- without a query it is `pInfer` -/
theorem pInferQ_none (kb : FKB ι α) (nodes : List ι) (up down : List (FCall ι)) (eps : α)
    (fuel : Nat) (p : PState ι α) :
    pInferQ kb nodes up down eps none fuel p = pInfer kb nodes up down eps fuel p := by
  induction fuel generalizing p with
  | zero => rfl
  | succ n ih =>
    simp only [pInferQ, pInfer, fQueryStop, Bool.false_eq_true, if_false]
    split_ifs
    · rfl
    · rw [ih]

end LNN
