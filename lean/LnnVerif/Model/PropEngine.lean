/-
L2 — the propositional bounds-propagation engine.

Transcribes
  lnn/symbolic/_gm.py                       : upward_bounds / downward_bounds (propositional branch:
                                              contradiction arresting, the "stacked" re-check)
  lnn/symbolic/logic/connective_neuron.py   : _ConnectiveNeuron.upward / downward
  lnn/symbolic/logic/unary_operator.py      : Not.upward / downward (propositional)
  lnn/symbolic/logic/binary_neuron.py       : Iff.upward / downward   (composite calls)
  lnn/symbolic/logic/n_ary_neuron.py        : XOr.upward / downward   (composite calls)
  lnn/model.py                              : _traverse_execute, _infer

A knowledge base is a function from node ids to node descriptions; the state is a function from
node ids to bounds. Nothing here assumes the graph is acyclic, finite or well-formed: the
soundness, monotonicity and range theorems hold for every `KB`.
-/
import LnnVerif.Model.Node

namespace LNN

variable {ι : Type} [DecidableEq ι] {α : Type} [Field α] [LinearOrder α]

inductive Kind | atom | neg | and | or | implies
deriving DecidableEq, Repr

/-- Description of one formula object. `pre`/`post` describe composite formulae: `Iff` and `XOr`
are And-neurons over generated sub-formulae and their `upward` first calls `upward` of the nodes in
`pre`, their `downward` afterwards calls `downward` of the nodes in `post` (`Iff` forwards its
`index` argument to them, `XOr` does not). -/
structure Node (ι α : Type) where
  kind : Kind
  ops : List ι := []
  ws : List α := []
  bias : α
  alpha : α
  transparent : Bool := true
  pre : List ι := []
  post : List ι := []
  postIdx : Bool := false

abbrev KB (ι α : Type) := ι → Node ι α
abbrev State (ι α : Type) := ι → Bounds α

/-- operands of `n` as the activation sees them in state `s` -/
def opds (n : Node ι α) (s : State ι α) : List (Opd α) :=
  List.zipWith (fun j w => ⟨w, (s j).lo, (s j).hi⟩) n.ops n.ws

/-- upward activation of a connective -/
def actUp (n : Node ι α) (s : State ι α) : Bounds α :=
  match n.kind with
  | .and => andUp n.bias (opds n s)
  | .or => orUp n.transparent n.bias (opds n s)
  | .implies => impliesUp n.bias (opds n s)
  | _ => ⟨0, 1⟩

/-- downward activation of a connective: one proposal per operand, all from the pre-state -/
def actDown (n : Node ι α) (self : Bounds α) (s : State ι α) : List (Bounds α) :=
  match n.kind with
  | .and => andDown n.bias n.alpha self.lo self.hi (opds n s)
  | .or => orDown n.bias n.alpha self.lo self.hi (opds n s)
  | .implies => impliesDown n.bias n.alpha self.lo self.hi (opds n s)
  | _ => []

/-- Contradiction arresting (`_gm._is_contradiction` + the stacked check): the node itself or any
operand (under its own alpha) is contradictory, or operand 0 or 1 is contradictory under the
operator's alpha. -/
def arrested (kb : KB ι α) (s : State ι α) (i : ι) : Bool :=
  let n := kb i
  isContra n.alpha (s i)
    || n.ops.any (fun j => isContra (kb j).alpha (s j))
    || (n.ops.take 2).any (fun j => isContra n.alpha (s j))

/-- `node.upward()` of a primitive node (atom: no such method, contributes nothing). -/
def stepUp (kb : KB ι α) (i : ι) (s : State ι α) : State ι α × α :=
  let n := kb i
  match n.kind with
  | .atom => (s, 0)
  | .neg =>
    match n.ops with
    | j :: _ =>
      let r := aggregate .both (s i) (negB (s j))
      (Function.update s i r.1, r.2)
    | [] => (s, 0)
  | _ =>
    if arrested kb s i then (s, 0) else
      let r := aggregate .both (s i) (actUp n s)
      (Function.update s i r.1, r.2)

/-- sequential aggregation of the proposals onto the operands (`index = some k` restricts to
operand `k`). Each aggregation reads the *current* bounds of its operand, as the code does. -/
def writeOps : List (Nat × ι × Bounds α) → Option Nat → State ι α → State ι α × α
  | [], _, s => (s, 0)
  | (k, j, p) :: rest, idx, s =>
    if idx = none ∨ idx = some k then
      let r := aggregate .both (s j) p
      let t := writeOps rest idx (Function.update s j r.1)
      (t.1, r.2 + t.2)
    else writeOps rest idx s

def enumFrom {β : Type} : Nat → List β → List (Nat × β)
  | _, [] => []
  | k, x :: xs => (k, x) :: enumFrom (k + 1) xs

/-- `node.downward(index)` of a primitive node. -/
def stepDown (kb : KB ι α) (i : ι) (idx : Option Nat) (s : State ι α) : State ι α × α :=
  let n := kb i
  match n.kind with
  | .atom => (s, 0)
  | .neg =>
    match n.ops with
    | j :: _ =>
      let r := aggregate .both (s j) (negB (s i))
      (Function.update s j r.1, r.2)
    | [] => (s, 0)
  | _ =>
    if arrested kb s i then (s, 0) else
      let props := actDown n (s i) s
      writeOps (enumFrom 0 (List.zip n.ops props)) idx s

/-- A primitive step of the engine. -/
inductive Step (ι : Type) where
  | up (i : ι)
  | down (i : ι) (idx : Option Nat)
deriving Repr

def runStep (kb : KB ι α) (st : Step ι) (s : State ι α) : State ι α × α :=
  match st with
  | .up i => stepUp kb i s
  | .down i idx => stepDown kb i idx s

/-- run primitive steps left to right, summing the reported amounts -/
def runSteps (kb : KB ι α) : List (Step ι) → State ι α → State ι α × α
  | [], s => (s, 0)
  | st :: rest, s =>
    let r := runStep kb st s
    let t := runSteps kb rest r.1
    (t.1, r.2 + t.2)

/-- `formula.upward()` as the user calls it: composite formulae first run their inner formulae.
(After the repair of the dropped inner amounts the call reports the sum of all of them.) -/
def callUp (kb : KB ι α) (i : ι) : List (Step ι) :=
  (kb i).pre.map Step.up ++ [Step.up i]

/-- `formula.downward(index)` as the user calls it. -/
def callDown (kb : KB ι α) (i : ι) (idx : Option Nat) : List (Step ι) :=
  Step.down i idx :: (kb i).post.map (fun j => Step.down j (if (kb i).postIdx then idx else none))

/-- A public call. -/
inductive Call (ι : Type) where
  | up (i : ι)
  | down (i : ι) (idx : Option Nat)
deriving Repr

def Call.steps (kb : KB ι α) : Call ι → List (Step ι)
  | .up i => callUp kb i
  | .down i idx => callDown kb i idx

/-- the primitive steps of a whole pass: `_traverse_execute` calling `upward`/`downward` on the
nodes of `sched` in order -/
def passSteps (kb : KB ι α) (sched : List (Call ι)) : List (Step ι) :=
  sched.flatMap (Call.steps kb)

def runPass (kb : KB ι α) (sched : List (Call ι)) (s : State ι α) : State ι α × α :=
  runSteps kb (passSteps kb sched) s

/-- `is_classically_resolved` for a propositional query -/
def classicallyResolved (b : Bounds α) : Bool :=
  (b.lo == 1 && b.hi == 1) || (b.lo == 1 && b.hi == 0) || (b.lo == 0 && b.hi == 0)

structure InferCfg (ι α : Type) where
  up : List (Call ι)          -- the upward sweep (post-order of the traversal)
  down : List (Call ι)        -- the downward sweep
  eps : α
  query : Option ι := none
  converge : Bool := false

structure InferResult (ι α : Type) where
  state : State ι α
  steps : Nat
  total : α
  converged : Bool

/-- the early exit of `_infer`: a classically resolved query stops inference unless `converge` -/
def queryStop (cfg : InferCfg ι α) (s : State ι α) : Bool :=
  match cfg.query with
  | some q => classicallyResolved (s q) && !cfg.converge
  | none => false

/-- one reasoning step of `_infer`: an upward pass followed by a downward pass -/
def sweep (kb : KB ι α) (cfg : InferCfg ι α) (s : State ι α) : State ι α × α :=
  let u := runPass kb cfg.up s
  let d := runPass kb cfg.down u.1
  (d.1, u.2 + d.2)

/-- `Model._infer` with both directions. `fuel` bounds the number of sweeps (`max_steps`; the
termination theorem shows a sufficient fuel always exists). -/
def infer (kb : KB ι α) (cfg : InferCfg ι α) : Nat → State ι α → InferResult ι α
  | 0, s => ⟨s, 0, 0, false⟩
  | fuel + 1, s =>
    if queryStop cfg s then ⟨s, 0, 0, false⟩ else
      let r := sweep kb cfg s
      if r.2 ≤ cfg.eps then ⟨r.1, 1, r.2, true⟩
      else
        let t := infer kb cfg fuel r.1
        ⟨t.state, t.steps + 1, r.2 + t.total, t.converged⟩

/-- `Model.has_contradiction` over a finite list of registered nodes -/
def hasContra (kb : KB ι α) (nodes : List ι) (s : State ι α) : Bool :=
  nodes.any fun i => isContra (kb i).alpha (s i)

end LNN

namespace LNN

variable {ι : Type} [DecidableEq ι] {α : Type} [Field α] [LinearOrder α]

/-- The public inference API on a propositional model: a node-level call, a model-level pass over
an arbitrary schedule of calls, or `infer` with an arbitrary pair of sweep schedules. -/
inductive Op (ι α : Type) where
  | call (c : Call ι)
  | pass (sched : List (Call ι))
  | infer (cfg : InferCfg ι α) (fuel : Nat)

def runOp (kb : KB ι α) (o : Op ι α) (s : State ι α) : State ι α :=
  match o with
  | .call c => (runSteps kb (c.steps kb) s).1
  | .pass sched => (runPass kb sched s).1
  | .infer cfg fuel => (infer kb cfg fuel s).state

/-- any sequence of public inference calls -/
def run (kb : KB ι α) (ops : List (Op ι α)) (s : State ι α) : State ι α :=
  ops.foldl (fun s o => runOp kb o s) s

end LNN
