/-
L1 — node level: proof aggregation, classical regions, contradiction, state.

Transcribes lnn/neural/activations/node.py : aggregate_bounds, output_regions,
is_contradiction, state (the `np.where` cascade, in its order).
-/
import LnnVerif.Model.Arith

namespace LNN

variable {α : Type} [Field α] [LinearOrder α]

/-- `bound=` argument of `aggregate_bounds`. -/
inductive BoundSel | both | lower | upper
deriving DecidableEq, Repr

/-- `aggregate_bounds` on one row: intersect with the proposal (optionally one bound only),
clamp, and report `|ΔL| + |ΔU|`. -/
def aggregate (sel : BoundSel) (prev new : Bounds α) : Bounds α × α :=
  let L := if sel = .upper then prev.lo else max prev.lo new.lo
  let U := if sel = .lower then prev.hi else min prev.hi new.hi
  let r : Bounds α := ⟨clamp01 L, clamp01 U⟩
  (r, |r.lo - prev.lo| + |r.hi - prev.hi|)

/-- the `duplicates=True` merge of two already aggregated rows: `(max L, min U)`. -/
def mergeB (a b : Bounds α) : Bounds α := ⟨max a.lo b.lo, min a.hi b.hi⟩

/-- `output_regions`; `0` is the "not in the feasible region" sentinel (never produced for an
ordered field when `1/2 ≤ a`, see `region_pos`). The `masked_fill` order is kept. -/
def region (a y : α) : Nat :=
  let r := 0
  let r := if y ≤ 1 - a then 1 else r
  let r := if 1 - a < y ∧ y < 1/2 then 2 else r
  let r := if y = 1/2 then 3 else r
  let r := if 1/2 < y ∧ y < a then 4 else r
  if a ≤ y then 5 else r

/-- `is_contradiction`: crossed bounds outside the same-classical-region tolerance. -/
def isContra (a : α) (b : Bounds α) : Bool :=
  decide (b.lo > b.hi) && !(region a b.lo == 1 && region a b.hi == 1)
    && !(region a b.lo == 5 && region a b.hi == 5)

/-- The documented states (`Fact` × 4, `_Fact` × 4) and the `"0.0"` fall-through sentinel. -/
inductive St | U | T | F | C | aF | aU | eU | aT | bad
deriving DecidableEq, Repr

def St.toString : St → String
  | .U => "UNKNOWN" | .T => "TRUE" | .F => "FALSE" | .C => "CONTRADICTION"
  | .aF => "APPROX_FALSE" | .aU => "APPROX_UNKNOWN" | .eU => "EXACT_UNKNOWN"
  | .aT => "APPROX_TRUE" | .bad => "BAD"

/-- `_NodeActivation.state`: the `np.where` cascade in the code's order. -/
def state (a : α) (b : Bounds α) : St :=
  let l := region a b.lo
  let u := region a b.hi
  let r := St.bad
  let r := if l == 1 && u == 5 then St.U else r
  let r := if l == 1 && u == 1 then St.F else r
  let r := if l == 5 && u == 5 then St.T else r
  let r := if l == 3 && u == 3 then St.eU else r
  let r := if (l == 1 || l == 2) && u == 2 then St.aF else r
  let r := if l == 4 && (u == 4 || u == 5) then St.aT else r
  let r := if (l == 1 && (u == 3 || u == 4)) || (l == 2 && (u == 3 || u == 4 || u == 5))
              || (l == 3 && (u == 4 || u == 5)) then St.aU else r
  if isContra a b then St.C else r

end LNN
