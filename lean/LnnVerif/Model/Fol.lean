/-
L3–L5 — first-order layer: per-formula tables, grounding management, connectives per grounding,
first-order Not, quantifiers.

Transcribes
  lnn/neural/parameters/node.py           : get_data(default=…), add_data, extend_groundings, flush,
                                            reset_bounds, reset_world
  lnn/symbolic/logic/formula.py           : add_data, get_data, _add_groundings
  lnn/symbolic/_gm.py                     : _fol_bounds (homogeneous), _get_operand_dfs,
                                            _full_outer_join, _operator_groundings, _operand_groundings,
                                            per-grounding contradiction filtering of upward_bounds /
                                            downward_bounds
  lnn/symbolic/logic/connective_neuron.py : upward / downward (first-order branch, duplicate merging)
  lnn/symbolic/logic/unary_operator.py    : Not (first-order), _Quantifier.upward / downward
                                            (fully and partially quantified)

A table is a finite map grounding ↦ (leaf, working bounds), kept as an association list; row
numbers do not exist in the model. A missing row reads as the formula's world default.
-/
import LnnVerif.Model.Node

namespace LNN

variable {ι : Type} [DecidableEq ι] {α : Type} [Field α] [LinearOrder α]

/-- a grounding: tuple of constants (constants are numbered) -/
abbrev Gr := List Nat

structure Row (α : Type) where
  g : Gr
  leaf : Bounds α
  b : Bounds α
deriving Repr

abbrev Table (α : Type) := List (Row α)

namespace Table

def find? (t : Table α) (g : Gr) : Option (Row α) := List.find? (fun r => r.g == g) t
def has (t : Table α) (g : Gr) : Bool := (t.find? g).isSome
def keys (t : Table α) : List Gr := t.map (·.g)

/-- `get_data(g)`: the stored bounds, or the world default for a grounding that is not stored
(`default=True`); never inserts -/
def getD (world : Bounds α) (t : Table α) (g : Gr) : Bounds α :=
  match t.find? g with
  | some r => r.b
  | none => world

/-- `_add_groundings`: create the missing rows at the world default (leaf and working bounds) -/
def addg (world : Bounds α) (t : Table α) : List Gr → Table α
  | [] => t
  | g :: gs => if has t g then addg world t gs else addg world (t ++ [⟨g, world, world⟩]) gs

/-- overwrite the working bounds of an existing row -/
def setB (t : Table α) (g : Gr) (b : Bounds α) : Table α :=
  t.map fun r => if r.g == g then { r with b := b } else r

/-- `add_data` for one grounding: create the row if needed, then set leaf and working bounds -/
def addData (world : Bounds α) (t : Table α) (g : Gr) (b : Bounds α) : Table α :=
  (addg world t [g]).map fun r => if r.g == g then ⟨g, b, b⟩ else r

/-- `reset_bounds`: working bounds return to the leaves -/
def resetBounds (t : Table α) : Table α := t.map fun r => { r with b := r.leaf }

/-- overwrite every working bound, leaves are kept (`update_bounds(set(), fact, update_leaves=False)`) -/
def flushB (b : Bounds α) (t : Table α) : Table α := t.map fun r => { r with b := b }

/-- `flush()` (`b` = UNKNOWN) and `reset_world(b)`: every stored row is asserted to be `b`, working
bound and leaf alike (`update_bounds(set(), fact, update_leaves=True)`) -/
def assertAll (b : Bounds α) (t : Table α) : Table α := t.map fun r => ⟨r.g, b, b⟩

end Table

inductive FKind | pred | neg | and | or | implies | all | ex
deriving DecidableEq, Repr

/-- description of a first-order formula object -/
structure FNode (ι α : Type) where
  kind : FKind
  ops : List ι := []
  ws : List α := []
  bias : α
  alpha : α
  transparent : Bool := true
  /-- `operand_map`: for each operand the slots of the operator's variable tuple it reads -/
  opmap : List (List Nat) := []
  world : Bounds α
  /-- quantifiers: positions of the free variables in the operand's variable tuple -/
  free : List Nat := []
  fullyGrounded : Bool := false
  /-- quantifiers: the operand is itself a quantifier -/
  nested : Bool := false

abbrev FKB (ι α : Type) := ι → FNode ι α

/-- the first-order state: one table per formula, kept as a finite association list (a formula
without entry has the empty table). A data structure rather than a function, so that the
executable model never re-evaluates closures. -/
structure FState (ι α : Type) where
  tabs : List (ι × Table α) := []

def FState.get (s : FState ι α) (i : ι) : Table α :=
  match s.tabs.find? (fun p => decide (p.1 = i)) with
  | some p => p.2
  | none => []

def FState.set (s : FState ι α) (i : ι) (t : Table α) : FState ι α :=
  ⟨(i, t) :: s.tabs.filter (fun p => !decide (p.1 = i))⟩

/-! ### grounding management -/

def dedup {β : Type} [BEq β] : List β → List β
  | [] => []
  | x :: xs => let r := dedup xs; if r.contains x then r else x :: r

/-- keep first occurrences, preserve order -/
def dedupKeepFirst {β : Type} [BEq β] (l : List β) : List β := (dedup l.reverse).reverse

def unionKeys (ls : List (List Gr)) : List Gr := dedupKeepFirst ls.flatten

/-- a relation over named columns (slots of the operator's variable tuple) -/
structure Rel where
  cols : List Nat
  rows : List (List Nat)       -- aligned with `cols`
deriving Repr

def Rel.val (cols : List Nat) (row : List Nat) (c : Nat) : Option Nat :=
  match cols.idxOf? c with
  | some k => row[k]?
  | none => none

/-- `_full_outer_join` as pandas executes it:
* one side empty: the rows of either side that already have all columns;
* no shared column: cross product;
* shared columns `S`: for every pair of rows BOTH the row taking `S` from the left and the row
  taking `S` from the right (non-shared columns from whichever side has them), de-duplicated. -/
def foj (t1 t2 : Rel) : Rel :=
  let c1 := t1.cols
  let c2 := t2.cols
  if t1.rows.isEmpty || t2.rows.isEmpty then
    let cu := dedupKeepFirst (c1 ++ c2)
    let pick := fun (cols : List Nat) (rows : List (List Nat)) =>
      if cu.all cols.contains then rows.map (fun r => cu.map fun c => (Rel.val cols r c).getD 0) else []
    ⟨cu, pick c1 t1.rows ++ pick c2 t2.rows⟩
  else
    let shared := c1.filter c2.contains
    if shared.isEmpty then
      ⟨c1 ++ c2, t1.rows.flatMap fun a => t2.rows.map fun b => a ++ b⟩
    else
      let uniq := c1.filter (fun c => !c2.contains c) ++ c2.filter (fun c => !c1.contains c)
      let mk := fun (left : Bool) (a b : List Nat) =>
        uniq.map (fun c => ((Rel.val c1 a c).orElse fun _ => Rel.val c2 b c).getD 0) ++
        shared.map (fun c => (if left then Rel.val c1 a c else Rel.val c2 b c).getD 0)
      let side := fun (left : Bool) => t1.rows.flatMap fun a => t2.rows.map fun b => mk left a b
      ⟨uniq ++ shared, dedupKeepFirst (side true ++ side false)⟩

def foldJoin : List Rel → Option Rel
  | [] => none
  | r :: rs => some (rs.foldl foj r)

/-- read a joined row in the slot order given by `slots` -/
def Rel.project (cols : List Nat) (row : List Nat) (slots : List Nat) : Gr :=
  slots.map fun c => (Rel.val cols row c).getD 0

def isHomogeneous (n : FNode ι α) : Bool :=
  match n.opmap with
  | [] => true
  | m :: ms => ms.all (· == m)

/-- number of distinct variables of a connective -/
def numVars (n : FNode ι α) : Nat := (dedup n.opmap.flatten).length

/-- create the given groundings (at world defaults) in the given formulae -/
def addAll (kb : FKB ι α) (s : FState ι α) (pairs : List (ι × List Gr)) : FState ι α :=
  pairs.foldl (fun s p => s.set p.1 (Table.addg (kb p.1).world (s.get p.1) p.2)) s

/-- Grounding management of a connective (`_operational_bounds`, first-order branch).
Returns the new state (rows created at world defaults), the operator groundings, and for each
operand the list of its groundings aligned with the operator groundings; `none` = nothing to do. -/
def groundings (kb : FKB ι α) (i : ι) (down : Bool) (s : FState ι α) :
    FState ι α × Option (List Gr × List (List Gr)) :=
  let n := kb i
  if isHomogeneous n then
    let gs := unionKeys ((n.ops.map fun j => (s.get j).keys) ++ (if down then [(s.get i).keys] else []))
    let s1 := addAll kb s (n.ops.map fun j => (j, gs))
    let s2 := addAll kb s1 [(i, gs)]
    (s2, some (gs, n.ops.map fun _ => gs))
  else
    let rels := (List.zip n.ops n.opmap).map fun p => (⟨p.2, (s.get p.1).keys⟩ : Rel)
    match foldJoin rels with
    | none => (s, none)
    | some j =>
      if j.rows.isEmpty then (s, none) else
        let slots := List.range (numVars n)
        let ogs := j.rows.map fun r => Rel.project j.cols r slots
        let per := n.opmap.map fun m => j.rows.map fun r => Rel.project j.cols r m
        let s1 := addAll kb s (List.zip n.ops per)
        let s2 := addAll kb s1 [(i, ogs)]
        (s2, some (ogs, per))

/-! ### connectives, per grounding -/

def fActUp (n : FNode ι α) (bs : List (Bounds α)) : Bounds α :=
  let ops := List.zipWith (fun w b => (⟨w, b.lo, b.hi⟩ : Opd α)) n.ws bs
  match n.kind with
  | .and => andUp n.bias ops
  | .or => orUp n.transparent n.bias ops
  | .implies => impliesUp n.bias ops
  | _ => ⟨0, 1⟩

def fActDown (n : FNode ι α) (self : Bounds α) (bs : List (Bounds α)) : List (Bounds α) :=
  let ops := List.zipWith (fun w b => (⟨w, b.lo, b.hi⟩ : Opd α)) n.ws bs
  match n.kind with
  | .and => andDown n.bias n.alpha self.lo self.hi ops
  | .or => orDown n.bias n.alpha self.lo self.hi ops
  | .implies => impliesDown n.bias n.alpha self.lo self.hi ops
  | _ => []

/-- transpose `per` (one list per operand) into one list of operand groundings per operator
grounding -/
def rowsOf (per : List (List Gr)) (k : Nat) : List Gr := per.map fun l => l.getD k []

/-- aggregate a proposal onto a stored row; returns new table and amount -/
def aggRow (t : Table α) (g : Gr) (sel : BoundSel) (new : Bounds α) : Table α × α :=
  match t.find? g with
  | some r => let a := aggregate sel r.b new; (t.setB g a.1, a.2)
  | none => (t, 0)

/-- first-order `upward` of a connective: rows whose operand 0 or 1 is contradictory under the
operator's alpha are skipped; all proposals come from the pre-state. -/
def fUpConn (kb : FKB ι α) (i : ι) (s : FState ι α) : FState ι α × α :=
  let n := kb i
  match groundings kb i false s with
  | (s1, none) => (s1, 0)
  | (s1, some (ogs, per)) =>
    let items := (List.range ogs.length).filterMap fun k =>
      let bs := List.zipWith (fun j g => Table.getD (kb j).world (s1.get j) g) n.ops (rowsOf per k)
      if (bs.take 2).any (isContra n.alpha) then none else some (ogs.getD k [], fActUp n bs)
    let r := items.foldl (fun (acc : Table α × α) it =>
      let a := aggRow acc.1 it.1 .both it.2
      (a.1, acc.2 + a.2)) (s1.get i, 0)
    (s1.set i r.1, r.2)

/-- merge the proposals that land on one operand row: each is aggregated against the previous
bounds, then duplicates are combined by `(max L, min U)`, then written once -/
def writeMerged (t : Table α) (props : List (Gr × Bounds α)) : Table α × α :=
  let keysU := dedupKeepFirst (props.map (·.1))
  keysU.foldl (fun (acc : Table α × α) g =>
    match t.find? g with
    | none => acc
    | some r =>
      let cands := (props.filter (·.1 == g)).map fun p => (aggregate .both r.b p.2).1
      match cands with
      | [] => acc
      | c :: cs =>
        let m := cs.foldl mergeB c
        (acc.1.setB g m, acc.2 + (|m.lo - r.b.lo| + |m.hi - r.b.hi|))) (t, 0)

/-- first-order `downward(index)` of a connective -/
def fDownConn (kb : FKB ι α) (i : ι) (idx : Option Nat) (s : FState ι α) : FState ι α × α :=
  let n := kb i
  match groundings kb i true s with
  | (s1, none) => (s1, 0)
  | (s1, some (ogs, per)) =>
    let items := (List.range ogs.length).filterMap fun k =>
      let gsk := rowsOf per k
      let bs := List.zipWith (fun j g => Table.getD (kb j).world (s1.get j) g) n.ops gsk
      let ob := Table.getD n.world (s1.get i) (ogs.getD k [])
      if (bs.take 2).any (isContra n.alpha) || isContra n.alpha ob then none
      else some (gsk, fActDown n ob bs)
    if items.isEmpty then (s1, 0) else
      (List.zip (List.range n.ops.length) n.ops).foldl (fun (acc : FState ι α × α) p =>
        if idx = none ∨ idx = some p.1 then
          let props := items.filterMap fun it =>
            match it.1[p.1]?, it.2[p.1]? with
            | some g, some b => some (g, b)
            | _, _ => none
          let w := writeMerged (acc.1.get p.2) props
          (acc.1.set p.2 w.1, acc.2 + w.2)
        else acc) (s1, 0)

/-! ### first-order Not -/

def fUpNot (kb : FKB ι α) (i : ι) (s : FState ι α) : FState ι α × α :=
  match (kb i).ops with
  | [] => (s, 0)
  | j :: _ =>
    let gs := (s.get j).keys
    if gs.isEmpty then (s, 0) else
      let t0 := Table.addg (kb i).world (s.get i) gs
      let r := gs.foldl (fun (acc : Table α × α) g =>
        let a := aggRow acc.1 g .both (negB (Table.getD (kb j).world (s.get j) g))
        (a.1, acc.2 + a.2)) (t0, 0)
      (s.set i r.1, r.2)

def fDownNot (kb : FKB ι α) (i : ι) (s : FState ι α) : FState ι α × α :=
  match (kb i).ops with
  | [] => (s, 0)
  | j :: _ =>
    let gs := (s.get i).keys
    if gs.isEmpty then (s, 0) else
      let t0 := Table.addg (kb j).world (s.get j) gs
      let r := gs.foldl (fun (acc : Table α × α) g =>
        let a := aggRow acc.1 g .both (negB (Table.getD (kb i).world (s.get i) g))
        (a.1, acc.2 + a.2)) (t0, 0)
      (s.set j r.1, r.2)

/-! ### quantifiers -/

def unitOpds (bs : List (Bounds α)) : List (Opd α) := bs.map fun b => ⟨1, b.lo, b.hi⟩

/-- Forall is the unit-weight Łukasiewicz conjunction of its instances, Exists the disjunction -/
def qUp (isAll : Bool) (bs : List (Bounds α)) : Bounds α :=
  if isAll then andUp 1 (unitOpds bs) else orUp true 1 (unitOpds bs)

def qDown (isAll : Bool) (self : Bounds α) (bs : List (Bounds α)) : List (Bounds α) :=
  if isAll then andDown 1 1 self.lo self.hi (unitOpds bs) else orDown 1 1 self.lo self.hi (unitOpds bs)

/-- the bound a quantifier may move upward: Forall only its upper, Exists only its lower bound,
both when declared fully grounded -/
def qSel (n : FNode ι α) : BoundSel :=
  if n.fullyGrounded then .both else if n.kind = .all then .upper else .lower

def groupKey (free : List Nat) (g : Gr) : Gr := free.map fun k => g.getD k 0

/-- `_Quantifier.upward`: per grounding of the free variables (fully quantified: the single empty
grounding) aggregate the activation over the group's instances. -/
def fUpQuant (kb : FKB ι α) (i : ι) (s : FState ι α) : FState ι α × α :=
  let n := kb i
  match n.ops with
  | [] => (s, 0)
  | j :: _ =>
    let rows := s.get j
    if rows.isEmpty then (s, 0) else
      let keysU := dedupKeepFirst (rows.map fun r => groupKey n.free r.g)
      let t0 := Table.addg n.world (s.get i) keysU
      let r := keysU.foldl (fun (acc : Table α × α) k =>
        let inst := (rows.filter fun r => groupKey n.free r.g == k).map (·.b)
        let a := aggRow acc.1 k (qSel n) (qUp (n.kind = .all) inst)
        (a.1, acc.2 + a.2)) (t0, 0)
      (s.set i r.1, r.2)

/-- `_Quantifier.downward`: the n-ary inverse of each group onto its instances. -/
def fDownQuant (kb : FKB ι α) (i : ι) (s : FState ι α) : FState ι α × α :=
  let n := kb i
  match n.ops with
  | [] => (s, 0)
  | j :: _ =>
    let rows := s.get j
    if rows.isEmpty then (s, 0) else
      let keysU := dedupKeepFirst (rows.map fun r => groupKey n.free r.g)
      -- groups never evaluated before are created at the world default
      let ti := Table.addg n.world (s.get i) keysU
      let s0 := s.set i ti
      let props : List (Gr × Bounds α) := keysU.flatMap fun k =>
        let grp := rows.filter fun r => groupKey n.free r.g == k
        let self := Table.getD n.world ti k
        List.zip (grp.map (·.g)) (qDown (n.kind = .all) self (grp.map (·.b)))
      let r := props.foldl (fun (acc : Table α × α) p =>
        let a := aggRow acc.1 p.1 .both p.2
        (a.1, acc.2 + a.2)) (s0.get j, 0)
      (s0.set j r.1, r.2)

/-! ### node-level calls, passes, infer -/

def fUp (kb : FKB ι α) (i : ι) (s : FState ι α) : FState ι α × α :=
  match (kb i).kind with
  | .pred => (s, 0)
  | .neg => fUpNot kb i s
  | .all | .ex => fUpQuant kb i s
  | _ => fUpConn kb i s

def fDown (kb : FKB ι α) (i : ι) (idx : Option Nat) (s : FState ι α) : FState ι α × α :=
  match (kb i).kind with
  | .pred => (s, 0)
  | .neg => fDownNot kb i s
  | .all | .ex => fDownQuant kb i s
  | _ => fDownConn kb i idx s

inductive FCall (ι : Type) where
  | up (i : ι)
  | down (i : ι) (idx : Option Nat)

def runFCall (kb : FKB ι α) (c : FCall ι) (s : FState ι α) : FState ι α × α :=
  match c with
  | .up i => fUp kb i s
  | .down i idx => fDown kb i idx s

def runFCalls (kb : FKB ι α) : List (FCall ι) → FState ι α → FState ι α × α
  | [], s => (s, 0)
  | c :: rest, s =>
    let r := runFCall kb c s
    let t := runFCalls kb rest r.1
    (t.1, r.2 + t.2)

/-- `Model.shape[1]`: total number of stored groundings over the registered formulae -/
def nGroundings (nodes : List ι) (s : FState ι α) : Nat := (nodes.map fun i => (s.get i).length).sum

structure FInferResult (ι α : Type) where
  state : FState ι α
  steps : Nat
  total : α
  converged : Bool

/-- `Model._infer` on a first-order model: a sweep converges only if it reported at most `eps`
AND created no grounding. -/
def fInfer (kb : FKB ι α) (nodes : List ι) (up down : List (FCall ι)) (eps : α) :
    Nat → FState ι α → FInferResult ι α
  | 0, s => ⟨s, 0, 0, false⟩
  | fuel + 1, s =>
    let n0 := nGroundings nodes s
    let u := runFCalls kb up s
    let d := runFCalls kb down u.1
    let diff := u.2 + d.2
    if diff ≤ eps ∧ nGroundings nodes d.1 = n0 then ⟨d.1, 1, diff, true⟩
    else
      let t := fInfer kb nodes up down eps fuel d.1
      ⟨t.state, t.steps + 1, diff + t.total, t.converged⟩

def fHasContra (kb : FKB ι α) (nodes : List ι) (s : FState ι α) : Bool :=
  nodes.any fun i => (s.get i).any fun r => isContra (kb i).alpha r.b

end LNN
