/-
L7 — the training loop of `Model.train` with the optimiser abstracted to an arbitrary function.

Transcribes
  lnn/model.py                      : Model.train, loss_fn, _project_params, reset_bounds
  lnn/neural/parameters/neuron.py   : project_params  (weights.clamp(0, w_max), bias.clamp(0, b_max); no clamp on
                                      the weights when negative weights were requested)
  lnn/symbolic/logic/formula.py     : _contradiction_loss, _uncertainty_loss, _supervised_loss

    for epoch in range(epochs):
        if epoch > 0: self.reset_bounds()
        self.infer()
        loss = sum(loss_fn(losses))
        if not loss.grad_fn: break
        loss.backward(); optimizer.step(); self._project_params()
        if loss <= 1e-7 and stop_at_convergence: break
    self.reset_bounds(); self.infer()

Which epochs actually take an optimiser step (`loss.grad_fn`, convergence) is an input of the
model (`steps`): the theorems hold for every number of steps.
-/
import LnnVerif.Model.PropEngine

namespace LNN

variable {ι : Type} [DecidableEq ι] {α : Type} [Field α] [LinearOrder α]

/-- the learnable parameters of the connectives: operand weights and bias per node -/
structure Params (ι α : Type) where
  w : ι → List α
  b : ι → α

/-- the knowledge base under given parameters (structure, alpha, activation variant fixed) -/
def kbOf (skel : KB ι α) (p : Params ι α) : KB ι α := fun i => { skel i with ws := p.w i, bias := p.b i }

/-- `_project_params`: weights are clamped at 0 unless negative weights were requested for that
neuron, biases are clamped at 0 (no upper limits: `w_max`, `b_max` unset) -/
def project (negW : ι → Bool) (p : Params ι α) : Params ι α :=
  ⟨fun i => if negW i then p.w i else (p.w i).map (max 0), fun i => max 0 (p.b i)⟩

structure TrainCfg (ι α : Type) where
  skel : KB ι α
  negW : ι → Bool
  infer : InferCfg ι α
  fuel : Nat
  /-- the optimiser: any function of the epoch, the current parameters and the inferred state -/
  opt : Nat → Params ι α → State ι α → Params ι α

structure TrainState (ι α : Type) where
  params : Params ι α
  leaves : State ι α        -- asserted facts
  cur : State ι α           -- working bounds

/-- one epoch that takes an optimiser step: (reset_bounds;) infer; step; project -/
def epoch (cfg : TrainCfg ι α) (e : Nat) (t : TrainState ι α) : TrainState ι α :=
  let cur := (infer (kbOf cfg.skel t.params) cfg.infer cfg.fuel t.leaves).state
  { t with params := project cfg.negW (cfg.opt e t.params cur), cur := cur }

def epochs (cfg : TrainCfg ι α) : Nat → Nat → TrainState ι α → TrainState ι α
  | _, 0, t => t
  | e, k + 1, t => epochs cfg (e + 1) k (epoch cfg e t)

/-- `Model.train` with `steps` optimiser steps, then the final `reset_bounds(); infer()` -/
def train (cfg : TrainCfg ι α) (steps : Nat) (t : TrainState ι α) : TrainState ι α :=
  let t' := epochs cfg 0 steps t
  { t' with cur := (infer (kbOf cfg.skel t'.params) cfg.infer cfg.fuel t'.leaves).state }

/-! ### losses (one formula; the model sums them over the formulae) -/

/-- `_contradiction_loss`: `(L - U)` where the bounds are contradictory, times the coefficient -/
def contradictionLoss (coeff a : α) (b : Bounds α) : α :=
  if isContra a b then coeff * (b.lo - b.hi) else 0

/-- `_uncertainty_loss`: `(U - L)` unless the formula is contradictory -/
def uncertaintyLoss (coeff a : α) (b : Bounds α) : α :=
  if isContra a b then 0 else coeff * (b.hi - b.lo)

/-- `_supervised_loss`: `coeff * MSELoss(bounds, label)` -/
def supervisedLoss (coeff : α) (b label : Bounds α) : α :=
  coeff * (((b.lo - label.lo) ^ 2 + (b.hi - label.hi) ^ 2) / 2)

def totalContradictionLoss (coeff : α) (kb : KB ι α) (nodes : List ι) (s : State ι α) : α :=
  (nodes.map fun i => contradictionLoss coeff (kb i).alpha (s i)).sum

def totalSupervisedLoss (coeff : α) (labels : List (ι × Bounds α)) (s : State ι α) : α :=
  (labels.map fun p => supervisedLoss coeff (s p.1) p.2).sum

def totalUncertaintyLoss (coeff : α) (kb : KB ι α) (nodes : List ι) (s : State ι α) : α :=
  (nodes.map fun i => uncertaintyLoss coeff (kb i).alpha (s i)).sum

end LNN
