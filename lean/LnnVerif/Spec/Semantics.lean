/-
Specification vocabulary shared by the property theorems: what it means for a real-valued
interpretation to be consistent with a knowledge base, and for a state to contain it.
-/
import LnnVerif.Model.PropEngine

namespace LNN

variable {ι : Type} {α : Type} [Field α] [LinearOrder α]

/-- The weighted Łukasiewicz truth function of a node, as a function of the values `v` of its
operands. `none` for atoms (free) and for malformed nodes (an Implies without exactly two weighted
operands, a Not without operand), on which the theorems then assume nothing.
* And:     `clamp(b - Σ wⱼ (1 - xⱼ))`       (Iff and XOr are And-nodes over generated sub-formulae)
* Or:      `clamp(1 - b + Σ wⱼ xⱼ)`
* Implies: `clamp(1 - b + w₀ (1 - x) + w₁ y)`
* Not:     `1 - x` -/
def nodeVal (n : Node ι α) (v : ι → α) : Option α :=
  match n.kind with
  | .atom => none
  | .neg => match n.ops with
    | j :: _ => some (1 - v j)
    | [] => none
  | .and => some (clamp01 (n.bias - (List.zipWith (fun j w => w * (1 - v j)) n.ops n.ws).sum))
  | .or => some (clamp01 (1 - n.bias + (List.zipWith (fun j w => w * v j) n.ops n.ws).sum))
  | .implies => match List.zip n.ops n.ws with
    | [(x, wx), (y, wy)] => some (clamp01 (1 - n.bias + wx * (1 - v x) + wy * v y))
    | _ => none

/-- `v` assigns every node a truth value in `[0,1]` that obeys the node's truth function. Nothing
is assumed about the shape of the graph: shared objects, structurally equal separate objects and
even cycles are covered, because `v` is just a solution of the local equations. -/
def Consistent (kb : KB ι α) (v : ι → α) : Prop :=
  ∀ i, 0 ≤ v i ∧ v i ≤ 1 ∧ ∀ y, nodeVal (kb i) v = some y → v i = y

/-- the interpretation lies inside every bound of the state -/
def Sat (v : ι → α) (s : State ι α) : Prop := ∀ i, (s i).lo ≤ v i ∧ v i ≤ (s i).hi

/-- admissible parameters: operand weights non-negative, alpha at most 1 -/
def WF (kb : KB ι α) : Prop := ∀ i, (∀ w ∈ (kb i).ws, 0 ≤ w) ∧ (kb i).alpha ≤ 1

end LNN
