"""C13 — reported update amounts are zero exactly when nothing changed."""
from common import size
import streams
from checks._propcommon import op_results, standard_programs

THEOREMS = ["LNN.C13_aggregate_zero_iff",
            "LNN.C13_aggregate_nonneg",
            "LNN.C13_step",
            "LNN.C13_steps",
            "LNN.C13_call",
            "LNN.C13_pass",
            "LNN.C13_infer",
            "LNN.C13_second_pass_zero",
            "LNN.C13_amount_eq_potential_drop",
            "LNN.C13_layer_amount",
            "LNN.C13_fol_nonneg",
            "LNN.C13_fol_up_zero_iff",
            "LNN.C13_fol_down_zero_iff",
            "LNN.C13_fol_pass_zero_iff",
            "LNN.C13_fol_restricted",
            "LNN.C13_fol_amount_eq_potential_drop",
            "LNN.C13_layer_amount_eq_potential_drop"]
MODULES = ["LnnVerif.Props.C13", "LnnVerif.Props.C06Term"]
FACETS = {"bounds", "reported"}


def oracle(rec):
    for op, out, before, after in op_results(rec):
        if before is None:
            continue
        amount = out.split()[2] if out.startswith("n ") else out.split()[1]
        zero = amount == "0"
        same = before == after
        if zero != same:
            return {"op": op, "reported": amount, "changed": not same}
    return None


def run(rep, tier, seed):
    n = size(tier, 300, 6000)
    progs = standard_programs(seed, n // 2, "interp") + standard_programs(seed + 104729, n - n // 2, "given", crossed_p=0.15)
    progs = streams.corpus_programs("C13") + progs
    # every program ends with two identical passes: the second must report 0 iff nothing moved
    for p in progs:
        p["ops"] = list(p["ops"]) + [("passup",), ("passup",), ("passdown",), ("passdown",)]
    recs, first_dis = streams.run_prop_stream(rep, "prop-mixed", progs, FACETS)
    rep.cov["rule"] = ("random weighted propositional programs incl. Iff/XOr composites; for every node- and model-level call "
                       "the returned amount is compared with before/after snapshots of all formulae (incl. generated inner "
                       "ones); non-trivial = program has a call reporting > 0 and a call reporting 0")
    for r in recs:
        if "crash" in r:
            continue
        res = op_results(r)
        nz = sum(1 for x in res if (x[1].split()[2] if x[1].startswith("n ") else x[1].split()[1]) != "0")
        rep.count_case(streams.canon(r["prog"]), 0 < nz < len(res))
        bad = oracle(r)
        if bad:
            rep.violation("amount-vs-change", bad, {"program": streams.ser(r["prog"]), "failure": bad,
                                                    "protocol": r["lines"], "impl": r["impl"]})
        rep.sample({"kb": streams.ser(r["prog"]["kb"]), "ops": r["prog"]["ops"][:6]}, limit=2)
    import checks.c13_fol as f
    f.run(rep, tier, seed)
    if first_dis is not None and not rep.violations:
        rep.extra["first_disagreement"] = {"program": streams.ser(first_dis["prog"]), "at": first_dis["disagreements"][:3]}


def replay(obj):
    import engine
    prog = streams.fix_prog(obj["replay"]["program"])
    rec = engine.run_cases("prop", "run_prop_program", [prog], jobs=1)[0]
    bad = oracle(rec)
    print("REPRODUCED" if bad else "not reproduced", bad)
    return 1 if bad else 0
