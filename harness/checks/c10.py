"""C10 — results are deterministic and independent of hash seed and fact order."""
import json
import os
import subprocess
import tempfile
from concurrent.futures import ThreadPoolExecutor

import engine
import streams
from common import PY, VERIF, size

THEOREMS = ["LNN.C10_addg_perm",
            "LNN.C10_addg_set",
            "LNN.C10_addData_comm",
            "LNN.C10_load_perm",
            "LNN.C10_mergeB_comm_assoc",
            "LNN.C10_mergeAll_perm",
            "LNN.C10_writeMerged_perm",
            "LNN.C10_foj_congr",
            "LNN.C10_foldJoin_congr",
            "LNN.C10_groundings_congr",
            "LNN.C10_fUpConn_congr",
            "LNN.C10_fUpNot_congr",
            "LNN.C10_fDownNot_congr",
            "LNN.C10_perm_TEq",
            # whole runs (Lemmas/FolCongr.lean)
            "LNN.C10_fDownConn_congr",
            "LNN.C10_writeMerged_congr",
            "LNN.C10_fUpQuant_congr",
            "LNN.C10_fDownQuant_congr",
            "LNN.C10_runFCalls_congr",
            "LNN.C10_fInfer_congr",
            "LNN.C10_quant_needs_nodup"]
MODULES = ["LnnVerif.Props.C10", "LnnVerif.Props.C10Run"]


def run_seed(args):
    hashseed, shuffle, inp, outp = args
    env = dict(os.environ, PYTHONHASHSEED=str(hashseed), OMP_NUM_THREADS="1")
    p = subprocess.run([PY, os.path.join(VERIF, "harness", "seedrun.py"), inp, outp, str(shuffle)], env=env,
                       capture_output=True, text=True, timeout=3000)
    if p.returncode != 0:
        return {"crash": p.stderr[-800:]}
    return json.load(open(outp))


def run(rep, tier, seed):
    n = size(tier, 50, 400)
    seeds = list(range(16)) if tier == "thorough" else [0, 1, 2]
    progs = [streams.gen_fol_program(seed + 61, k, quant=False, n_ops=(2, 8)) for k in range(n // 2)]
    progs += [streams.gen_fol_program(seed + 67, k, quant=True, n_ops=(2, 8), mid_facts=0.1) for k in range(n - n // 2)]
    progs += [streams.gen_fol_program(seed + 71, k, quant=False, n_ops=(0, 4), n_conn=(1, 2), down_first=True) for k in range(n // 2)]
    progs += [streams.gen_downfirst_program(seed + 73, k) for k in range(2 * n)]      # tiny programs, cheap
    # a negated predicate that also occurs un-negated in another rule, premises known for different individuals: the tables of
    # Not(P) and P are filled from different sides, in orders that depend on set iteration
    import fol as _fol
    import random as _random
    from common import sub_seed as _ss
    for k in range(n):
        c = _fol.gen_c02_negshare_case(_random.Random(_ss(seed, "c10neg", k)))
        progs.append({"kb": c["kb"], "facts": c["facts"], "ops": c["ops"] + [("passup",), ("passdown",)], "n_consts": c["n_consts"]})
    tmp = tempfile.mkdtemp(prefix="lnnverif_c10_")
    try:
        inp = os.path.join(tmp, "in.json")
        json.dump([streams.ser(p) for p in progs], open(inp, "w"))
        jobs = [(hs, k, inp, os.path.join(tmp, f"out_{hs}_{k}.json")) for k, hs in enumerate(seeds)]
        with ThreadPoolExecutor(min(len(jobs), 14)) as ex:
            outs = list(ex.map(run_seed, jobs))
    finally:
        import shutil
        shutil.rmtree(tmp, ignore_errors=True)
    crashed = [o for o in outs if "crash" in o]
    if crashed:
        rep.extra["seedrun_crash"] = crashed[0]["crash"]
    outs = [o for o in outs if "crash" not in o]
    rep.extra["hash_seeds"] = seeds
    # model: run once on the protocol of the first seed
    base = outs[0]["results"]
    recs = [{"lines": r["lines"], "impl": r["impl"], "meta": {}} for r in base if "crash" not in r]
    engine.model_outputs(recs)
    ndis = ncmp = 0
    first = None
    differing = 0
    it = iter(recs)
    for k, prog in enumerate(progs):
        variants = [o["results"][k] for o in outs]
        if any("crash" in v for v in variants):
            rep.bump("harness_crashes")
            continue
        rec = next(it)
        # the protocol lines carry the fact order of each run, the outputs must not depend on it
        canon = [[o for l, o in zip(v["lines"], v["impl"]) if not l.startswith(("fact ", "fnode", "reset"))] for v in variants]
        orders_differ = any(v["lines"] != variants[0]["lines"] for v in variants[1:])
        differing += orders_differ
        rep.count_case(streams.canon(prog), orders_differ)
        for hs, c in zip(seeds[1:], canon[1:]):
            if c != canon[0] or variants[0]["errors"] != variants[seeds.index(hs)]["errors"]:
                j = next((i for i, (a, b) in enumerate(zip(canon[0], c)) if a != b), None)
                rep.violation("seed-dependence", {"problem": "the same program gives different bounds under different hash seeds / fact orders",
                                                  "hash_seeds": [seeds[0], hs], "first_difference": None if j is None else [canon[0][j][:300], c[j][:300]]},
                              {"program": streams.ser(prog), "hash_seeds": [seeds[0], hs]})
                break
        dis, safe, nc = engine.compare_record(rec, None)
        ncmp += nc
        if dis:
            ndis += 1
            first = first or (prog, dis)
        rep.sample({"kb": streams.ser(prog["kb"])}, limit=1)
    rep.extra["programs_with_differing_fact_order"] = differing
    rep.obligation("correspondence:fol-seeds", ndis == 0, f"{len(progs)} programs x {len(seeds)} hash seeds, {ncmp} lines compared with the order-free model, {ndis} disagree")
    rep.cov["rule"] = ("quantifier-free and quantified first-order programs whose tables are filled from several formulae, each executed in a "
                       "separate interpreter per PYTHONHASHSEED with its own shuffled fact insertion order; all canonical dumps (tables sorted by "
                       "grounding, amounts, sweep counts, contradiction flags) must coincide and equal the order-free Lean model; non-trivial = "
                       "the fact insertion order really differed between executions")
    if first and not rep.violations:
        rep.extra["first_disagreement"] = {"program": streams.ser(first[0]), "at": first[1][:3]}


def replay(obj):
    """re-run the program under the two hash seeds that disagreed"""
    r = obj["replay"]
    prog = r["program"]
    tmp = tempfile.mkdtemp(prefix="lnnverif_c10_")
    try:
        inp = os.path.join(tmp, "in.json")
        json.dump([prog], open(inp, "w"))
        outs = [run_seed((hs, k, inp, os.path.join(tmp, f"o{k}.json"))) for k, hs in enumerate(r["hash_seeds"])]
    finally:
        import shutil
        shutil.rmtree(tmp, ignore_errors=True)
    canon = [[o for l, o in zip(x["results"][0]["lines"], x["results"][0]["impl"]) if not l.startswith(("fact ", "fnode", "reset"))] for x in outs]
    bad = canon[0] != canon[1]
    print("REPRODUCED" if bad else "not reproduced")
    return 1 if bad else 0
