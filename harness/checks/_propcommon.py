"""helpers shared by the checks that run on propositional programs"""
import streams


def dumps_of(rec, upto=None):
    """[(line_no, preceding op line, [(lo,hi)...])] for every dump inside the safe prefix"""
    res = []
    n = len(rec["lines"]) if upto is None else min(upto, len(rec["lines"]))
    last_op = ""
    for k in range(n):
        line = rec["lines"][k]
        if line.startswith("dump "):
            res.append((k, last_op, streams.parse_dump(rec["impl"][k])))
        elif not line.startswith(("contra", "node", "reset")):
            last_op = line
    return res


def op_results(rec, upto=None):
    """[(op line, returned text, dump before, dump after)] for every inference op in the safe prefix"""
    res = []
    n = len(rec["lines"]) if upto is None else min(upto, len(rec["lines"]))
    prev_dump = None
    pending = None
    for k in range(n):
        line, out = rec["lines"][k], rec["impl"][k]
        if line.startswith("dump "):
            d = streams.parse_dump(out)
            if pending is not None:
                res.append((pending[0], pending[1], prev_dump, d))
                pending = None
            prev_dump = d
        elif line.startswith(("up ", "down ", "pass ", "infer ")):
            pending = (line, out)
        elif line.startswith("set "):
            pending = None
    return res


def standard_programs(seed, n, mode, **opts):
    # every sixth program favours connectives that hold ONE formula object in several operand slots (And(A, A), Or(A, B, A))
    return [streams.gen_prop_program(seed, k, mode=mode, **(dict(opts, repeat_p=0.85) if k % 6 == 5 else opts)) for k in range(n)]
