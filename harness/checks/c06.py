"""C06 — infer() terminates at a genuine fixpoint (propositional part here; first-order part in c06_fol)."""
from common import size
import streams
from checks._propcommon import op_results, standard_programs

THEOREMS = ["LNN.C06_sweep_zero_fix",
            "LNN.C06_infer_again",
            "LNN.C06_grid",
            "LNN.C06_fixpoint",
            "LNN.C06_fixpoint_grid",
            "LNN.C06_terminates",
            "LNN.C06_terminates_two_N",
            "LNN.C06_terminates_exists",
            "LNN.C06_pInfer_is_fInfer",
            "LNN.C06_fol_fixpoint",
            "LNN.C06_fol_any_schedule",
            "LNN.C06_fol_infer_again",
            "LNN.C06_fol_runExact_of_eps_zero",
            # first-order infer() returns (Lemmas/FolTerm.lean): potential argument over the finite universe of groundings
            "LNN.C06_fol_terminates",
            "LNN.C06_fol_terminates_constants",
            "LNN.C06_fol_terminates_exists",
            "LNN.C06_fol_returns_at_fixpoint",
            # the executed loop with the grounding-propagation layer (Lemmas/PendTerm.lean)
            "LNN.C06_layer_terminates_constants",
            "LNN.C06_layer_query_terminates"]
MODULES = ["LnnVerif.Props.C06", "LnnVerif.Props.C06Term"]
FACETS = {"bounds", "reported"}
MAXS = 200


def oracle(rec):
    res = op_results(rec, rec.get("safe_upto"))
    if not res:
        return None
    op, out, before, after = res[0]
    assert op.startswith("infer ")
    steps = int(out.split()[1])
    if steps >= MAXS:
        return {"op": op, "problem": f"infer() did not return within {MAXS} sweeps", "returned": out}
    fix = after
    for op2, out2, b2, a2 in res[1:]:
        amount = out2.split()[2] if out2.startswith("n ") else out2.split()[1]
        if a2 != fix:
            return {"op": op2, "problem": "a step after infer() changed a bound: not a fixpoint", "reported": amount}
        if amount != "0":
            return {"op": op2, "problem": "a step after infer() reported a non-zero amount", "reported": amount}
        if op2.startswith("infer ") and out2.split()[1] != "1":
            return {"op": op2, "problem": "second infer() took more than one sweep", "returned": out2}
    if rec["meta"]["errors"]:
        return {"exception": rec["meta"]["errors"]}
    return None


def run(rep, tier, seed):
    n = size(tier, 300, 6000)
    progs = (standard_programs(seed, n // 2, "interp", n_ops=(0, 0)) +
             standard_programs(seed + 15485863, n - n // 2, "given", crossed_p=0.1, n_ops=(0, 0)))
    # loops that gain one small dyadic step per sweep: convergence takes 17-33 sweeps on a model of 6-8 formulae
    progs = streams.corpus_programs("C06") + [streams.gen_creep_program(seed, k) for k in range(6)] + progs
    for p in progs:
        conn = [x["id"] for x in p["kb"]["nodes"] if x["kind"] != "atom"]
        tail = [("passup",), ("passdown",)]
        for i in conn:
            tail += [("up", i), ("down", i, None)]
        p["ops"] = [("infer", MAXS)] + tail + [("infer", MAXS)]
    recs, first_dis = streams.run_prop_stream(rep, "prop-infer", progs, FACETS)
    rep.cov["rule"] = ("random weighted propositional KBs (Iff/XOr, shared and repeated sub-formulae, several roots, dyadic bounds, "
                       "power-of-two weights), infer() then every model-level pass and every node-level upward/downward call, then "
                       "infer() again; the model's sweep count must equal the implementation's; non-trivial = convergence needed "
                       ">= 2 sweeps")
    hist = {}
    for r in recs:
        if "crash" in r:
            rep.bump("harness_crashes")
            continue
        res = op_results(r)
        steps = int(res[0][1].split()[1]) if res else 0
        hist[steps] = hist.get(steps, 0) + 1
        rep.count_case(streams.canon(r["prog"]), steps >= 3)
        bad = oracle(r)
        if bad:
            rep.violation("not-a-fixpoint", bad, {"program": streams.ser(r["prog"]), "failure": bad,
                                                  "protocol": r["lines"], "impl": r["impl"]})
        rep.sample({"kb": streams.ser(r["prog"]["kb"]), "data": r["meta"]["data"]}, limit=2)
    rep.extra["sweeps_to_converge_histogram"] = {str(k): v for k, v in sorted(hist.items())}
    import checks.c06_fol as f
    f.run(rep, tier, seed)
    if first_dis is not None and not rep.violations:
        rep.extra["first_disagreement"] = {"program": streams.ser(first_dis["prog"]), "at": first_dis["disagreements"][:3]}


def replay(obj):
    import engine
    prog = streams.fix_prog(obj["replay"]["program"])
    rec = engine.run_cases("prop", "run_prop_program", [prog], jobs=1)[0]
    bad = oracle(rec)
    print("REPRODUCED" if bad else "not reproduced", bad)
    return 1 if bad else 0
