"""C12 — quantifier downward inference is sound instantiation."""
import random

import fol
import streams
from checks._folcommon import tabs_of
from common import parse_q, sub_seed, size

THEOREMS = ["LNN.C12_sound_forall", "LNN.C12_sound_exists", "LNN.C12_lower_passes", "LNN.C12_axiom_instances_true",
            "LNN.C12_upper_passes", "LNN.C12_only_when_forced", "LNN.C12_only_when_forced_exists",
            "LNN.C12_false_forall_not_all_false", "LNN.C12_true_exists_not_all_true", "LNN.C12_engine_frame",
            "LNN.C12_engine_instance", "LNN.C12_engine_sound"]
MODULES = ["LnnVerif.Props.C12"]


def oracle(rec):
    m = rec["meta"]
    if m["errors"]:
        return {"exception": m["errors"]}
    for k, op, out, tabs in tabs_of(rec):
        for key, v in m["atom"].items():
            pid, g = key.split(":")
            b = tabs.get(int(pid), {}).get(g)
            if b is None:
                continue
            v = parse_q(v)
            if not (b[0] <= v <= b[1]):
                return {"problem": "an instance was tightened beyond what the quantified formulae justify: the drawn interpretation, which "
                                   "satisfies every quantified formula, is no longer inside the bounds", "predicate": int(pid), "grounding": g,
                        "value": str(v), "bounds": [str(b[0]), str(b[1])], "after": op}
    if any(o == "c 1" for l, o in zip(rec["lines"], rec["impl"]) if l.startswith("fcontra")):
        return {"problem": "a table with a consistent reading was driven to a contradiction"}
    return None


def run(rep, tier, seed):
    n = size(tier, 150, 3000)
    cases = [fol.gen_c12_case(random.Random(sub_seed(seed, "c12", k))) for k in range(n)]
    recs, first_dis = streams.run_fol_stream(rep, "quant-interp", cases, {"tables", "reported", "contra"}, fn="run_c12")
    tightened = 0
    for r in recs:
        if "crash" in r:
            continue
        ts = tabs_of(r)
        moved = len(ts) >= 2 and any(ts[0][3].get(p["id"]) != ts[-1][3].get(p["id"]) for p in r["prog"]["kb"]["preds"])
        tightened += moved
        rep.count_case(streams.canon(r["prog"]), moved and bool(r["meta"]["qfacts"]))
        bad = oracle(r)
        if bad:
            rep.violation("quantifier-downward", bad, {"case": streams.ser(r["prog"]), "failure": bad, "protocol": r["lines"], "impl": r["impl"]})
        rep.sample({"kb": streams.ser(r["prog"]["kb"]), "quantifier_data": r["meta"]["qfacts"]}, limit=2)
    rep.extra["cases_where_downward_tightened_a_predicate"] = tightened
    rep.cov["rule"] = ("Forall/Exists, fully or partially quantified, nested (several variables), over unary predicates and connective bodies; "
                       "COMPLETE tables over 2-3 constants drawn around an interpretation; fully quantified roots get bounds around the value the "
                       "interpretation gives them (nested conjunction/disjunction over the known instances) through add_data; infer() and "
                       "node-level downward calls; the interpretation must stay inside every fact and no contradiction may appear; all tables "
                       "compared with the Lean model; non-trivial = the quantifier carried data and downward inference tightened a predicate row")
    if first_dis is not None and not rep.violations:
        rep.extra["first_disagreement"] = {"case": streams.ser(first_dis["prog"]), "at": first_dis["disagreements"][:3]}


def replay(obj):
    import engine
    case = streams.fix_prog(obj["replay"]["case"])
    case["atoms"] = [tuple(a) for a in case["atoms"]]
    rec = engine.run_cases("fol", "run_c12", [case], jobs=1)[0]
    bad = oracle(rec)
    print("REPRODUCED" if bad else "not reproduced", bad)
    return 1 if bad else 0
