"""C11 — quantifiers aggregate their instances exactly and respect the open world."""
import random
from fractions import Fraction as Fr

import fol
import streams
from checks._folcommon import tabs_of
from common import parse_q, sub_seed, size

THEOREMS = ["LNN.C11_qUp_forall", "LNN.C11_qUp_exists", "LNN.C11_forall_upper_unit", "LNN.C11_exists_lower_unit",
            "LNN.C11_fully_grounded", "LNN.C11_positives_never_prove", "LNN.C11_negatives_never_refute",
            "LNN.C11_one_false_refutes_agg", "LNN.C11_one_true_proves_agg", "LNN.C11_engine_group",
            "LNN.C11_engine_forall", "LNN.C11_engine_exists", "LNN.C11_engine_other_groups", "LNN.C11_engine_frame"]
MODULES = ["LnnVerif.Props.C11"]
ONE, ZERO = Fr(1), Fr(0)


def clamp(x):
    return min(ONE, max(ZERO, x))


def expected_up(qi, before):
    """closed form of one upward call of quantifier qi on the tables `before`: {group: (lo,hi)}"""
    body = before.get(qi["body"], {})
    if not body:
        return None
    w = (parse_q(qi["world"][0]), parse_q(qi["world"][1]))
    groups = {}
    for g, b in body.items():
        gl = g.split(".") if g != "-" else []
        key = ".".join(gl[k] for k in qi["free"]) if qi["free"] else "-"
        groups.setdefault(key, []).append(b)
    res = {}
    for key, inst in groups.items():
        prev = before.get(qi["id"], {}).get(key, w)
        if qi["kind"] == "forall":
            new = (clamp(1 - sum(1 - b[0] for b in inst)), clamp(1 - sum(1 - b[1] for b in inst)))
            sel = "upper"
        else:
            new = (clamp(sum(b[0] for b in inst)), clamp(sum(b[1] for b in inst)))
            sel = "lower"
        if qi["fg"]:
            sel = "both"
        lo = prev[0] if sel == "upper" else max(prev[0], new[0])
        hi = prev[1] if sel == "lower" else min(prev[1], new[1])
        res[key] = (clamp(lo), clamp(hi))
    return res


def oracle(rec):
    if rec["meta"]["errors"]:
        return {"exception": rec["meta"]["errors"]}
    quant = {int(k): dict(v, id=int(k)) for k, v in rec["meta"]["quant"].items()}
    # right after reset_bounds() a quantifier that was never asserted holds its world default for every group: the next
    # upward call then aggregates the CURRENT instances onto that, not onto what an earlier run left behind
    for k, line in enumerate(rec["lines"]):
        if line.startswith("fresetb") and k + 1 < len(rec["lines"]) and rec["lines"][k + 1].startswith("ftab "):
            tabs = fol.parse_tab(rec["impl"][k + 1])
            for i, qi in quant.items():
                w = (parse_q(qi["world"][0]), parse_q(qi["world"][1]))
                for g, b in tabs.get(i, {}).items():
                    if b != w:
                        return {"problem": "after reset_bounds() a quantifier group still holds the bounds of the previous run", "quantifier": i,
                                "group": g, "got": list(map(str, b)), "world_default": list(map(str, w))}
    prev = None
    for k, op, out, tabs in tabs_of(rec):
        if prev is not None and op.startswith("fup "):
            i = int(op.split()[1])
            if i in quant:
                exp = expected_up(quant[i], prev)
                if exp is not None:
                    for key, b in exp.items():
                        got = tabs[i].get(key)
                        if got != b:
                            return {"problem": "quantifier bounds after upward differ from the exact aggregation of its known instances",
                                    "quantifier": i, "kind": quant[i]["kind"], "group": key, "expected": list(map(str, b)),
                                    "got": None if got is None else list(map(str, got)), "after": op}
                    for key, b in prev.get(i, {}).items():
                        if key not in exp and tabs[i].get(key) != b:
                            return {"problem": "a group without instances was changed", "quantifier": i, "group": key}
        prev = tabs
    return None


def gen_growing_group(rng):
    """a quantifier with a free variable whose groups GAIN instances after they were first evaluated -- the first group (row 0)
    and later ones, by one and by several instances -- with an upward call after every arrival"""
    kind = rng.choice(["forall", "exists"])
    two = rng.random() < 0.6
    preds = [{"id": 0, "arity": 2, "world": "open"}] + ([{"id": 1, "arity": 1, "world": "open"}] if two else [])
    bops = [[0, ["x", "y"]], [1, ["y"]]] if two else [[0, ["x", "y"]], [0, ["x", "y"]]]
    body = {"id": 2, "kind": rng.choice(["and", "or"]), "ops": bops, "act": "lukt"}
    qn = {"id": 3, "kind": kind, "ops": [[2, None]], "qvars": ["y"]}
    if rng.random() < 0.2:
        qn["fully_grounded"] = True
    nc = rng.randint(2, 4)
    val = lambda: fol.rand_bounds(rng, 0.4, 0.0)
    facts = []
    if two:
        for c in range(nc):
            facts.append((1, [c], *val()))
    xs = list(range(nc))
    rng.shuffle(xs)
    arrivals = [(x, y) for y in range(nc) for x in xs if rng.random() < 0.8]      # every group gets its y = 0 instance first, ...
    first = [(0, [x, y], *val()) for x, y in arrivals if y == 0]
    ops = [("up", 2), ("up", 3)]
    for x, y in arrivals:
        if y == 0:
            continue
        ops.append(("fact", 0, [x, y], *val()))
        if rng.random() < 0.7:
            ops += [("up", 2), ("up", 3)]
    ops += [("up", 2), ("up", 3), ("up", 3)]
    if rng.random() < 0.6:
        # a second run on REVISED data: reset_bounds(), some instances re-asserted more loosely, upward again -- every group
        # must hold the aggregate of its CURRENT instances
        ops.append(("resetb",))
        for x, y in arrivals[: rng.randint(1, 3)]:
            ops.append(("fact", 0, [x, y], ZERO, ONE) if rng.random() < 0.5 else ("fact", 0, [x, y], *val()))
        ops += [("up", 2), ("up", 3)]
    return {"kb": {"preds": preds, "nodes": [body, qn], "roots": [3]}, "facts": facts + first, "ops": ops, "n_consts": nc}


def gen_program(seed, k):
    rng = random.Random(sub_seed(seed, "c11", k))
    if k % 4 == 3:
        return gen_growing_group(rng)
    kb = fol.gen_fol_kb(rng, n_preds=(1, 3), n_conn=(0, 2), max_arity=2, quant=True, worlds=(k % 2 == 0))
    qs = [n["id"] for n in kb["nodes"] if n["kind"] in ("forall", "exists")]
    if not qs:
        return None
    # every fifth program asserts CROSSED bounds for some instances: a crossed instance still is an instance -- its upper bound
    # enters a Forall, its lower bound an Exists, exactly like any other (detection of S66 must not depend on the seed)
    facts, nc = fol.gen_facts(rng, kb, n_consts=(2, 4), density=0.5 if k % 5 != 1 else 0.8, classical_p=0.4,
                              crossed_p=0.0 if k % 5 != 1 else 0.5)
    rng.shuffle(facts)
    cut = len(facts) // 2
    first, later = facts[:cut], facts[cut:]
    ops = [("passup",)]
    # node-level upward calls on the quantifiers, data added in stages so that groups appear out of sorted order
    for f in later:
        if rng.random() < 0.5:
            ops.append(("fact", f[0], f[1], f[2], f[3]))
            ops.append(("passup",))
    ops.append(("passup",))
    if rng.random() < 0.5:
        ops.insert(rng.randint(1, len(ops)), ("passdown",))
    return {"kb": kb, "facts": first, "ops": ops, "n_consts": nc}


def expand_quant_ups(prog_rec_meta, prog):
    return prog


def run(rep, tier, seed):
    n = size(tier, 150, 3000)
    progs = [p for p in (gen_program(seed, k) for k in range(n)) if p]
    # replace every model-level upward pass by explicit node-level calls in creation order, so that each quantifier call is judged
    for p in progs:
        order = [x["id"] for x in p["kb"]["nodes"]]
        new = []
        for o in p["ops"]:
            if o == ("passup",):
                new += [("up", i) for i in order]
            else:
                new.append(o)
        p["ops"] = new
    recs, first_dis = streams.run_fol_stream(rep, "quant", progs, {"tables", "reported"})
    groups = 0
    for r in recs:
        if "crash" in r:
            continue
        multi = False
        quant = r["meta"]["quant"]
        last = next((o for l, o in reversed(list(zip(r["lines"], r["impl"]))) if l.startswith("ftab ")), "t")
        tabs = fol.parse_tab(last)
        for qi in quant.values():
            body = tabs.get(qi["body"], {})
            if len(body) >= 2 and any(b not in ((ZERO, ZERO), (ONE, ONE), (ZERO, ONE)) for b in body.values()):
                multi = True
            groups += 1
        rep.count_case(streams.canon(r["prog"]), multi)
        bad = oracle(r)
        if bad:
            rep.violation("quantifier-aggregation", bad, {"program": streams.ser(r["prog"]), "failure": bad,
                                                          "protocol": r["lines"], "impl": r["impl"]})
        rep.sample({"kb": streams.ser(r["prog"]["kb"])}, limit=2)
    rep.extra["quantifiers_checked"] = groups
    rep.cov["rule"] = ("Forall/Exists over unary predicates and connective bodies, all or some variables, nested (several variables), fully_grounded, "
                       "all worlds, dyadic tables over 2-4 constants, data added in stages so that groups appear out of sorted order; after EVERY "
                       "node-level upward call of a quantifier its table is compared with the closed form computed from the tables before the call "
                       "(per group: Lukasiewicz conjunction of instance upper bounds / disjunction of lower bounds, other bound untouched unless "
                       "fully grounded) and with the Lean model; non-trivial = a group with >= 2 instances and a non-classical instance bound")
    if first_dis is not None and not rep.violations:
        rep.extra["first_disagreement"] = {"program": streams.ser(first_dis["prog"]), "at": first_dis["disagreements"][:3]}


def replay(obj):
    import engine
    prog = streams.fix_prog(obj["replay"]["program"])
    prog["facts"] = [tuple(f) for f in prog["facts"]]
    rec = engine.run_cases("fol", "run_fol_program", [prog], jobs=1)[0]
    bad = oracle(rec)
    print("REPRODUCED" if bad else "not reproduced", bad)
    return 1 if bad else 0
