"""first-order part of C06: infer() returns, and leaves a state in which no pass and no node-level call changes
anything; a second infer() reports zero and takes one sweep."""
from common import size
import streams
from checks._folcommon import tabs_of, is_inference, amount_of

MAXS = 60


def oracle(rec):
    ts = [t for t in tabs_of(rec, rec.get("safe_upto")) if is_inference(t[1])]
    if not ts:
        return None
    k, op, out, fix = ts[0]
    steps = int(out.split()[1])
    if steps >= MAXS:
        return {"op": op, "problem": f"infer() did not return within {MAXS} sweeps", "returned": out}
    for k2, op2, out2, tabs in ts[1:]:
        if tabs != fix:
            return {"op": op2, "problem": "a step after infer() changed a table: not a fixpoint", "reported": amount_of(out2)}
        if amount_of(out2) != "0":
            return {"op": op2, "problem": "a step after infer() reported a non-zero amount", "reported": amount_of(out2)}
        if op2.startswith("finfer") and out2.split()[1] != "1":
            return {"op": op2, "problem": "second infer() took more than one sweep", "returned": out2}
    if rec["meta"]["errors"]:
        return {"exception": rec["meta"]["errors"]}
    return None


def run(rep, tier, seed):
    n = size(tier, 100, 2000)
    hist = {}
    for name, quant, par in (("fol-qf", False, True), ("quant", True, True), ("qparent", True, 1.0)):
        progs = [streams.gen_fol_program(seed + 23, k, quant=quant, n_ops=(0, 0), parents=par)
                 for k in range(n if par is True else n // 2)]
        for p in progs:
            conn = [x["id"] for x in p["kb"]["nodes"]]
            tail = [("passup",), ("passdown",)]
            for i in conn:
                tail += [("up", i), ("down", i, None)]
            p["ops"] = [("infer", MAXS)] + tail + [("infer", MAXS)]
        if name == "qparent":
            progs = streams.corpus_fol("C06") + progs          # minimised past failures run first
        recs, first = streams.run_fol_stream(rep, name, progs, {"tables", "reported"})
        for r in recs:
            if "crash" in r:
                continue
            inf = next((o for l, o in zip(r["lines"], r["impl"]) if l.startswith("finfer")), "n 0 0")
            steps = int(inf.split()[1])
            hist[steps] = hist.get(steps, 0) + 1
            rep.count_case(streams.canon(r["prog"]), steps >= 3)
            bad = oracle(r)
            if bad:
                rep.violation("fol-not-a-fixpoint", bad, {"program": streams.ser(r["prog"]), "failure": bad,
                                                          "protocol": r["lines"], "impl": r["impl"]})
        if first is not None and not rep.violations:
            rep.extra.setdefault("first_disagreement_" + name, {"program": streams.ser(first["prog"]), "at": first["disagreements"][:3]})
    rep.extra["fol_sweeps_to_converge_histogram"] = {str(k): v for k, v in sorted(hist.items())}
