"""first-order part of C06 (filled in when the fol stream exists)"""


def run(rep, tier, seed):
    return
