"""C20 — query- and source-restricted inference is local and agrees with full inference."""
import random
from fractions import Fraction as Fr

import engine
import prop
import streams
from common import sub_seed, size, parse_q

THEOREMS = ["LNN.C20_local",
            "LNN.C20_local_pass",
            "LNN.C20_verdict_final",
            "LNN.C20_restricted_not_tighter",
            "LNN.C20_fol_call_local",
            "LNN.C20_fol_pass_local",
            "LNN.C20_fol_local",
            "LNN.C20_fol_verdict_final"]
MODULES = ["LnnVerif.Props.C20", "LnnVerif.Props.C20Fol"]
FACETS = {"bounds", "reported", "contra"}


def gen_case(seed, k):
    rng = random.Random(sub_seed(seed, "c20", k))
    kb = prop.gen_kb(rng, n_atoms=(3, 5), n_conn=(3, 7))
    # make sure there are several roots: add extra connectives on the atoms that nobody uses
    nid = max(n["id"] for n in kb["nodes"]) + 1
    atoms = [n["id"] for n in kb["nodes"] if n["kind"] == "atom"]
    for _ in range(rng.randint(1, 2)):
        a, b = rng.sample(atoms, 2)
        kb["nodes"].append({"id": nid, "kind": rng.choice(["and", "or", "implies"]), "ops": [a, b]})
        kb["roots"].append(nid)
        nid += 1
    cands = [n["id"] for n in kb["nodes"]]
    conn = [n["id"] for n in kb["nodes"] if n["kind"] != "atom"]
    case = {"kb": kb, "source": rng.choice(conn), "source2": rng.choice(conn), "query": rng.choice(cands if rng.random() < 0.3 else conn),
            "interp_atoms": {a: Fr(rng.choice([0, 0, 8, 8, rng.randint(0, 8)]), 8) for a in atoms},
            "data_seed": rng.randrange(1 << 30)}
    return case


def oracle(rec):
    m = rec["meta"]
    if m["violations"]:
        return m["violations"][0]
    if rec["safe_upto"] < len(rec["lines"]):
        return None
    ids = m["ids"]
    d0, d1, d2 = (streams.parse_dump(m[k]) for k in ("d0", "d1", "d2"))
    outside = set(m["info"]["outside"])
    for i, a, b in zip(ids, d0, d1):
        if i in outside and a != b:
            return {"problem": "infer(source=) changed a formula outside the source's sub-graph", "node": i,
                    "before": list(map(str, a)), "after": list(map(str, b))}
    if m["contra_full"] == "c 0":
        for i, a, b in zip(ids, d1, d2):
            if a[0] > b[0] or a[1] < b[1]:
                return {"problem": "restricted run derived something the full run does not", "node": i,
                        "restricted": list(map(str, a)), "full": list(map(str, b))}
    d0q, d1q, insideq = m["iq"]
    for i, a, b in zip(ids, streams.parse_dump(d0q), streams.parse_dump(d1q)):
        if i not in insideq and a != b:
            return {"problem": "infer_query changed a formula outside the query's sub-graph", "node": i}
    if m["q_resolved_early"] and m["contra_conv"] == "c 0":
        e, c = m["q_bounds_early"], m["q_bounds_conv"]
        if e in (["1", "1"], ["0", "0"]) and e != c:
            return {"problem": "early classical verdict changed under converge=True", "early": e, "converged": c}
    return None


def run(rep, tier, seed):
    n = size(tier, 150, 3000)
    cases = [gen_case(seed, k) for k in range(n)]
    recs = engine.run_cases("prop", "run_c20", cases, chunksize=2)
    for r, c in zip(recs, cases):
        r["prog"] = c
    engine.model_outputs([r for r in recs if "lines" in r])
    ndis = ncmp = nskip = early = 0
    first = None
    for r in recs:
        if "crash" in r:
            rep.bump("harness_crashes")
            rep.extra.setdefault("first_crash", r["crash"] + r.get("trace", "")[-400:])
            continue
        dis, safe, nc = engine.compare_record(r, FACETS)
        r["safe_upto"] = safe
        ncmp += nc
        nskip += safe < len(r["lines"])
        if dis:
            ndis += 1
            first = first or (r, dis)
        m = r["meta"]
        early += bool(m["q_resolved_early"] and m["info"]["steps_early"] < m["info"]["steps_conv"])
        nontriv = m["info"]["restricted_steps"] >= 2 and len(m["info"]["outside"]) >= 2 and m["d0"] != m["d1"]
        rep.count_case(streams.canon(r["prog"]), nontriv)
        bad = oracle(r)
        if bad:
            rep.violation("restricted-inference", bad, {"case": streams.ser(r["prog"]), "failure": bad, "data": m["data"]})
        rep.sample({"kb": streams.ser(r["prog"]["kb"]), "source": r["prog"]["source"], "query": r["prog"]["query"]}, limit=2)
    rep.obligation("correspondence:prop-restricted", ndis == 0, f"{len(recs)} cases, {ncmp} lines compared, {ndis} disagree")
    rep.extra.update({"prop-restricted_cases": len(recs), "prop-restricted_precision_skipped": nskip,
                      "early_query_stops": early})
    rep.cov["rule"] = ("multi-root weighted propositional KBs with interpretation-first (consistent) dyadic data; a random source node for "
                       "infer(source=), a random query for set_query with converge False/True and infer_query; observed traversal must "
                       "stay inside the source's sub-graph, snapshots outside must be identical, restricted result must not be tighter "
                       "than the following full fixpoint, early classical verdicts must survive convergence; non-trivial = restricted run "
                       "needed >= 2 sweeps, moved a bound, and >= 2 formulae lie outside")
    if first and not rep.violations:
        rep.extra["first_disagreement"] = {"case": streams.ser(first[0]["prog"]), "at": first[1][:3]}
    run_fol(rep, tier, seed)


def fol_oracle(rec):
    """locality of restricted first-order inference, and: it derives nothing the full run does not"""
    import fol
    m = rec["meta"]
    if m["errors"]:
        return {"exception": m["errors"]}
    inside = set(m["inside"])
    called = [i for i in m["restricted_calls"] if i not in inside]
    if called:
        return {"problem": "restricted traversal called formulae outside the source's sub-graph", "called": called, "source_subgraph": sorted(inside)}
    t0, t1, t2 = fol.parse_tab(m["before"]), fol.parse_tab(m["restricted"]), fol.parse_tab(m["full"])
    for i in m["ids"]:
        if i not in inside and t0.get(i, {}) != t1.get(i, {}):
            return {"problem": "restricted inference changed a formula outside the source's sub-graph", "formula": i,
                    "before": {g: list(map(str, b)) for g, b in t0.get(i, {}).items()},
                    "after": {g: list(map(str, b)) for g, b in t1.get(i, {}).items()}}
    if not m["full_contra"]:
        for i, rows in t1.items():
            w = tuple(parse_q(x) for x in m["worlds"][i]) if i in m["worlds"] else None
            for g, (lo, hi) in rows.items():
                full = t2.get(i, {}).get(g, w)
                if full is not None and (lo > full[0] or hi < full[1]):
                    return {"problem": "restricted inference derived a bound the full run does not", "formula": i, "grounding": g,
                            "restricted": [str(lo), str(hi)], "full": [str(full[0]), str(full[1])]}
    return None


def gen_fol_case(seed, k):
    import fol
    rng = random.Random(sub_seed(seed, "c20fol", k))
    quant = k % 2 == 1
    prog = streams.gen_fol_program(seed + 83, k, quant=quant, n_ops=(0, 0), n_conn=(2, 4), parents=(1.0 if k % 4 == 3 else True))
    kb = prog["kb"]
    cands = [p["id"] for p in kb["preds"]] * 2 + [n["id"] for n in kb["nodes"]]
    return {"kb": kb, "facts": prog["facts"], "source": rng.choice(cands), "mode": rng.choice(["source", "source", "query"])}


def run_fol(rep, tier, seed):
    n = size(tier, 100, 1500)
    cases = [gen_fol_case(seed, k) for k in range(n)]
    recs = engine.run_cases("fol", "run_c20_fol", cases, chunksize=2)
    for r, c in zip(recs, cases):
        r["prog"] = c
    engine.model_outputs([r for r in recs if "lines" in r])
    ndis = ncmp = 0
    first = None
    crashes = [r for r in recs if "crash" in r]
    for r in recs:
        if "crash" in r:
            continue
        dis, safe, nc = engine.compare_record(r, {"tables", "reported"})
        r["safe_upto"] = safe
        ncmp += nc
        if dis:
            ndis += 1
            first = first or (r, dis)
        m = r["meta"]
        outside = [i for i in m["ids"] if i not in m["inside"]]
        rep.count_case(streams.canon(r["prog"]), len(outside) >= 2 and m["before"] != m["restricted"])
        bad = fol_oracle(r)
        if bad:
            rep.violation("fol-restricted-inference", bad, {"case": streams.ser(r["prog"]), "failure": bad})
    rep.bump("fol-restricted_cases", len(recs))
    rep.obligation("correspondence:fol-restricted", ndis == 0, f"{len(recs)} cases, {ncmp} lines compared, {ndis} disagree")
    rep.obligation("harness:fol-restricted:every-program-ran", not crashes,
                   "" if not crashes else f"{len(crashes)} crashed; first: {crashes[0]['crash']}")
    if first and not rep.violations:
        rep.extra["first_disagreement_fol"] = {"case": streams.ser(first[0]["prog"]), "at": first[1][:3]}


def replay(obj):
    case = streams.fix_prog(obj["replay"]["case"])
    rec = engine.run_cases("prop", "run_c20", [case], jobs=1)[0]
    rec["safe_upto"] = len(rec["lines"])
    bad = oracle(rec)
    print("REPRODUCED" if bad else "not reproduced", bad)
    return 1 if bad else 0
