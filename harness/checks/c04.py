"""C04 — truth-functional on point inputs, classical / strong Kleene on classical inputs, duals agree."""
import itertools
import random
from fractions import Fraction as Fr

import engine
import streams
from common import sub_seed, size

THEOREMS = ["LNN.C04_point", "LNN.C04_point_call", "LNN.C04_point_local",
            "LNN.C04_classical_and", "LNN.C04_classical_or", "LNN.C04_classical_implies", "LNN.C04_classical_not",
            "LNN.C04_classical_iff", "LNN.C04_classical_xor",
            "LNN.C04_kleene_and", "LNN.C04_kleene_or", "LNN.C04_kleene_implies", "LNN.C04_kleene_not",
            "LNN.C04_dual_or_up", "LNN.C04_dual_or_down", "LNN.C04_dual_implies_up", "LNN.C04_dual_implies_down"]
MODULES = ["LnnVerif.Props.C04"]
FACETS = {"bounds", "reported"}

K = {"F": 0, "U": 1, "T": 2}
KN = {0: "FALSE", 1: "UNKNOWN", 2: "TRUE"}


def kleene(t, val):
    k = t[0]
    if k == "atom":
        return K[val[t[1]]]
    xs = [kleene(x, val) for x in t[1:]]
    if k == "not":
        return 2 - xs[0]
    if k == "and":
        return min(xs)
    if k == "or":
        return max(xs)
    if k == "implies":
        return max(2 - xs[0], xs[1])
    if k == "iff":
        return min(max(2 - xs[0], xs[1]), max(2 - xs[1], xs[0]))
    if k == "xor":
        pairs = [2 - min(a, b) for a, b in itertools.combinations(xs, 2)]
        return min(pairs + [max(xs)])
    raise ValueError(k)


def all_trees(n_atoms, depth):
    atoms = [("atom", i) for i in range(n_atoms)]
    pool = list(atoms)
    for _ in range(depth):
        new = [("not", x) for x in pool]
        for k in ("and", "or", "implies", "iff", "xor"):
            new += [(k, x, y) for x in pool for y in pool]
        pool = atoms + new
    return [t for t in pool if t[0] != "atom"]


def tree_size(t):
    return 0 if t[0] == "atom" else 1 + sum(tree_size(x) for x in t[1:])


def depth(t):
    return 0 if t[0] == "atom" else 1 + max(depth(x) for x in t[1:])


def run(rep, tier, seed):
    rng = random.Random(sub_seed(seed, "c04"))
    d1 = all_trees(2, 1)
    d2 = all_trees(2, 2)
    if tier != "thorough":
        trees = d1 + rng.sample(d2, 300)
        exhaustive = "all formulae with one connective over 2 atoms (exhaustive) + 300 sampled of the 2902 depth-2 formulae, all 9 three-valued inputs each"
    else:
        trees = d2
        exhaustive = "ALL 2902 formulae of depth <= 2 over And/Or/Implies/Not/Iff/XOr and 2 atoms, all 9 three-valued inputs each"
    # 3-atom formulae with 3-ary connectives
    three = []
    for _ in range(size(tier, 40, 600)):
        a = [("atom", 0), ("atom", 1), ("atom", 2)]
        inner = [rng.choice([("and",) + tuple(rng.sample(a, 2)), ("or",) + tuple(a), ("not", rng.choice(a)),
                             ("iff",) + tuple(rng.sample(a, 2)), ("xor",) + tuple(a), ("implies",) + tuple(rng.sample(a, 2))])
                 for _ in range(3)]
        three.append((rng.choice(["and", "or", "xor"]),) + tuple(inner))
    cases = [{"atoms": 2, "trees": trees[k:k + 25]} for k in range(0, len(trees), 25)]
    cases += [{"atoms": 3, "trees": three[k:k + 8]} for k in range(0, len(three), 8)]
    recs = engine.run_cases("misc", "run_c04_trees", cases, chunksize=1)
    engine.model_outputs([r for r in recs if "lines" in r])
    ndis = ncmp = 0
    first = None
    for case, r in zip(cases, recs):
        if "crash" in r:
            rep.bump("harness_crashes")
            rep.extra.setdefault("first_crash", r["crash"] + r.get("trace", "")[-300:])
            continue
        dis, safe, nc = engine.compare_record(r, FACETS)
        ncmp += nc
        if dis:
            ndis += 1
            first = first or dis
        for res in r["meta"]["results"]:
            tree = tuple_tree(res["tree"])
            rep.count_case(str(tree) + res["val"], depth(tree) >= 2)
            if not res["children_first"]:
                rep.violation("schedule", {"problem": "Model.upward() visited an operator before one of its operands", "tree": str(tree)},
                              {"tree": res["tree"], "val": res["val"]})
            # every sub-formula is judged
            desc, sub = __import__("misc").tree_to_desc(tree, case["atoms"])
            for nid, st in sub:
                exp = KN[kleene(st, res["val"])]
                got = res["states"].get(nid, res["states"].get(str(nid)))
                if got != exp:
                    rep.violation("kleene-table", {"formula": str(st), "inputs": res["val"], "expected": exp, "got": got},
                                  {"tree": res["tree"], "val": res["val"], "sub": str(st), "expected": exp, "got": got})
                gotn = res.get("states_node", {}).get(nid, res.get("states_node", {}).get(str(nid)))
                if gotn is not None and gotn != exp:
                    rep.violation("kleene-table-node-level",
                                  {"problem": "one node-level upward() call per formula, operands first, does not evaluate the formula",
                                   "formula": str(st), "inputs": res["val"], "expected": exp, "got": gotn},
                                  {"tree": res["tree"], "val": res["val"], "sub": str(st), "expected": exp, "got": gotn})
    rep.obligation("correspondence:trees-3v", ndis == 0, f"{len(cases)} batches, {ncmp} lines compared, {ndis} disagree")
    rep.extra["exhaustive"] = True
    rep.extra["exhaustive_space"] = exhaustive

    # ---- duality laws on dyadic intervals and weights
    nd = size(tier, 200, 5000)
    dcases = []
    grid = [Fr(k, 8) for k in range(9)]
    for k in range(nd):
        r2 = random.Random(sub_seed(seed, "c04dual", k))
        iv = lambda: tuple(sorted((r2.choice(grid), r2.choice(grid)))) if r2.random() < 0.85 else (Fr(0), Fr(1))
        dcases.append({"kind": r2.choice(["or", "implies"]), "w": [r2.choice([Fr(1, 2), Fr(1), Fr(2), Fr(1, 4), Fr(0)]) for _ in range(2)],
                       "b": r2.choice([Fr(1), Fr(1, 2), Fr(3, 2), Fr(3, 4)]), "act": r2.choice(["luk", "lukt"]),
                       "A": iv(), "B": iv(), "op": iv()})
    drecs = engine.run_cases("misc", "run_c04_duals", dcases)
    engine.model_outputs([r for r in drecs if "lines" in r])
    ndis2 = 0
    for c, r in zip(dcases, drecs):
        if "crash" in r:
            rep.bump("harness_crashes")
            rep.extra.setdefault("first_crash", r["crash"] + r.get("trace", "")[-300:])
            continue
        dis, safe, nc = engine.compare_record(r, FACETS)
        ndis2 += bool(dis)
        first = first or (dis if dis else None)
        res = r["meta"]["res"]
        nonclassical = any(x not in (0, 1) for key in ("A", "B", "op") for x in c[key])
        rep.count_case("dual" + str(c), nonclassical)
        for direction in ("up", "down"):
            if res[f"direct:{direction}"] != res[f"dual:{direction}"]:
                rep.violation("duality", {"kind": c["kind"], "direction": direction, "direct": res[f"direct:{direction}"],
                                          "dual": res[f"dual:{direction}"]}, {"case": streams.ser(c)})
    rep.obligation("correspondence:dual-pairs", ndis2 == 0, f"{len(dcases)} dual pairs, {ndis2} disagree")
    rep.cov["rule"] = ("(a) formulae over And/Or/Implies/Not/Iff/XOr enumerated up to depth 2 on all three-valued inputs, every sub-formula's "
                       "state() compared with the strong Kleene table and with the Lean model; (b) random dual pairs Or vs not-And-of-nots and "
                       "Implies vs Or-with-negated-antecedent with dyadic intervals, weights, biases, both variants, both directions; "
                       "non-trivial = formula depth >= 2, or a dual pair with non-classical intervals")
    rep.sample({"tree": "('iff', ('xor', A, B), ('not', A))", "inputs": "UT"})
    if first and not rep.violations:
        rep.extra["first_disagreement"] = first[:3]


def tuple_tree(t):
    return tuple(tuple_tree(x) if isinstance(x, (list, tuple)) else x for x in t)


def max_atom(t):
    return t[1] if t[0] == "atom" else max(max_atom(x) for x in t[1:])


def replay(obj):
    r = obj["replay"]
    if "tree" in r:
        tree = tuple_tree(r["tree"])
        case = {"atoms": max_atom(tree) + 1, "trees": [tree]}
        rec = engine.run_cases("misc", "run_c04_trees", [case], jobs=1)[0]
        import misc
        desc, sub = misc.tree_to_desc(tree, case["atoms"])
        bad = None
        for res in rec["meta"]["results"]:
            for nid, st in sub:
                got = res["states"].get(nid, res["states"].get(str(nid)))
                if got != KN[kleene(st, res["val"])]:
                    bad = {"formula": str(st), "inputs": res["val"], "got": got}
    else:
        case = streams.deser(r["case"])
        for k in ("A", "B", "op"):
            case[k] = tuple(case[k])
        rec = engine.run_cases("misc", "run_c04_duals", [case], jobs=1)[0]
        res = rec["meta"]["res"]
        bad = next(({"direction": d} for d in ("up", "down") if res[f"direct:{d}"] != res[f"dual:{d}"]), None)
    print("REPRODUCED" if bad else "not reproduced", bad)
    return 1 if bad else 0
