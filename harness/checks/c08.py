"""C08 — every sub-formula object is a full member of the model."""
import random

import engine
import prop
import streams
from common import sub_seed, size

THEOREMS = ["LNN.C08_every_object_numbered",
            "LNN.C08_numbers_injective",
            "LNN.C08_registered_once",
            "LNN.C08_nodes_own_number",
            "LNN.C08_nodes_functional",
            "LNN.C08_nodes_lookup",
            "LNN.C08_nodes_exactly_reachable",
            "LNN.C08_graph_exactly_reachable",
            "LNN.C08_graph_nodup",
            "LNN.C08_values_exactly_reachable",
            "LNN.C08_values_nodup",
            "LNN.C08_readd_keeps_number",
            "LNN.C08_readd_root",
            "LNN.C08_calls",
            "LNN.C08_inv"]
MODULES = ["LnnVerif.Props.C08"]
FACETS = {"bounds", "reported"}


def run(rep, tier, seed):
    n = size(tier, 200, 4000)
    cases = [prop.gen_c08_case(random.Random(sub_seed(seed, "c08", k))) for k in range(n)]
    recs = engine.run_cases("prop", "run_c08", cases, chunksize=2)
    for r, c in zip(recs, cases):
        r["prog"] = c
    engine.model_outputs([r for r in recs if "lines" in r])
    ndis = ncmp = 0
    first = None
    for r in recs:
        if "crash" in r:
            rep.bump("harness_crashes")
            rep.extra.setdefault("first_crash", r["crash"] + r.get("trace", "")[-500:])
            continue
        dis, safe, nc = engine.compare_record(r, FACETS)
        ncmp += nc
        if dis:
            ndis += 1
            first = first or (r, dis)
        rep.count_case(streams.canon(r["prog"]), r["prog"]["dup_pairs"] >= 1)
        if r["meta"]["problems"]:
            bad = r["meta"]["problems"][0]
            rep.violation("registry", bad, {"case": streams.ser(r["prog"]), "failure": r["meta"]["problems"][:5]})
        rep.sample({"kb": streams.ser(r["prog"]["kb"]), "root_groups": r["prog"]["root_groups"]}, limit=2)
    rep.obligation("correspondence:registry", ndis == 0, f"{len(recs)} KBs, {ncmp} lines compared, {ndis} disagree")
    # ---- training reaches the parameters every registered object owns NOW (twins with trainable bounds, two train() calls with
    # data in between; implementation only)
    from fractions import Fraction as Fr
    tcases = [{"first": (Fr(1, 4), Fr(3, 4)), "again": (Fr(3, 8), Fr(5, 8)), "which": k % 2, "lr": Fr(1, 8) if k < 2 else Fr(1, 16)}
              for k in range(4)]
    for c, r in zip(tcases, engine.run_cases("prop", "run_c08_train", tcases, chunksize=1)):
        if "crash" in r or r["meta"]["errors"]:
            rep.bump("train_twice_errors")
            rep.extra.setdefault("first_train_twice_error", r.get("crash") or r["meta"]["errors"][0])
            continue
        rep.bump("train_twice_runs")
        if not r["meta"]["registered_once"]:
            rep.violation("registry", {"problem": "an object is registered twice"}, {"case": streams.ser(c)})
        if r["meta"]["bad"]:
            rep.violation("train-reaches-objects", r["meta"]["bad"], {"case": streams.ser(c), "failure": r["meta"]["bad"]})
    rep.cov["rule"] = ("propositional KBs that deliberately contain 1-4 pairs of structurally equal DISTINCT objects (a copy used by another parent, "
                       "Or(f, Not(copy of f)), a copy as its own root, a user-written implication equal to the one an Iff generates), roots added "
                       "in one or several add_knowledge calls and sometimes twice, data attached to any subset of the objects before or after "
                       "they are added; per object: own number in Model.nodes, unique, in the graph, parameters collected, called by "
                       "upward()/downward(), reached by flush(); upward/downward/infer/reset_bounds/flush bounds of every object compared with "
                       "the identity-based Lean model; non-trivial = >= 1 pair of structurally equal distinct objects")
    if first and not rep.violations:
        rep.extra["first_disagreement"] = {"case": streams.ser(first[0]["prog"]), "at": first[1][:3]}


def replay(obj):
    case = streams.fix_prog(obj["replay"]["case"])
    for k in ("before", "after"):
        case[k] = [tuple(x) for x in case[k]]
    rec = engine.run_cases("prop", "run_c08", [case], jobs=1)[0]
    bad = rec.get("meta", {}).get("problems")
    print("REPRODUCED" if bad else "not reproduced", bad)
    return 1 if bad else 0
