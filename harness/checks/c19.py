"""C19 — clamping is value-exact and gradient-transparent."""
import random
from fractions import Fraction as Fr

import engine
import streams
from common import parse_q, sub_seed, size

THEOREMS = ["LNN.C19_valClamp", "LNN.C19_value_exact", "LNN.C19_gradient_transparent", "LNN.C19_and", "LNN.C19_or",
            "LNN.C19_implies", "LNN.C19_and_gradient"]
MODULES = ["LnnVerif.Props.C19"]
ONE, ZERO = Fr(1), Fr(0)


def dy(rng, lo=-8, hi=8, den=8):
    return Fr(rng.randint(lo * den, hi * den), den)


def expected(nrn):
    """value and gradient of the UNCLAMPED linear form (the oracle, independent of the model)"""
    b, w, x = nrn["b"], nrn["w"], nrn["x"]
    if nrn["kind"] == "and":
        pre = b - sum(wi * (1 - xi) for wi, xi in zip(w, x))
        return pre, ONE, [-(1 - xi) for xi in x], list(w)
    if nrn["kind"] == "or":
        pre = 1 - b + sum(wi * xi for wi, xi in zip(w, x))
        return pre, -ONE, list(x), list(w)
    pre = 1 - b + w[0] * (1 - x[0]) + w[1] * x[1]
    return pre, -ONE, [1 - x[0], x[1]], [-w[0], w[1]]


def run(rep, tier, seed):
    nb = size(tier, 20, 300)
    cases = []
    for k in range(nb):
        rng = random.Random(sub_seed(seed, "c19", k))
        clamp = [dy(rng) for _ in range(40)] + [ZERO, ONE, Fr(-8), Fr(8), Fr(1, 2)]
        neurons = []
        for _ in range(25):
            kind = rng.choice(["and", "or", "implies"])
            n = 2 if kind == "implies" else rng.randint(2, 5)
            neurons.append({"kind": kind, "act": rng.choice(["lukt", "lukt", "luk"]),
                            "b": dy(rng, -4, 4, 4), "w": [dy(rng, 0, 4, 4) + Fr(1, 4) for _ in range(n)],
                            "x": [dy(rng, 0, 1, 8) for _ in range(n)]})
        cases.append({"clamp": clamp, "neurons": neurons})
    # just outside and just inside the clamp edges, at every binary scale float32 can represent there (each point is exact in
    # float32, so the clamp must be exact too); the model comparison stops at the first value finer than the float-safe
    # grid, the oracle below judges every point
    edge = [ONE + Fr(1, 2 ** k) for k in range(1, 24)] + [-Fr(1, 2 ** k) for k in range(1, 31)]
    edge += [ONE - Fr(1, 2 ** k) for k in range(1, 25)] + [Fr(1, 2 ** k) for k in range(1, 31)]
    eneurons = []
    for k in range(10, 24):
        for kind in ("or", "implies"):
            eneurons.append({"kind": kind, "act": "lukt", "b": ONE, "w": [ONE, Fr(1, 2 ** k)], "x": [ZERO if kind == "implies" else ONE, ONE]})
        eneurons.append({"kind": "and", "act": "lukt", "b": ONE + Fr(1, 2 ** k), "w": [ONE, ONE], "x": [ONE, ONE]})
    for k in range(10, 25):
        eneurons.append({"kind": "and", "act": "lukt", "b": ZERO, "w": [Fr(1, 8), ONE], "x": [ONE - Fr(1, 2 ** k), ONE]})
    cases.append({"clamp": edge, "neurons": eneurons})
    # the instance neurons of quantifiers, saturated at either end and unsaturated
    qrng = random.Random(sub_seed(seed, "c19q"))
    qn = []
    for _ in range(size(tier, 60, 600)):
        k = qrng.randint(2, 5)
        qn.append({"kind": qrng.choice(["forall", "exists"]), "x": [dy(qrng, 0, 1, 8) for _ in range(k)]})
    cases.append({"clamp": [], "neurons": [], "qneurons": qn})
    recs = engine.run_cases("misc", "run_c19_batch", cases, chunksize=1)
    engine.model_outputs([r for r in recs if "lines" in r])
    ndis = ncmp = 0
    first = None
    sat_lo = sat_hi = unsat = 0
    for case, r in zip(cases, recs):
        if "crash" in r:
            rep.bump("harness_crashes")
            rep.extra.setdefault("first_crash", r["crash"] + r.get("trace", "")[-500:])
            continue
        dis, safe, nc = engine.compare_record(r, None)
        ncmp += nc
        if dis:
            ndis += 1
            first = first or dis
        k = 1
        for x in case["clamp"]:
            io = r["impl"][k].split()
            k += 1
            val, g = parse_q(io[1]), parse_q(io[2])
            rep.count_case(f"clamp{x}", x < 0 or x > 1)
            if val != min(ONE, max(ZERO, x)) or g != 1:
                rep.violation("val_clamp", {"x": str(x), "value": str(val), "gradient": str(g),
                                            "expected_value": str(min(ONE, max(ZERO, x))), "expected_gradient": "1"},
                              {"x": str(x)})
        for qd, got in zip(case.get("qneurons", []), r["meta"].get("qneurons", [])):
            xs = qd["x"]
            pre = (1 - sum(1 - x for x in xs)) if qd["kind"] == "forall" else sum(xs)
            rep.count_case("q%s%s" % (qd["kind"], xs), pre < 0 or pre > 1)
            if parse_q(got["value"]) != min(ONE, max(ZERO, pre)) or any(parse_q(g) != 1 for g in got["dx"]):
                rep.violation("quantifier-neuron", {"quantifier": qd["kind"], "instances": list(map(str, xs)), "value": got["value"],
                                                   "expected_value": str(min(ONE, max(ZERO, pre))), "d_value_d_instances": got["dx"],
                                                   "expected_gradient": "1 for every instance (also when saturated)"},
                              {"qneuron": streams.ser(qd)})
        for j, nrn in enumerate(case["neurons"]):
            io = r["meta"]["neuron_lines"][j].split()
            k += 1
            pre, db, dw, dx = expected(nrn)
            if nrn["act"] == "luk":
                # the plain variant uses torch.clamp: gradients vanish when saturated (by design); value judged only
                if parse_q(io[1]) != min(ONE, max(ZERO, pre)):
                    rep.violation("activation-value", {"neuron": streams.ser(nrn), "got": io[1]}, {"neuron": streams.ser(nrn)})
                continue
            val, gdb = parse_q(io[1]), parse_q(io[2])
            gdw = [parse_q(t) for t in io[3].split(",")]
            gdx = [parse_q(t) for t in io[4].split(",")]
            strict = pre < 0 or pre > 1
            sat_lo += pre < 0
            sat_hi += pre > 1
            unsat += 0 <= pre <= 1
            rep.count_case(str(streams.ser(nrn)), strict)
            if val != min(ONE, max(ZERO, pre)) or gdb != db or gdw != dw or gdx != dx:
                rep.violation("activation-gradient", {"neuron": streams.ser(nrn), "pre_activation": str(pre),
                                                      "got": " ".join(io),
                                                      "expected_gradients": [str(db), list(map(str, dw)), list(map(str, dx))]},
                              {"neuron": streams.ser(nrn)})
    rep.extra.update({"saturated_below": sat_lo, "saturated_above": sat_hi, "unsaturated": unsat})
    rep.obligation("correspondence:grad", ndis == 0, f"{len(cases)} batches, {ncmp} lines compared, {ndis} disagree")
    rep.cov["rule"] = ("(a) _utils.val_clamp on dyadic tensors in [-8,8]: value = min(1,max(0,x)) and d/dx = 1 by torch.autograd; (b) the upward "
                       "activation of real And/Or/Implies neuron objects (arity 2-5, dyadic positive weights, biases in [-4,4], point inputs): "
                       "torch.autograd gradients w.r.t. bias, every weight and every input must equal those of the unclamped linear form, "
                       "saturated or not, and the model's dual-number tangents; the plain Lukasiewicz variant (torch.clamp) is compared on values "
                       "only; non-trivial = strictly saturated at either end")
    rep.sample({"kind": "and", "b": "-3", "w": ["1", "2"], "x": ["1/2", "1/4"]})
    if first and not rep.violations:
        rep.extra["first_disagreement"] = first[:3]


def replay(obj):
    r = obj["replay"]
    if "neuron" in r:
        nrn = streams.deser(r["neuron"])
        rec = engine.run_cases("misc", "run_c19_batch", [{"clamp": [], "neurons": [nrn]}], jobs=1)[0]
        io = rec["meta"]["neuron_lines"][0].split()
        pre, db, dw, dx = expected(nrn)
        bad = parse_q(io[1]) != min(ONE, max(ZERO, pre)) or (nrn["act"] == "lukt" and (
            parse_q(io[2]) != db or [parse_q(t) for t in io[3].split(",")] != dw or [parse_q(t) for t in io[4].split(",")] != dx))
    else:
        x = parse_q(r["x"])
        rec = engine.run_cases("misc", "run_c19_batch", [{"clamp": [x], "neurons": []}], jobs=1)[0]
        io = rec["impl"][1].split()
        bad = parse_q(io[1]) != min(ONE, max(ZERO, x)) or parse_q(io[2]) != 1
    print("REPRODUCED" if bad else "not reproduced", io)
    return 1 if bad else 0
