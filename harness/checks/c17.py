"""C17 — bounds stay in [0,1]; contradiction means crossed bounds; state() is total."""
from fractions import Fraction as Fr

import engine
import streams
from checks._propcommon import dumps_of, standard_programs
from common import parse_q, size

THEOREMS = ["LNN.C17_range",
            "LNN.C17_aggregate_range",
            "LNN.C17_contradiction_iff",
            "LNN.C17_contradiction_alpha_one",
            "LNN.C17_hasContra_iff",
            "LNN.C17_state_total",
            "LNN.C17_region_pos",
            "LNN.C17_state_C",
            "LNN.C17_state_cases",
            "LNN.C17_fol_range",
            "LNN.C17_fol_range_infer"]
MODULES = ["LnnVerif.Props.C17"]
FACETS = {"bounds", "contra", "state"}
DOCUMENTED = {"UNKNOWN", "TRUE", "FALSE", "CONTRADICTION", "APPROX_FALSE", "APPROX_UNKNOWN", "EXACT_UNKNOWN", "APPROX_TRUE"}


def grid(alpha, fine):
    pts = {Fr(0), Fr(1), Fr(1, 2), alpha, 1 - alpha}
    eps = Fr(1, 64)
    for p in list(pts):
        for d in (-eps, eps):
            if 0 <= p + d <= 1:
                pts.add(p + d)
    step = 16 if fine else 8
    pts |= {Fr(k, step) for k in range(step + 1)}
    return sorted(pts)


def is_contra(a, lo, hi):
    return lo > hi and not (lo <= 1 - a and hi <= 1 - a) and not (lo >= a and hi >= a)


def run(rep, tier, seed):
    # ---- exhaustive state grid
    alphas = [Fr(1), Fr(15, 16), Fr(3, 4), Fr(9, 16)]
    cases = []
    for a in alphas:
        g = grid(a, tier == "thorough")
        pts = [(lo, hi) for lo in g for hi in g]
        for k in range(0, len(pts), 200):
            cases.append({"alpha": a, "points": pts[k:k + 200]})
    recs = engine.run_cases("misc", "run_state_grid", cases)
    engine.model_outputs([r for r in recs if "lines" in r])
    n_pts = n_dis = 0
    for r in recs:
        if "crash" in r:
            rep.bump("harness_crashes")
            continue
        a = parse_q(r["meta"]["alpha"])
        for line, io, mo in zip(r["lines"][1:], r["impl"][1:], r["model"][1:]):
            n_pts += 1
            _, _, lo, hi = line.split()
            lo, hi = parse_q(lo), parse_q(hi)
            st, c = io.split()[1], io.split()[2]
            near = lo > hi or any(abs(x - b) <= Fr(1, 64) for x in (lo, hi) for b in (a, 1 - a, Fr(1, 2), Fr(0), Fr(1)))
            rep.count_case(line, near)
            bad = None
            if "MISMATCH" in io:
                bad = "has_contradiction / stored bounds disagree with is_contradiction / the data: " + io
            elif st not in DOCUMENTED:
                bad = f"state() is not total: {io}"
            elif (c == "1") != is_contra(a, lo, hi):
                bad = f"is_contradiction={c} but crossed-outside-same-region={is_contra(a, lo, hi)}"
            elif (st == "CONTRADICTION") != (c == "1"):
                bad = f"state {st} vs is_contradiction {c}"
            if bad:
                rep.violation("state-grid", bad, {"alpha": str(a), "bounds": [str(lo), str(hi)], "impl": io, "model": mo})
            if io != mo:
                n_dis += 1
                rep.extra.setdefault("state_grid_first_disagreement", {"line": line, "impl": io, "model": mo})
    rep.obligation("correspondence:state-grid", n_dis == 0, f"{n_pts} grid points, {n_dis} disagree")
    rep.extra["state_grid_points"] = n_pts
    rep.extra["exhaustive"] = True
    rep.extra["exhaustive_space"] = "all (L,U) pairs on a grid containing 0, 1-alpha, 1/2, alpha, 1 and their 1/64-neighbours, alpha in {1,15/16,3/4,9/16}"

    # ---- range + contradiction on reachable states
    n = size(tier, 200, 4000)
    progs = standard_programs(seed, n // 2, "interp") + standard_programs(seed + 31337, n - n // 2, "given", crossed_p=0.2)
    precs, first_dis = streams.run_prop_stream(rep, "prop-mixed", progs, FACETS)
    for r in precs:
        if "crash" in r:
            continue
        rep.cov["evaluations"] += 1
        for k, op, d in dumps_of(r):
            for i, (lo, hi) in zip(r["meta"]["ids"], d):
                if not (0 <= lo <= 1 and 0 <= hi <= 1):
                    rep.violation("out-of-range", {"node": i, "bounds": [str(lo), str(hi)], "after": op},
                                  {"program": streams.ser(r["prog"]), "protocol": r["lines"], "impl": r["impl"]})
                    break
    # ---- first-order tables (written in place: rows are overwritten by facts arriving between calls, by inference and by
    # flush()): after EVERY call has_contradiction() must say exactly whether some row of some formula is crossed outside the
    # same-region tolerance of its formula's alpha
    import fol
    nf = size(tier, 60, 1200)
    fprogs = [streams.gen_fol_program(seed + 977, k, quant=(k % 3 == 2), crossed_p=0.25, mid_facts=0.7) for k in range(nf)]
    for k, p in enumerate(fprogs):
        if k % 4 == 1:
            # contradiction, then flush(): nothing is crossed any more
            p["ops"] = list(p["ops"]) + [("infer", 5), ("flush",), ("infer", 5)]
    frecs, ffirst = streams.run_fol_stream(rep, "fol-contra", fprogs, {"contra"})
    seen_contra = 0
    for r in frecs:
        if "crash" in r:
            continue
        alpha = {}
        for line in r["lines"]:
            if line.startswith("fnode "):
                t = line.split()
                alpha[int(t[1])] = parse_q([x for x in t if x.startswith("a=")][0][2:])
        tab = None
        for line, o in zip(r["lines"], r["impl"]):
            if line.startswith("ftab "):
                tab = fol.parse_tab(o)
            elif line.startswith("fcontra") and tab is not None and o in ("c 0", "c 1"):
                crossed = [(i, g, b) for i, rows in tab.items() for g, b in rows.items() if is_contra(alpha.get(i, Fr(1)), b[0], b[1])]
                seen_contra += bool(crossed)
                if (o == "c 1") != bool(crossed):
                    rep.violation("fol-contradiction-flag",
                                  {"problem": "has_contradiction() disagrees with the bounds the tables hold",
                                   "has_contradiction": o, "crossed_rows": [(i, g, [str(b[0]), str(b[1])]) for i, g, b in crossed[:3]]},
                                  {"program": streams.ser(r["prog"]), "protocol": r["lines"], "impl": r["impl"]})
                    break
    rep.extra["fol_snapshots_with_a_crossed_row"] = seen_contra
    rep.cov["rule"] = ("(a) exhaustive grid of (alpha, L, U) through Proposition.add_data/state/is_contradiction/has_contradiction; "
                       "non-trivial = on or next to a region boundary, or L > U; (b) every bound dumped after every call of random "
                       "propositional programs (incl. contradictory data) checked for [0,1], has_contradiction compared with model; (c) first-order programs with crossed facts, facts arriving between calls and "
                       "flush(): after every call has_contradiction() vs the rows of all tables, and vs the model")
    rep.sample({"alpha": "3/4", "bounds": ["49/64", "3/4"]})
    if first_dis is not None and not rep.violations:
        rep.extra["first_disagreement"] = {"program": streams.ser(first_dis["prog"]), "at": first_dis["disagreements"][:3]}


def replay(obj):
    """re-run one grid point on the implementation"""
    r = obj["replay"]
    if "alpha" not in r:
        print(obj["detail"])
        return 0
    a, (lo, hi) = parse_q(r["alpha"]), [parse_q(x) for x in r["bounds"]]
    rec = engine.run_cases("misc", "run_state_grid", [{"alpha": a, "points": [(lo, hi)]}], jobs=1)[0]
    io = rec["impl"][1]
    st, c = io.split()[1], io.split()[2]
    bad = "MISMATCH" in io or st not in DOCUMENTED or (c == "1") != is_contra(a, lo, hi) or (st == "CONTRADICTION") != (c == "1")
    print("REPRODUCED" if bad else "not reproduced", io)
    return 1 if bad else 0
