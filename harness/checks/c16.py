"""C16 — inference is a function of knowledge, data and parameters, not of history (propositional part;
first-order part in c16_fol)."""
import random

import streams
from checks._propcommon import dumps_of, standard_programs
from common import sub_seed, size

THEOREMS = ["LNN.C16_leaves_invariant",
            "LNN.C16_reset_restores",
            "LNN.C16_rerun_equal",
            "LNN.C16_second_run",
            "LNN.C16_fol_data_untouched",
            "LNN.C16_fol_reset_after_inference",
            "LNN.C16_fol_reset_reads_data",
            "LNN.C16_fol_reset_is_fresh_plus_rows",
            "LNN.C16_fol_reset_exact_of_no_growth",
            "LNN.C16_fol_rerun_equal_of_no_growth",
            "LNN.C16_layer_reset_is_fresh_plus_rows"]
MODULES = ["LnnVerif.Props.C16"]
FACETS = {"bounds", "reported"}


def oracle(rec):
    """the dump right after the first infer (fresh model) must equal the dump after the final
    reset_bounds + infer, whatever happened in between"""
    if rec.get("safe_upto", len(rec["lines"])) < len(rec["lines"]):
        return None
    first = last = None
    for k, line in enumerate(rec["lines"]):
        if line.startswith("infer "):
            # the dump following this infer
            for j in range(k + 1, len(rec["lines"])):
                if rec["lines"][j].startswith("dump "):
                    if first is None:
                        first = (k, rec["impl"][j], rec["impl"][k])
                    last = (k, rec["impl"][j], rec["impl"][k])
                    break
    if first is None or first[0] == last[0]:
        return None
    if first[1] != last[1]:
        return {"problem": "bounds after reset_bounds()+infer() differ from the first run", "first": first[1], "again": last[1]}
    if rec["meta"]["errors"]:
        return {"exception": rec["meta"]["errors"]}
    return None


def run(rep, tier, seed):
    n = size(tier, 200, 4000)
    progs = standard_programs(seed, n // 2, "interp", n_ops=(0, 10)) + standard_programs(seed + 982451653, n - n // 2, "given", crossed_p=0.05, n_ops=(0, 10))
    for k, p in enumerate(progs):
        rng = random.Random(sub_seed(seed, "c16", k))
        mid = list(p["ops"])
        for _ in range(rng.randint(0, 2)):
            mid.insert(rng.randint(0, len(mid)), ("print",))
        if rng.random() < 0.4:
            mid.insert(rng.randint(0, len(mid)), ("resetb",))
        p["ops"] = [("infer", 200)] + mid + [("resetb",), ("infer", 200)]
    recs, first_dis = streams.run_prop_stream(rep, "prop-history", progs, FACETS)
    rep.cov["rule"] = ("random weighted propositional programs: infer() on the fresh model, then arbitrary node-/model-level inference, "
                       "printing, state queries and reset_bounds(), finally reset_bounds()+infer(); both converged dumps must be identical "
                       "and equal the history-free Lean model; non-trivial = first run needed >= 2 sweeps and something happened in between")
    for r in recs:
        if "crash" in r:
            rep.bump("harness_crashes")
            continue
        first_inf = next((o for l, o in zip(r["lines"], r["impl"]) if l.startswith("infer ")), "n 0 0")
        rep.count_case(streams.canon(r["prog"]), int(first_inf.split()[1]) >= 2 and len(r["prog"]["ops"]) > 3)
        bad = oracle(r)
        if bad:
            rep.violation("history-dependence", bad, {"program": streams.ser(r["prog"]), "failure": bad,
                                                      "protocol": r["lines"], "impl": r["impl"]})
        rep.sample({"kb": streams.ser(r["prog"]["kb"]), "ops": r["prog"]["ops"][:8]}, limit=2)
    import checks.c16_fol as f
    f.run(rep, tier, seed)
    if first_dis is not None and not rep.violations:
        rep.extra["first_disagreement"] = {"program": streams.ser(first_dis["prog"]), "at": first_dis["disagreements"][:3]}


def replay(obj):
    import engine
    prog = streams.fix_prog(obj["replay"]["program"])
    rec = engine.run_cases("prop", "run_prop_program", [prog], jobs=1)[0]
    bad = oracle(rec)
    print("REPRODUCED" if bad else "not reproduced", bad)
    return 1 if bad else 0
