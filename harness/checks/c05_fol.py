"""first-order part of C05: bounds move monotonically inwards, groundings never disappear"""
from common import size
import streams
from checks._folcommon import tabs_of, is_inference, monotone


def oracle(rec):
    prev = None
    for k, op, out, tabs in tabs_of(rec):
        if prev is not None and is_inference(op):
            bad = monotone(prev, tabs)
            if bad:
                bad["after_op"] = op
                return bad
        prev = tabs
    if rec["meta"]["errors"]:
        return {"exception": rec["meta"]["errors"]}
    return None


def run(rep, tier, seed):
    n = size(tier, 100, 2000)
    for name, quant, par in (("fol-qf", False, True), ("quant", True, True), ("qparent", True, 1.0)):
        # qparent: partially quantified formulae used as sub-formulae (S(x) -> Forall(y, ..), Not(Exists(y, ..)), ...)
        progs = [streams.gen_fol_program(seed + 5, k, quant=quant, crossed_p=0.1, mid_facts=0.15, parents=par, restrict_p=0.25)
                 for k in range(n if par is True else n // 2)]
        if name == "qparent":
            progs = streams.corpus_fol("C05") + progs          # minimised past failures run first
        recs, first = streams.run_fol_stream(rep, name, progs, {"tables", "reported", "contra"})
        for r in recs:
            if "crash" in r:
                continue
            outs = [o for l, o in zip(r["lines"], r["impl"]) if l.startswith(("fup", "fdown", "fpass", "finfer"))]
            nz = sum(1 for o in outs if o.split()[-1] != "0")
            rep.count_case(streams.canon(r["prog"]), len(outs) >= 2 and 0 < nz < len(outs))
            bad = oracle(r)
            if bad:
                rep.violation("fol-bound-loosened", bad, {"program": streams.ser(r["prog"]), "failure": bad,
                                                          "protocol": r["lines"], "impl": r["impl"]})
        if first is not None and not rep.violations:
            rep.extra.setdefault("first_disagreement_" + name, {"program": streams.ser(first["prog"]), "at": first["disagreements"][:3]})
