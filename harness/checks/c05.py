"""C05 — inference only ever tightens bounds (propositional part; first-order part in fol stream)."""
from common import size
import streams
from checks._propcommon import dumps_of, standard_programs

THEOREMS = ["LNN.C05_monotone",
            "LNN.C05_aggregate_tightens",
            "LNN.C05_steps",
            "LNN.C05_infer",
            "LNN.C05_call",
            "LNN.C05_pass",
            "LNN.C05_propagate_keeps",
            "LNN.C05_layer_calls",
            "LNN.C05_layer_is_plain",
            "LNN.C05_fol_call",
            "LNN.C05_fol_calls",
            "LNN.C05_fol_infer",
            "LNN.C05_fol_plain",
            "LNN.C05_fol_restricted"]
MODULES = ["LnnVerif.Props.C05"]
FACETS = {"bounds"}


def oracle(rec):
    prev = None
    for k, op, d in dumps_of(rec):
        if op.startswith("set ") or prev is None:
            prev = d
            continue
        for i, ((lo0, hi0), (lo1, hi1)) in zip(rec["meta"]["ids"], zip(prev, d)):
            if lo1 < lo0 or hi1 > hi0:
                return {"line": k, "after": op, "node": i, "before": [str(lo0), str(hi0)], "after_bounds": [str(lo1), str(hi1)]}
        prev = d
    return None


def run(rep, tier, seed):
    n = size(tier, 300, 6000)
    progs = standard_programs(seed, n // 2, "interp") + standard_programs(seed + 7919, n - n // 2, "given", crossed_p=0.15)
    recs, first_dis = streams.run_prop_stream(rep, "prop-mixed", progs, FACETS)
    rep.cov["rule"] = ("random weighted propositional programs (consistent and contradictory data), snapshot after every public "
                       "call incl. downward(index=); non-trivial = >= 2 calls of which one reports > 0 and one reports 0")
    for r in recs:
        if "crash" in r:
            continue
        outs = [o for l, o in zip(r["lines"], r["impl"]) if l.startswith(("up ", "down ", "pass ", "infer "))]
        nz = sum(1 for o in outs if o.split()[-1] != "0")
        rep.count_case(streams.canon(r["prog"]), len(outs) >= 2 and 0 < nz < len(outs))
        bad = oracle(r)
        if bad:
            rep.violation("bound-loosened", bad, {"program": streams.ser(r["prog"]), "failure": bad,
                                                  "protocol": r["lines"], "impl": r["impl"]})
        rep.sample({"kb": streams.ser(r["prog"]["kb"]), "ops": r["prog"]["ops"][:6]}, limit=2)
    import checks.c05_fol as f
    f.run(rep, tier, seed)
    if first_dis is not None and not rep.violations:
        rep.extra["first_disagreement"] = {"program": streams.ser(first_dis["prog"]), "at": first_dis["disagreements"][:3]}


def replay(obj):
    import engine
    prog = streams.fix_prog(obj["replay"]["program"])
    rec = engine.run_cases("prop", "run_prop_program", [prog], jobs=1)[0]
    bad = oracle(rec)
    print("REPRODUCED" if bad else "not reproduced", bad)
    return 1 if bad else 0
