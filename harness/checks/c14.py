"""C14 — world assumptions define the default of everything not asserted."""
import random
from fractions import Fraction as Fr

import fol
import streams
from common import sub_seed, size

THEOREMS = ["LNN.C14_get_missing",
            "LNN.C14_query_pure",
            "LNN.C14_addg_new_row",
            "LNN.C14_addg_keeps",
            "LNN.C14_groundings_only_world",
            "LNN.C14_axiom_stays",
            "LNN.C14_get_present",
            "LNN.C14_addg_keys",
            "LNN.C14_addg_only_world",
            "LNN.C14_addg_read_unchanged",
            "LNN.C14_groundings_read_unchanged",
            "LNN.C14_axiom_start",
            "LNN.C14_closed_stays",
            "LNN.C14_axiom_invariant",
            "LNN.C14_query_unknown",
            "LNN.C15_resetWorld_reads_world",      # reset_world: stated next to the reset_bounds theorems they build on
            "LNN.C15_resetWorld_then_reset",
            "LNN.C14_propagate_only_world",
            "LNN.C14_propagate_read_unchanged"]
MODULES = ["LnnVerif.Props.C14", "LnnVerif.Props.C15"]


def judge_store(j):
    if j["kind"] == "get":
        if j["created"]:
            return {"problem": "querying a grounding created a row", "formula": j["target"], "grounding": j["g"]}
        if not j["known"] and j["got"] != j["world"]:
            return {"problem": "an unasserted grounding does not read as the world default", "formula": j["target"],
                    "grounding": j["g"], "got": j["got"], "world": j["world"]}
    elif j["kind"] == "reset":
        # after reset_bounds every row that was never asserted reads exactly the world default
        for g, b in j["table"].items():
            if g not in j["asserted"] and g not in j.get("exempt", ()) and b != j["world"]:
                return {"problem": "a row introduced by inference does not carry the world default as its data", "formula": j["target"],
                        "grounding": g, "got": b, "world": j["world"]}
    return None


def judge_fol(rec):
    """rows that were never asserted must lie inside their formula's world default after every call
    (they start at the default and inference only tightens); axiom formulae keep lower bound 1"""
    prog = rec["prog"]
    worlds = {p["id"]: fol.WORLDS[p.get("world", "open")] for p in prog["kb"]["preds"]}
    for n in prog["kb"]["nodes"]:
        worlds[n["id"]] = fol.WORLDS[n.get("world", "open")]
    asserted = {(f[0], fol.gtxt(tuple(f[1]))) for f in prog["facts"]}
    for k in range(min(rec["safe_upto"], len(rec["lines"]))):
        if not rec["lines"][k].startswith("ftab "):
            continue
        tabs = fol.parse_tab(rec["impl"][k])
        for i, rows in tabs.items():
            if i not in worlds:
                continue           # generated inner quantifier
            wl, wu = worlds[i]
            for g, (lo, hi) in rows.items():
                if (i, g) in asserted:
                    continue
                if lo < wl or hi > wu:
                    return {"problem": "an unasserted row is looser than the world default", "formula": i, "grounding": g,
                            "bounds": [str(lo), str(hi)], "world": [str(wl), str(wu)], "line": k}
    return None


def run(rep, tier, seed):
    n = size(tier, 120, 2500)
    progs = [fol.gen_store_program(random.Random(sub_seed(seed, "store14", k)), malformed_p=0.1) for k in range(n)]
    progs = streams.corpus_programs("C14") + progs          # minimised past failures run first
    recs, first_dis = streams.run_fol_stream(rep, "store", progs, None, fn="run_store_program")
    for r in recs:
        if "crash" in r:
            continue
        js = r["meta"]["judgements"]
        nontriv = any(j["kind"] == "get" and not j["known"] for j in js) or any(j["kind"] == "reset" for j in js)
        rep.count_case(streams.canon(r["prog"]), nontriv)
        for j in js:
            bad = judge_store(j)
            if bad:
                rep.violation("world-default", bad, {"program": streams.ser(r["prog"]), "failure": bad, "protocol": r["lines"], "impl": r["impl"]})
                break
    # rows created by joins / propagation / downward steps
    m = size(tier, 120, 2500)
    fprogs = [streams.gen_fol_program(seed + 17, k, quant=False) for k in range(m)]
    for p in fprogs:          # queries of absent groundings interleaved with inference
        rng = random.Random(sub_seed(seed, "c14q", len(p["ops"]), len(p["facts"])))
        for _ in range(2):
            pid = rng.choice(p["kb"]["preds"])
            p["ops"].insert(rng.randint(0, len(p["ops"])), ("get", pid["id"], [rng.randrange(5) for _ in range(pid["arity"])]))
    # ... and quantified programs (partially quantified formulae under AXIOM / CLOSED, used as sub-formulae too) with
    # reset_bounds() in between: their per-group rows are never asserted and must read inside the default at all times
    qprogs = [streams.gen_fol_program(seed + 19, k, quant=True, parents=(1.0 if k % 2 else True)) for k in range(m // 2)]
    for p in qprogs:
        rng = random.Random(sub_seed(seed, "c14r", len(p["ops"]), len(p["facts"])))
        for n_ in p["kb"]["nodes"]:
            if n_["kind"] in ("forall", "exists") and rng.random() < 0.5:
                n_["world"] = rng.choice(["axiom", "closed"])
        p["ops"] = list(p["ops"]) + [("passup",), ("resetb",), ("passup",), ("passdown",)]
        if len(p["ops"]) > 5:
            p["ops"].insert(rng.randint(1, len(p["ops"]) - 4), ("resetb",))
    qrecs, qdis = streams.run_fol_stream(rep, "quant", qprogs, None)
    for r in qrecs:
        if "crash" in r:
            continue
        rep.count_case(streams.canon(r["prog"]), True)
        bad = judge_fol(r)
        if bad:
            rep.violation("world-default", bad, {"program": streams.ser(r["prog"]), "failure": bad, "protocol": r["lines"], "impl": r["impl"]})
    frecs, fdis = streams.run_fol_stream(rep, "fol-qf", fprogs, None)
    created = 0
    for r in frecs:
        if "crash" in r:
            continue
        first_tab = next((o for l, o in zip(r["lines"], r["impl"]) if l.startswith("ftab ")), "t")
        last_tab = next((o for l, o in reversed(list(zip(r["lines"], r["impl"]))) if l.startswith("ftab ")), "t")
        grew = len(last_tab) > len(first_tab)
        created += grew
        nonopen = any(p.get("world", "open") != "open" for p in r["prog"]["kb"]["preds"]) or any(
            n.get("world", "open") != "open" for n in r["prog"]["kb"]["nodes"])
        rep.count_case(streams.canon(r["prog"]), grew and nonopen)
        bad = judge_fol(r)
        if not bad and any("CREATED-ROW" in (o or "") for o in r["impl"]):
            bad = {"problem": "get_data of an unknown grounding created a row"}
        if bad:
            rep.violation("world-default", bad, {"program": streams.ser(r["prog"]), "failure": bad, "protocol": r["lines"], "impl": r["impl"]})
        rep.sample({"kb": streams.ser(r["prog"]["kb"])}, limit=1)
    rep.extra["programs_where_inference_created_rows"] = created
    rep.cov["rule"] = ("(a) store programs under every world (construction, reset_world): get_data/state of absent groundings must return the "
                       "default and create nothing; after reset_bounds never-asserted rows must read exactly the default; (b) quantifier-free "
                       "first-order programs with CLOSED/AXIOM predicates and connectives: every never-asserted row must stay inside its "
                       "formula's default after every call; all tables compared with the Lean model; non-trivial = inference created rows in "
                       "a CLOSED/AXIOM formula, or an absent grounding was queried")
    fd = first_dis or fdis
    if fd is not None and not rep.violations:
        rep.extra["first_disagreement"] = {"program": streams.ser(fd["prog"]), "at": fd["disagreements"][:3]}


def replay(obj):
    import engine
    prog = streams.fix_prog(obj["replay"]["program"])
    if "facts" in prog:
        prog["facts"] = [tuple(f) for f in prog["facts"]]
        rec = engine.run_cases("fol", "run_fol_program", [prog], jobs=1)[0]
        rec["prog"], rec["safe_upto"] = prog, len(rec.get("lines", []))
        bad = judge_fol(rec) if "crash" not in rec else {"crash": rec["crash"]}
    else:
        rec = engine.run_cases("fol", "run_store_program", [prog], jobs=1)[0]
        bad = next((b for b in map(judge_store, rec.get("meta", {}).get("judgements", [])) if b), None)
    print("REPRODUCED" if bad else "not reproduced", bad)
    return 1 if bad else 0
