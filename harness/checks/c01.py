"""C01 — propositional inference is sound for every real-valued interpretation."""
from fractions import Fraction as Fr

import streams
from common import parse_q, size

THEOREMS = ["LNN.C01_sound", "LNN.C01_sound_infer", "LNN.C01_no_contradiction", "LNN.C01_no_model_contradiction"]
MODULES = ["LnnVerif.Props.C01"]
FACETS = {"bounds", "contra"}


def oracle(rec):
    """the drawn interpretation must stay inside every bound of the implementation, and the
    implementation must not report a contradiction. Judged on the exactly comparable prefix."""
    interp = rec["meta"].get("interp")
    if not interp:
        return None
    ids = rec["meta"]["ids"]
    vals = [parse_q(interp[i] if i in interp else interp[str(i)]) for i in ids]
    for k in range(min(rec["safe_upto"], len(rec["lines"]))):
        line, out = rec["lines"][k], rec["impl"][k]
        if line.startswith("dump "):
            for i, v, (lo, hi) in zip(ids, vals, streams.parse_dump(out)):
                if not (lo <= v <= hi):
                    return {"line": k, "after": rec["lines"][k - 1] if k else "", "node": i,
                            "value": str(v), "bounds": [str(lo), str(hi)]}
        elif line.startswith("contra ") and out != "c 0":
            return {"line": k, "after": rec["lines"][k - 2] if k > 1 else "", "contradiction": True}
    if rec["meta"]["errors"]:
        return {"exception": rec["meta"]["errors"]}
    return None


def nontrivial(rec):
    # some downward call tightened something, and the interpretation is strictly inside a bound
    moved = any(o.startswith("r ") and o != "r 0" and l.startswith(("down", "pass down"))
                for l, o in zip(rec["lines"], rec["impl"]) if o)
    moved = moved or any(o.startswith("n ") and not o.endswith(" 0") for o in rec["impl"] if o)
    return moved


def run(rep, tier, seed):
    n = size(tier, 300, 6000)
    progs = [streams.gen_prop_program(seed, k, mode="interp") for k in range(n)]
    recs, first_dis = streams.run_prop_stream(rep, "prop-mixed", progs, FACETS)
    rep.cov["rule"] = ("random weighted propositional DAGs (2-5 atoms, 1-6 connectives incl. Iff/XOr, both "
                       "activation variants, alpha in {1,7/8,3/4}, weights incl. 0, biases != 1), interpretation-first "
                       "bounds on the 1/16 grid, random interleavings of node- and model-level calls; distinct = hash "
                       "of the canonical program; non-trivial = some downward step or infer tightened a bound")
    for r in recs:
        if "crash" in r:
            rep.bump("harness_crashes")
            continue
        rep.count_case(streams.canon(r["prog"]), nontrivial(r))
        bad = oracle(r)
        if bad:
            rep.violation("unsound-bound", bad, {"program": streams.ser(r["prog"]), "failure": bad,
                                                 "protocol": r["lines"], "impl": r["impl"]})
        rep.sample({"kb": streams.ser(r["prog"]["kb"]), "ops": r["prog"]["ops"][:6]}, limit=2)
    if first_dis is not None and not rep.violations:
        rep.extra["first_disagreement"] = {"program": streams.ser(first_dis["prog"]),
                                           "at": first_dis["disagreements"][:3]}


def replay(obj):
    import engine
    prog = streams.fix_prog(obj["replay"]["program"])
    rec = engine.run_cases("prop", "run_prop_program", [prog], jobs=1)[0]
    rec["safe_upto"] = len(rec["lines"])
    bad = oracle(rec)
    print("REPRODUCED" if bad else "not reproduced", bad)
    return 1 if bad else 0
