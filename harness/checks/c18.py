"""C18 — training preserves facts, keeps parameters admissible, ends in an inferred state."""
import random
from fractions import Fraction as Fr

import engine
import streams
import train
from common import parse_q, sub_seed, size

THEOREMS = ["LNN.C18_facts_preserved",
            "LNN.C18_facts_preserved_epochs",
            "LNN.C18_weights_nonneg",
            "LNN.C18_bias_nonneg",
            "LNN.C18_weights_nonneg_epochs",
            "LNN.C18_bias_nonneg_epochs",
            "LNN.C18_weights_nonneg_of_init",
            "LNN.C18_negative_weights_free",
            "LNN.C18_final_inferred",
            "LNN.C18_final_inferred_facts",
            "LNN.C18_final_in_range",
            "LNN.C18_contradiction_loss_nonneg",
            "LNN.C18_contradiction_loss_zero_iff",
            "LNN.C18_total_contradiction_loss_nonneg",
            "LNN.C18_total_contradiction_loss_zero_iff",
            "LNN.C18_total_contradiction_loss_zero_iff_no_cross",
            "LNN.C18_supervised_loss_nonneg",
            "LNN.C18_supervised_loss_zero_iff",
            "LNN.C18_total_supervised_loss_zero_iff",
            "LNN.C18_uncertainty_loss_nonneg_when_ordered",
            "LNN.C18_contradiction_loss_alpha_gap",
            "LNN.C18_uncertainty_loss_can_be_negative"]
MODULES = ["LnnVerif.Props.C18"]


def oracle(rec, case):
    m = rec["meta"]
    if m["errors"]:
        return {"problem": "train() failed", "errors": m["errors"]}
    if not m["facts_unchanged"]:
        return {"problem": "train() changed asserted facts"}
    if not m["labels_unchanged"]:
        return {"problem": "train() changed labels"}
    if not m["finite"]:
        return {"problem": "a parameter is not finite after training"}
    if m["steps"] > 0:
        for i, (b, ws) in m["params"].items():
            if parse_q(b) < 0:
                return {"problem": "negative bias after training", "node": i, "bias": b}
            if int(i) not in m["negw"] and any(parse_q(w) < 0 for w in ws):
                return {"problem": "negative operand weight after training (negative weights were not requested)", "node": i, "weights": ws}
    if not m["final_equals_reset_infer"]:
        return {"problem": "the bounds left behind differ from reset_bounds()+infer() under the final parameters",
                "left": m["final"], "recomputed": m["again"]}
    order = [k for k in ("c", "s", "u") if k in case["losses"]]
    for e, h in enumerate(m["history"]):
        for k, v in zip(list(case["losses"].keys()), h):
            v = parse_q(v)
            if k in ("c", "s") and v < 0:
                return {"problem": "a reported loss is negative", "loss": k, "epoch": e, "value": str(v)}
    return None


def run(rep, tier, seed):
    # known finding D15 (alpha < 1 tolerance): replay the witness; it is listed only while it reproduces
    w = engine.run_cases("train", "run_loss_gap", [{}], jobs=1)[0]
    rep.extra["known_finding_D15_witness"] = w
    if "crash" not in w and w["contradiction_loss"] == 0 and w["uncertainty_loss"] < 0:
        rep.enable_known("D15")
        rep.violation("loss-alpha-gap", {"witness": w}, {"witness": w})       # matched by the listed finding: counted, not reported
    n = size(tier, 150, 3000)
    cases = [c for c in (train.gen_train_case(random.Random(sub_seed(seed, "c18", k)), adam=(k % 5 == 4)) for k in range(n)) if c]
    recs = engine.run_cases("train", "run_train", cases, chunksize=2)
    for r, c in zip(recs, cases):
        r["prog"] = c
    scripted = [r for r in recs if "lines" in r and not r["prog"].get("adam") and not r["meta"]["errors"]]
    engine.model_outputs([r for r in recs if "lines" in r])
    ndis = ncmp = 0
    first = None
    proj = 0
    for r in recs:
        if "crash" in r:
            rep.bump("harness_crashes")
            rep.extra.setdefault("first_crash", r["crash"] + r.get("trace", "")[-600:])
            continue
        dis, safe, nc = engine.compare_record(r, None)
        ncmp += nc
        if dis:
            ndis += 1
            first = first or (r, dis)
        case = r["prog"]
        clamped = any(parse_q(w) == 0 for _, (b, ws) in r["meta"].get("params", {}).items() for w in ws)
        proj += clamped
        rep.count_case(streams.canon(case), r["meta"].get("steps", 0) >= 2 and clamped)
        bad = oracle(r, case)
        if bad:
            rep.violation("training", bad, {"case": streams.ser(case), "failure": bad})
        rep.sample({"kb": streams.ser(case["kb"]), "losses": streams.ser(case["losses"]), "epochs": case["epochs"],
                    "optimizer": "Adam" if case.get("adam") else "scripted"}, limit=2)
    # projection alone, incl. requested negative weights (inference with negative weights is not modelled)
    pcases = []
    for k in range(size(tier, 10, 100)):
        rng = random.Random(sub_seed(seed, "c18proj", k))
        pcases.append({"neurons": [{"kind": rng.choice(["and", "or"]), "negw": rng.random() < 0.4,
                                    "b": Fr(rng.randint(-16, 16), 4), "w": [Fr(rng.randint(-16, 16), 4) for _ in range(rng.randint(2, 4))]}
                                   for _ in range(20)]})
    precs = engine.run_cases("train", "run_projection", pcases, chunksize=1)
    engine.model_outputs([r for r in precs if "lines" in r])
    for pc, r in zip(pcases, precs):
        if "crash" in r:
            rep.bump("harness_crashes")
            rep.extra.setdefault("first_crash", r["crash"] + r.get("trace", "")[-600:])
            continue
        dis, safe, nc = engine.compare_record(r, None)
        ncmp += nc
        if dis:
            ndis += 1
            first = first or (r, dis)
        for nrn, o in zip(pc["neurons"], r["impl"][1:]):
            b, ws = parse_q(o.split()[1]), [parse_q(x) for x in o.split()[2].split(",")]
            rep.count_case("proj" + str(streams.ser(nrn)), any(w < 0 for w in nrn["w"]) or nrn["b"] < 0)
            exp_w = list(nrn["w"]) if nrn["negw"] else [max(Fr(0), w) for w in nrn["w"]]
            if b != max(Fr(0), nrn["b"]) or ws != exp_w:
                rep.violation("projection", {"neuron": streams.ser(nrn), "got": o}, {"neuron": streams.ser(nrn)})
    rep.obligation("correspondence:train", ndis == 0, f"{len(recs)} training runs ({len(scripted)} scripted), {ncmp} lines compared, {ndis} disagree")
    rep.extra["runs_where_projection_clamped_a_weight"] = proj
    rep.cov["rule"] = ("small propositional models (1-3 connectives), dyadic facts and labels, every combination of the contradiction / supervised / "
                       "uncertainty losses with coefficients; 4 of 5 runs use Model.train(optimizer=<scripted torch optimiser>) whose steps are a seeded "
                       "script of dyadic updates (some negative or huge, negative weights sometimes requested) and are replayed in the Lean "
                       "training model: parameters after every epoch, loss components, final bounds; 1 of 5 uses the default Adam (learning rates "
                       "up to 1) and is judged by the oracle only (facts/labels untouched, finite, projection postcondition, final = "
                       "reset_bounds()+infer(), loss signs); non-trivial = >= 2 optimiser steps and a projection that really clamped")
    if first and not rep.violations:
        rep.extra["first_disagreement"] = {"case": streams.ser(first[0].get("prog", {})), "at": first[1][:2]}


def replay(obj):
    print(obj["detail"])
    return 0
