"""C18 — training preserves facts, keeps parameters admissible, ends in an inferred state."""
import random
from fractions import Fraction as Fr

import engine
import streams
import train
from common import parse_q, sub_seed, size

THEOREMS = ["LNN.C18_facts_preserved",
            "LNN.C18_facts_preserved_epochs",
            "LNN.C18_weights_nonneg",
            "LNN.C18_bias_nonneg",
            "LNN.C18_weights_nonneg_epochs",
            "LNN.C18_bias_nonneg_epochs",
            "LNN.C18_weights_nonneg_of_init",
            "LNN.C18_negative_weights_free",
            "LNN.C18_final_inferred",
            "LNN.C18_final_inferred_facts",
            "LNN.C18_final_in_range",
            "LNN.C18_contradiction_loss_nonneg",
            "LNN.C18_contradiction_loss_zero_iff",
            "LNN.C18_total_contradiction_loss_nonneg",
            "LNN.C18_total_contradiction_loss_zero_iff",
            "LNN.C18_total_contradiction_loss_zero_iff_no_cross",
            "LNN.C18_supervised_loss_nonneg",
            "LNN.C18_supervised_loss_zero_iff",
            "LNN.C18_total_supervised_loss_zero_iff",
            "LNN.C18_uncertainty_loss_nonneg_when_ordered",
            "LNN.C18_contradiction_loss_alpha_gap",
            "LNN.C18_uncertainty_loss_can_be_negative"]
MODULES = ["LnnVerif.Props.C18"]


def oracle(rec, case):
    m = rec["meta"]
    if m["errors"]:
        return {"problem": "train() failed", "errors": m["errors"]}
    if not m["facts_unchanged"]:
        return {"problem": "train() changed asserted facts"}
    if not m["labels_unchanged"]:
        return {"problem": "train() changed labels"}
    if not m["finite"]:
        return {"problem": "a parameter is not finite after training"}
    if m["steps"] > 0:
        for i, (b, ws) in m["params"].items():
            if parse_q(b) < 0:
                return {"problem": "negative bias after training", "node": i, "bias": b}
            if int(i) not in m["negw"] and any(parse_q(w) < 0 for w in ws):
                return {"problem": "negative operand weight after training (negative weights were not requested)", "node": i, "weights": ws}
    if not m["final_equals_reset_infer"]:
        return {"problem": "the bounds left behind differ from reset_bounds()+infer() under the final parameters",
                "left": m["final"], "recomputed": m["again"]}
    order = [k for k in ("c", "s", "u") if k in case["losses"]]
    for e, h in enumerate(m["history"]):
        for k, v in zip(list(case["losses"].keys()), h):
            v = parse_q(v)
            if k in ("c", "s") and v < 0:
                return {"problem": "a reported loss is negative", "loss": k, "epoch": e, "value": str(v)}
    return None


def run(rep, tier, seed):
    # known finding D15 (alpha < 1 tolerance): replay the witness; it is listed only while it reproduces
    w = engine.run_cases("train", "run_loss_gap", [{}], jobs=1)[0]
    rep.extra["known_finding_D15_witness"] = w
    if "crash" not in w and w["contradiction_loss"] == 0 and w["uncertainty_loss"] < 0:
        rep.enable_known("D15")
        rep.violation("loss-alpha-gap", {"witness": w}, {"witness": w})       # matched by the listed finding: counted, not reported
    n = size(tier, 150, 3000)
    cases = [c for c in (train.gen_train_case(random.Random(sub_seed(seed, "c18", k)), adam=(k % 5 == 4)) for k in range(n)) if c]
    recs = engine.run_cases("train", "run_train", cases, chunksize=2)
    for r, c in zip(recs, cases):
        r["prog"] = c
    scripted = [r for r in recs if "lines" in r and not r["prog"].get("adam") and not r["meta"]["errors"]]
    engine.model_outputs([r for r in recs if "lines" in r])
    ndis = ncmp = 0
    first = None
    proj = 0
    for r in recs:
        if "crash" in r:
            rep.bump("harness_crashes")
            rep.extra.setdefault("first_crash", r["crash"] + r.get("trace", "")[-600:])
            continue
        dis, safe, nc = engine.compare_record(r, None)
        ncmp += nc
        if dis:
            ndis += 1
            first = first or (r, dis)
        case = r["prog"]
        clamped = any(parse_q(w) == 0 for _, (b, ws) in r["meta"].get("params", {}).items() for w in ws)
        proj += clamped
        rep.count_case(streams.canon(case), r["meta"].get("steps", 0) >= 2 and clamped)
        bad = oracle(r, case)
        if bad:
            rep.violation("training", bad, {"case": streams.ser(case), "failure": bad})
        rep.sample({"kb": streams.ser(case["kb"]), "losses": streams.ser(case["losses"]), "epochs": case["epochs"],
                    "optimizer": "Adam" if case.get("adam") else "scripted"}, limit=2)
    # projection alone, incl. requested negative weights (inference with negative weights is not modelled)
    pcases = []
    for k in range(size(tier, 10, 100)):
        rng = random.Random(sub_seed(seed, "c18proj", k))
        pcases.append({"neurons": [{"kind": rng.choice(["and", "or"]), "negw": rng.random() < 0.4,
                                    "b": Fr(rng.randint(-16, 16), 4), "w": [Fr(rng.randint(-16, 16), 4) for _ in range(rng.randint(2, 4))]}
                                   for _ in range(20)]})
    precs = engine.run_cases("train", "run_projection", pcases, chunksize=1)
    engine.model_outputs([r for r in precs if "lines" in r])
    for pc, r in zip(pcases, precs):
        if "crash" in r:
            rep.bump("harness_crashes")
            rep.extra.setdefault("first_crash", r["crash"] + r.get("trace", "")[-600:])
            continue
        dis, safe, nc = engine.compare_record(r, None)
        ncmp += nc
        if dis:
            ndis += 1
            first = first or (r, dis)
        for nrn, o in zip(pc["neurons"], r["impl"][1:]):
            b, ws = parse_q(o.split()[1]), [parse_q(x) for x in o.split()[2].split(",")]
            rep.count_case("proj" + str(streams.ser(nrn)), any(w < 0 for w in nrn["w"]) or nrn["b"] < 0)
            exp_w = list(nrn["w"]) if nrn["negw"] else [max(Fr(0), w) for w in nrn["w"]]
            if b != max(Fr(0), nrn["b"]) or ws != exp_w:
                rep.violation("projection", {"neuron": streams.ser(nrn), "got": o}, {"neuron": streams.ser(nrn)})
    # ---- the built-in losses on first-order models (tables with crossing and non-crossing rows side by side)
    import fol
    from common import parse_q as pq
    fcases = []
    for k in range(size(tier, 60, 1200)):
        rng = random.Random(sub_seed(seed, "c18fol", k))
        kbd = fol.gen_fol_kb(rng, n_preds=(2, 3), n_conn=(1, 3), max_arity=2, quant=False, worlds=True)
        facts, nc = fol.gen_facts(rng, kbd, n_consts=(2, 3), density=0.7, classical_p=0.5, crossed_p=0.25)
        labels = []
        for p_ in kbd["preds"]:
            if rng.random() < 0.5:
                labels.append((p_["id"], [rng.randrange(nc) for _ in range(p_["arity"])]) + rng.choice([(Fr(1), Fr(1)), (Fr(0), Fr(0)), (Fr(1, 2), Fr(1))]))
        fcases.append({"kb": kbd, "facts": facts, "labels": labels, "n_consts": nc,
                       "coeffs": (rng.choice([Fr(1), Fr(2), Fr(1, 2)]), rng.choice([Fr(1), Fr(1, 2)]), rng.choice([Fr(1), Fr(2)]))})
    frecs, fdis = streams.run_fol_stream(rep, "fol-losses", fcases, None, fn="run_fol_losses")
    if fdis is not None:
        first = first or (fdis, fdis["disagreements"])
    mixed = 0
    for r in frecs:
        if "crash" in r:
            continue
        m = r["meta"]
        cc, uc, sc = r["prog"]["coeffs"]
        exp_c = exp_u = Fr(0)
        has_mixed = False
        for i in m["registered"]:
            rows = m["tables"].get(i, m["tables"].get(str(i), {}))
            a = pq(m["alpha"].get(i, m["alpha"].get(str(i))))
            flags = []
            for g, (lo, hi) in rows.items():
                lo, hi = pq(lo), pq(hi)
                contra = lo > hi and not (lo <= 1 - a and hi <= 1 - a) and not (lo >= a and hi >= a)
                flags.append((contra, lo, hi))
            exp_c += sum(cc * (lo - hi) for c_, lo, hi in flags if c_)
            if not any(c_ for c_, _, _ in flags):
                exp_u += sum(uc * (hi - lo) for _, lo, hi in flags)
            has_mixed = has_mixed or (any(c_ for c_, _, _ in flags) and any((not c_) and hi > lo for c_, lo, hi in flags))
        mixed += has_mixed
        rep.count_case("folloss" + streams.canon(r["prog"]), has_mixed)
        crossing = any(pq(b[0]) > pq(b[1]) for rows in m["tables"].values() for b in rows.values())
        got_c, got_u = pq(m["closs"]), pq(m["uloss"])
        bad = None
        if got_c != exp_c:
            bad = {"problem": "contradiction loss differs from the sum of (L-U) over the contradictory rows", "expected": str(exp_c), "got": str(got_c)}
        elif got_c < 0:
            bad = {"problem": "negative contradiction loss", "got": str(got_c)}
        elif (got_c == 0) == crossing and all(pq(a_) == 1 for a_ in m["alpha"].values()):
            bad = {"problem": "contradiction loss is zero although bounds cross (or non-zero although none cross)", "got": str(got_c), "crossing": crossing}
        elif got_u != exp_u:
            bad = {"problem": "uncertainty loss differs from its definition", "expected": str(exp_u), "got": str(got_u)}
        elif "sloss" in m and pq(m["sloss"]) < 0:
            bad = {"problem": "negative supervised loss", "got": m["sloss"]}
        if bad:
            rep.violation("fol-loss", bad, {"case": streams.ser(r["prog"]), "failure": bad})
    rep.extra["fol_loss_cases_with_crossing_and_open_rows_in_one_table"] = mixed
    # ---- Model.train() on first-order models whose tables already hold rows created by inference (implementation only)
    tcases = [dict(c, facts=[f for f in c["facts"] if f[2] <= f[3]], epochs=3, lr=Fr(1, 8)) for c in fcases[:size(tier, 24, 300)]]
    trecs = engine.run_cases("fol", "run_fol_train", tcases, chunksize=1)
    ran = 0
    for r, c in zip(trecs, tcases):
        if "crash" in r:
            rep.bump("harness_crashes")
            rep.extra.setdefault("first_crash", r["crash"])
            continue
        if r["meta"]["errors"]:
            rep.bump("fol_train_errors")
            rep.extra.setdefault("first_fol_train_error", r["meta"]["errors"][0])
            continue
        ran += 1
        if r["meta"]["bad"]:
            rep.violation("fol-train", r["meta"]["bad"], {"case": streams.ser(c), "failure": r["meta"]["bad"]})
    rep.extra["fol_train_runs"] = ran
    ndis += 1 if fdis is not None else 0
    rep.obligation("correspondence:train", ndis == 0, f"{len(recs)} training runs ({len(scripted)} scripted), {ncmp} lines compared, {ndis} disagree")
    rep.extra["runs_where_projection_clamped_a_weight"] = proj
    rep.cov["rule"] = ("small propositional models (1-3 connectives), dyadic facts and labels, every combination of the contradiction / supervised / "
                       "uncertainty losses with coefficients; 4 of 5 runs use Model.train(optimizer=<scripted torch optimiser>) whose steps are a seeded "
                       "script of dyadic updates (some negative or huge, negative weights sometimes requested) and are replayed in the Lean "
                       "training model: parameters after every epoch, loss components, final bounds; 1 of 5 uses the default Adam (learning rates "
                       "up to 1) and is judged by the oracle only (facts/labels untouched, finite, projection postcondition, final = "
                       "reset_bounds()+infer(), loss signs); non-trivial = >= 2 optimiser steps and a projection that really clamped")
    if first and not rep.violations:
        rep.extra["first_disagreement"] = {"case": streams.ser(first[0].get("prog", {})), "at": [list(x)[:4] for x in first[1][:2]]}


def replay(obj):
    case = streams.fix_prog(obj["replay"].get("case", {}))
    if not case:
        print(obj["detail"])
        return 0
    for k in ("data", "labels"):
        case[k] = [tuple(x) for x in case[k]]
    case["script"] = {int(e): {int(i): (v[0], v[1]) for i, v in d.items()} for e, d in case["script"].items()}
    rec = engine.run_cases("train", "run_train", [case], jobs=1)[0]
    bad = oracle(rec, case) if "crash" not in rec else {"crash": rec["crash"]}
    print("REPRODUCED" if bad else "not reproduced", bad)
    return 1 if bad else 0
