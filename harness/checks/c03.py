"""C03 — a single connective infers exactly the feasible interval hull (alpha = 1)."""
import itertools
import random
from fractions import Fraction as Fr

import engine
import streams
from common import sub_seed, size

THEOREMS = ["LNN.C03_and_operator_hull",
            "LNN.C03_and_operand_hull",
            "LNN.C03_and_infeasible",
            "LNN.C03_or_operator_hull",
            "LNN.C03_or_operand_hull",
            "LNN.C03_or_infeasible",
            "LNN.C03_implies_operator_hull",
            "LNN.C03_implies_operand_hull",
            "LNN.C03_implies_infeasible",
            "LNN.C03_and_infeasible_reported",
            "LNN.C03_or_infeasible_reported",
            "LNN.C03_implies_infeasible_reported",
            "LNN.C03_engine_and",
            "LNN.C03_engine_or",
            "LNN.C03_engine_implies",
            "LNN.C03_engine_arrest_and"]
MODULES = ["LnnVerif.Props.C03"]
FACETS = {"bounds", "contra"}
ONE, ZERO = Fr(1), Fr(0)


def clamp(x):
    return min(ONE, max(ZERO, x))


def and_hull(w, b, ops, self):
    """closed-form feasible hull of an And: (operator hull, [operand hulls]) or None if infeasible.
    ops = [(lo,hi)], self = (L,U); all inside [0,1], lo<=hi."""
    L, U = self
    s_lo = [wi * (1 - lo) for wi, (lo, hi) in zip(w, ops)]
    s_hi = [wi * (1 - hi) for wi, (lo, hi) in zip(w, ops)]
    vmin, vmax = clamp(b - sum(s_lo)), clamp(b - sum(s_hi))
    rl, ru = max(L, vmin), min(U, vmax)
    if rl > ru:
        return None
    res = []
    for k, (wk, (lo, hi)) in enumerate(zip(w, ops)):
        if wk == 0:
            res.append((lo, hi))
            continue
        o_lo = sum(s_lo) - s_lo[k]
        o_hi = sum(s_hi) - s_hi[k]
        nlo, nhi = lo, hi
        if L > 0:
            nlo = max(lo, 1 + (L - b + o_hi) / wk)
        if U < 1:
            nhi = min(hi, 1 + (U - b + o_lo) / wk)
        res.append((nlo, nhi))
    return (rl, ru), res


def neg(p):
    return (1 - p[1], 1 - p[0])


def hull(kind, w, b, ops, self):
    if kind == "and":
        return and_hull(w, b, ops, self)
    if kind == "or":
        r = and_hull(w, b, [neg(o) for o in ops], neg(self))
        return None if r is None else (neg(r[0]), [neg(o) for o in r[1]])
    if kind == "implies":
        r = and_hull(w, b, [ops[0], neg(ops[1])], neg(self))
        return None if r is None else (neg(r[0]), [r[1][0], neg(r[1][1])])
    raise ValueError(kind)


def intervals(den):
    g = [Fr(k, den) for k in range(den + 1)]
    return [(a, b) for a in g for b in g if a <= b]


def gen_random_case(seed, k):
    rng = random.Random(sub_seed(seed, "c03", k))
    kind = rng.choice(["and", "or", "implies"])
    n = 2 if kind == "implies" else rng.randint(2, 6)
    w = [rng.choice([ZERO, Fr(1, 2), ONE, ONE, Fr(2), Fr(1, 4), Fr(4)]) for _ in range(n)]
    b = rng.choice([ONE, ONE, Fr(1, 2), Fr(3, 2), Fr(2), Fr(3, 4), Fr(5, 4), Fr(1, 4)])
    iv = intervals(8)
    combos = []
    for _ in range(40):
        c = [rng.choice(iv) if rng.random() < 0.8 else (ZERO, ONE) for _ in range(n)]
        c.append(rng.choice(iv) if rng.random() < 0.85 else (ZERO, ONE))
        combos.append(c)
    return {"kind": kind, "n": n, "w": w, "b": b, "act": rng.choice(["luk", "lukt"]), "combos": combos}


def exhaustive_cases():
    iv = intervals(4)
    cases = []
    for kind in ("and", "or", "implies"):
        for w in itertools.product([ZERO, Fr(1, 2), ONE, Fr(2)], repeat=2):
            for b in (Fr(1, 2), ONE, Fr(2)):
                combos = [list(c) for c in itertools.product(iv, repeat=3)]
                for k in range(0, len(combos), 700):
                    cases.append({"kind": kind, "n": 2, "w": list(w), "b": b, "act": "lukt", "combos": combos[k:k + 700]})
    return cases


def judge(rep, case, rec):
    n = case["n"]
    per = n + 1 + 4
    base = n + 2            # reset + node lines
    ncmp = 0
    for ci, combo in enumerate(case["combos"]):
        k0 = base + ci * per
        dump = streams.parse_dump(rec["impl"][k0 + n + 1 + 2])
        contra = rec["impl"][k0 + n + 1 + 3]
        ops, self = combo[:n], combo[n]
        h = hull(case["kind"], case["w"], case["b"], ops, self)
        got_ops, got_self = dump[:n], dump[n]
        nontriv = h is None or (h[0] != self or h[1] != ops)
        rep.count_case(f"{case['kind']}|{case['w']}|{case['b']}|{combo}", nontriv)
        bad = None
        if h is None:
            rep.bump("infeasible_cases")
            if contra != "c 1":
                bad = {"problem": "no feasible assignment but no contradiction reported", "result": rec["impl"][k0 + n + 3]}
        else:
            rep.bump("feasible_cases")
            if contra != "c 0":
                bad = {"problem": "feasible inputs reported as contradiction"}
            elif got_self != h[0] or list(got_ops) != list(h[1]):
                looser = any(g[0] < e[0] or g[1] > e[1] for g, e in zip(list(got_ops) + [got_self], list(h[1]) + [h[0]]))
                bad = {"problem": "result is %s than the feasible hull" % ("looser" if looser else "tighter"),
                       "expected": [list(map(str, x)) for x in list(h[1]) + [h[0]]],
                       "got": [list(map(str, x)) for x in list(got_ops) + [got_self]]}
        if bad:
            bad.update({"kind": case["kind"], "w": list(map(str, case["w"])), "b": str(case["b"]), "act": case["act"],
                        "operands": [list(map(str, x)) for x in ops], "operator": list(map(str, self))})
            rep.violation("hull", bad, {"case": streams.ser({k: v for k, v in case.items() if k != "combos"}),
                                        "combo": streams.ser(combo), "failure": bad})
    return ncmp


def run(rep, tier, seed):
    n = size(tier, 50, 1200)
    cases = [gen_random_case(seed, k) for k in range(n)]
    if tier == "thorough":
        ex = exhaustive_cases()
        rep.extra["exhaustive"] = True
        rep.extra["exhaustive_space"] = ("n = 2, all operand/operator intervals on the 1/4 grid, weights in {0,1/2,1,2}^2, biases in "
                                         "{1/2,1,2}, And/Or/Implies")
        cases += ex
    recs = engine.run_cases("misc", "run_c03_batch", cases, chunksize=1)
    engine.model_outputs([r for r in recs if "lines" in r])
    ndis = ncmp = 0
    first = None
    for case, r in zip(cases, recs):
        if "crash" in r:
            rep.bump("harness_crashes")
            rep.extra.setdefault("first_crash", r["crash"])
            continue
        dis, safe, nc = engine.compare_record(r, FACETS)
        ncmp += nc
        if dis:
            ndis += 1
            first = first or dis
        judge(rep, case, r)
    rep.obligation("correspondence:single-connective", ndis == 0, f"{len(cases)} connectives, {ncmp} lines compared, {ndis} batches disagree")
    rep.cov["rule"] = ("one connective (And/Or arity 2-6, Implies), weights in {0,1/4,1/2,1,2,4}, biases 1/4..2, both variants, operand and "
                       "operator intervals on the 1/8 grid; upward() then downward(); implementation compared with the closed-form feasible "
                       "hull (proved to be the hull in Lean) in exact arithmetic, looser OR tighter fails, infeasible must report a "
                       "contradiction; non-trivial = the hull differs from the input box or the case is infeasible")
    rep.sample({"kind": "and", "w": ["1/2", "1", "2"], "b": "1", "operator": ["1/2", "3/4"],
                "operands": [["1/4", "3/4"], ["1/2", "1"], ["0", "1"]]})
    if first and not rep.violations:
        rep.extra["first_disagreement"] = first[:3]


def replay(obj):
    r = obj["replay"]
    case = streams.deser(r["case"])
    case["combos"] = [[tuple(x) for x in streams.deser(r["combo"])]]
    rec = engine.run_cases("misc", "run_c03_batch", [case], jobs=1)[0]
    import common
    rep = common.Report("C03", "quick", 0)
    judge(rep, case, rec)
    print("REPRODUCED" if rep.violations else "not reproduced")
    return 1 if rep.violations else 0
