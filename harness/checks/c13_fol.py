"""first-order / quantifier part of C13: reported amount is zero exactly when no bound moved (an absent row
reads as its world default)"""
from common import size
import streams
from checks._folcommon import tabs_of, is_inference, moved, worlds_of, amount_of


def oracle(rec):
    prev = None
    w = worlds_of(rec)
    for k, op, out, tabs in tabs_of(rec):
        if prev is not None and is_inference(op):
            zero = amount_of(out) == "0"
            m = moved(prev, tabs, w)
            if zero != (m is None):
                return {"op": op, "reported": amount_of(out), "moved": None if m is None else [m[0], m[1], str(m[2]), str(m[3])]}
        prev = tabs
    return None


def run(rep, tier, seed):
    n = size(tier, 100, 2000)
    for name, quant, par in (("fol-qf", False, True), ("quant", True, True), ("qparent", True, 1.0)):
        progs = [streams.gen_fol_program(seed + 11, k, quant=quant, crossed_p=0.05, mid_facts=0.1, parents=par, restrict_p=0.2)
                 for k in range(n if par is True else n // 2)]
        for p in progs:
            p["ops"] = list(p["ops"]) + [("passup",), ("passup",), ("passdown",), ("passdown",)]
        if name == "qparent":
            progs = streams.corpus_fol("C13") + progs          # minimised past failures run first
        recs, first = streams.run_fol_stream(rep, name, progs, {"tables", "reported"})
        for r in recs:
            if "crash" in r:
                continue
            rep.count_case(streams.canon(r["prog"]), True)
            bad = oracle(r)
            if bad:
                rep.violation("fol-amount-vs-change", bad, {"program": streams.ser(r["prog"]), "failure": bad,
                                                            "protocol": r["lines"], "impl": r["impl"]})
        if first is not None and not rep.violations:
            rep.extra.setdefault("first_disagreement_" + name, {"program": streams.ser(first["prog"]), "at": first["disagreements"][:3]})
