"""C09 — groundings with asserted operand facts are always evaluated."""
import itertools
import random
from fractions import Fraction as Fr

import exact
import fol
import streams
from common import parse_q, sub_seed

THEOREMS = ["LNN.C09_foj_complete",
            "LNN.C09_foldJoin_complete",
            "LNN.C09_join_complete",
            "LNN.C09_join_aligned",
            "LNN.C09_homogeneous_complete",
            "LNN.C09_upward_present",
            "LNN.C09_upward_present_homogeneous",
            "LNN.C09_upward_keeps_rows",
            "LNN.C09_operands_kept",
            # the value clause (Lemmas/FolValue.lean)
            "LNN.C09_upward_value",
            "LNN.C09_upward_value_homogeneous",
            "LNN.C09_upward_value_open",
            "LNN.C09_downward_value",
            "LNN.C09_downward_frame"]
MODULES = ["LnnVerif.Props.C09", "LnnVerif.Props.C09Value"]
VARS = ["x", "y", "z"]


def operand_patterns():
    pats = []
    for a in (1, 2):
        pats += [list(p) for p in itertools.permutations(VARS, a)]
    return pats


def gen_case(rng, pattern, kind):
    """pattern: list of variable lists, one per operand"""
    preds = [{"id": k, "arity": len(vs), "world": "open"} for k, vs in enumerate(pattern)]
    conn = len(preds)
    node = {"id": conn, "kind": kind, "ops": [[k, list(vs)] for k, vs in enumerate(pattern)],
            "act": rng.choice(["luk", "lukt"])}
    if rng.random() < 0.5:
        node["w"] = [rng.choice([Fr(1, 2), Fr(1), Fr(2)]) for _ in pattern]
    if rng.random() < 0.3:
        node["b"] = rng.choice([Fr(1), Fr(1, 2), Fr(3, 2)])
    nc = rng.randint(2, 3)
    facts = []
    for p in preds:
        for g in itertools.product(range(nc), repeat=p["arity"]):
            if rng.random() < 0.65:
                lo, hi = fol.rand_bounds(rng, 0.4)
                facts.append((p["id"], list(g), lo, hi))
    return {"kb": {"preds": preds, "nodes": [node], "roots": [conn]}, "facts": facts, "n_consts": nc, "conn": conn}


def natural_join(case, m):
    """all assignments of the connective's variables whose projections are asserted for every operand"""
    facts = {(f[0], tuple(f[1])): (f[2], f[3]) for f in case["facts"]}
    nv, omap, oids = m["num_vars"], m["operand_map"], m["operand_ids"]
    res = []
    for sigma in itertools.product(range(case["n_consts"]), repeat=nv):
        rows = [facts.get((oid, tuple(sigma[s] for s in om))) for oid, om in zip(oids, omap)]
        if all(r is not None for r in rows):
            res.append((sigma, rows))
    return res


def oracle_down(rec):
    """down-first / late-fact cases (connective with a world default that says something): at the moment of the downward call
    every tuple in the natural join of the asserted operand facts must be evaluated -- its operator row being the asserted one
    or the world default -- and push at least what the inverse prescribes onto each operand row it depends on"""
    case, m = rec["prog"], rec["meta"]
    if m["errors"]:
        return {"exception": m["errors"]}
    tabs = [(l, o) for l, o in zip(rec["lines"], rec["impl"]) if l.startswith("ftab ")]
    before, after = fol.parse_tab(tabs[-2][1]), fol.parse_tab(tabs[-1][1])
    conn = case["conn"]
    w = [parse_q(x) for x in m["weights"]]
    b, alpha = parse_q(m["bias"]), parse_q(m["alpha"])
    kind = m["kind"]
    W = {"axiom": (Fr(1), Fr(1)), "closed": (Fr(0), Fr(0))}[case["kb"]["nodes"][0]["world"]]
    allf = dict(case, facts=list(case["facts"]) + list(case.get("late", [])))
    for sigma, _ in natural_join(allf, m):
        g = fol.gtxt(sigma)
        rows = [before[oid].get(fol.gtxt(tuple(sigma[s] for s in om))) for oid, om in zip(m["operand_ids"], m["operand_map"])]
        ob = before.get(conn, {}).get(g, W)
        if any(r is None for r in rows) or any(r[0] > r[1] for r in rows[:2]) or ob[0] > ob[1]:
            continue
        pl, pu = exact.act_down(kind, w, b, alpha, ob[0], ob[1], [r[0] for r in rows], [r[1] for r in rows])
        for k, (oid, om) in enumerate(zip(m["operand_ids"], m["operand_map"])):
            og = fol.gtxt(tuple(sigma[s] for s in om))
            exp = exact.agg(rows[k], (pl[k], pu[k]))
            got = after[oid].get(og)
            if got is None or got[0] < exp[0] or got[1] > exp[1]:
                return {"problem": "a downward step did not evaluate a grounding whose operand facts are all asserted: an operand row is "
                                   "looser than the inverse prescribes for the operator's row (its data or world default)",
                        "variant": case["variant"], "operator_grounding": g, "operator_row": list(map(str, ob)), "operand": oid,
                        "grounding": og, "at_least": list(map(str, exp)), "got": None if got is None else list(map(str, got))}
    return None


def oracle(rec):
    case, m = rec["prog"], rec["meta"]
    if case.get("variant"):
        return oracle_down(rec)
    if m["errors"]:
        return {"exception": m["errors"]}
    tabs = [(l, o) for l, o in zip(rec["lines"], rec["impl"]) if l.startswith("ftab ")]
    up_tab = fol.parse_tab(tabs[1][1])          # after upward
    conn = case["conn"]
    w = [parse_q(x) for x in m["weights"]]
    b, alpha = parse_q(m["bias"]), parse_q(m["alpha"])
    kind = {"and": "and", "or": "or", "implies": "implies"}[m["kind"]]
    nj = natural_join(case, m)
    for sigma, rows in nj:
        g = fol.gtxt(sigma)
        got = up_tab[conn].get(g)
        if got is None:
            return {"problem": "a grounding in the natural join of the asserted operand facts is missing from the table", "grounding": g}
        contra = any(r[0] > r[1] for r in rows[:2])
        if contra:
            continue
        exp = exact.agg((Fr(0), Fr(1)), exact.act_up(kind, w, b, [r[0] for r in rows], [r[1] for r in rows]))
        if got != exp:
            return {"problem": "bounds of a fully asserted grounding differ from the truth function applied to the facts",
                    "grounding": g, "expected": list(map(str, exp)), "got": list(map(str, got))}
    if case.get("op_fact") and len(tabs) >= 4:
        before = fol.parse_tab(tabs[2][1])
        after = fol.parse_tab(tabs[3][1])
        sigma = tuple(case["op_fact"][0])
        L, U = case["op_fact"][1], case["op_fact"][2]
        rows = [before[oid].get(fol.gtxt(tuple(sigma[s] for s in om))) for oid, om in zip(m["operand_ids"], m["operand_map"])]
        if all(r is not None for r in rows) and not any(r[0] > r[1] for r in rows[:2]) and not L > U:
            pl, pu = exact.act_down(kind, w, b, alpha, L, U, [r[0] for r in rows], [r[1] for r in rows])
            touched = set()
            for k, (oid, om) in enumerate(zip(m["operand_ids"], m["operand_map"])):
                og = fol.gtxt(tuple(sigma[s] for s in om))
                touched.add((oid, og))
                exp = exact.agg(rows[k], (pl[k], pu[k]))
                got = after[oid][og]
                if got[0] < exp[0] or got[1] > exp[1]:
                    return {"problem": "downward did not tighten an operand row as much as the inverse prescribes", "operand": oid,
                            "grounding": og, "at_least": list(map(str, exp)), "got": list(map(str, got))}
            # rows that the asserted grounding does not depend on keep their facts (every other operator row is UNKNOWN)
            for oid in set(m["operand_ids"]):
                for og, bnd in before[oid].items():
                    if (oid, og) not in touched and after[oid].get(og) != bnd:
                        # other operator rows are unknown (0,1) and propose nothing in an OPEN world
                        return {"problem": "downward changed an operand row the asserted grounding does not depend on",
                                "operand": oid, "grounding": og, "before": list(map(str, bnd)), "after": list(map(str, after[oid].get(og)))}
    return None


def run(rep, tier, seed):
    pats1 = operand_patterns()
    two = [list(p) for p in itertools.product(pats1, repeat=2)]
    three = [list(p) for p in itertools.product(pats1, repeat=3)]
    rng0 = random.Random(sub_seed(seed, "c09"))
    if tier != "thorough":
        pats = two + rng0.sample(three, 80)
        rep.extra["exhaustive_space"] = "all 81 variable-sharing patterns of two operands (arity 1-2 over x,y,z, permuted arguments) + 80 sampled of the 729 three-operand patterns"
    else:
        pats = two + three
        rep.extra["exhaustive_space"] = "ALL variable-sharing patterns of two and three operands of arity 1-2 over x,y,z incl. permuted arguments (81 + 729)"
    rep.extra["exhaustive"] = True
    cases = []
    for k, pat in enumerate(pats):
        rng = random.Random(sub_seed(seed, "c09case", k))
        kind = "implies" if len(pat) == 2 and rng.random() < 0.3 else rng.choice(["and", "or"])
        cases.append(gen_case(rng, pat, kind))
    # pick the operator fact for the downward half after looking at the natural join (structure only)
    for k, c in enumerate(cases):
        rng = random.Random(sub_seed(seed, "c09down", k))
        nv = len({v for vs in c["kb"]["nodes"][0]["ops"] for v in vs[1]})
        sig = [rng.randrange(c["n_consts"]) for _ in range(nv)]
        lo, hi = fol.rand_bounds(rng, 0.3)
        c["op_fact"] = (sig, lo, hi)
    # downward as the FIRST call on a connective whose world default says something (AXIOM / CLOSED), and facts arriving
    # between upward and downward: every operand pattern with identical variable tuples (the join-free path) and a sample of
    # the others
    homog = [p for p in two if p[0] == p[1]]
    k0 = len(cases)
    for j, pat in enumerate(homog * 4 + rng0.sample([p for p in two if p[0] != p[1]], 24)):
        rng = random.Random(sub_seed(seed, "c09df", j))
        c = gen_case(rng, pat, rng.choice(["and", "or", "implies"]))
        c["kb"]["nodes"][0]["world"] = "axiom" if j % 2 == 0 else "closed"
        c["variant"] = "downfirst" if (j // 2) % 2 == 0 else "late"
        if c["variant"] == "late":
            # the facts that mention the last constant arrive late
            last = c["n_consts"] - 1
            c["late"] = [f for f in c["facts"] if last in f[1]]
            c["facts"] = [f for f in c["facts"] if last not in f[1]]
        cases.append(c)
    recs, first_dis = streams.run_fol_stream(rep, "fol-join", cases, {"tables", "reported"}, fn="run_c09")
    njs = 0
    for r in recs:
        if "crash" in r:
            continue
        nj = natural_join(dict(r["prog"], facts=list(r["prog"]["facts"]) + list(r["prog"].get("late", []))), r["meta"])
        njs += len(nj)
        pat = [tuple(v[1]) for v in r["prog"]["kb"]["nodes"][0]["ops"]]
        rep.count_case(streams.canon(r["prog"]), len(nj) >= 2 and len(set(pat)) > 1)
        bad = oracle(r)
        if bad:
            rep.violation("join-evaluation", bad, {"program": streams.ser(r["prog"]), "failure": bad, "protocol": r["lines"], "impl": r["impl"]})
        rep.sample({"pattern": [list(p) for p in pat], "facts": len(r["prog"]["facts"])}, limit=2)
    rep.extra["natural_join_groundings_checked"] = njs
    rep.cov["rule"] = ("one connective over predicates, variable-sharing patterns enumerated systematically, random dyadic fact tables over 2-3 "
                       "constants; the natural join of the asserted operand facts is computed independently; after upward() each of its tuples "
                       "must be present with exactly the truth function of the facts; then one operator row is asserted and downward() must "
                       "tighten each projected operand row at least as the inverse prescribes and leave independent rows alone; tables compared "
                       "with the Lean model; non-trivial = >= 2 join tuples and operands with different variable tuples")
    if first_dis is not None and not rep.violations:
        rep.extra["first_disagreement"] = {"program": streams.ser(first_dis["prog"]), "at": first_dis["disagreements"][:3]}


def replay(obj):
    import engine
    case = streams.fix_prog(obj["replay"]["program"])
    case["facts"] = [tuple(f) for f in case["facts"]]
    case["op_fact"] = tuple(case["op_fact"]) if case.get("op_fact") else None
    if case.get("late"):
        case["late"] = [tuple(f) for f in case["late"]]
    rec = engine.run_cases("fol", "run_c09", [case], jobs=1)[0]
    rec["prog"] = case
    bad = oracle(rec)
    print("REPRODUCED" if bad else "not reproduced", bad)
    return 1 if bad else 0
