"""helpers for checks on first-order programs"""
import fol
import streams


def worlds_of(rec):
    """world default of every node, as the implementation holds it (read back into the `fnode` lines; this covers the
    inner quantifiers a multi-variable quantifier is expanded into, which inherit the outer world). `fworld` lines
    change it during the program: those nodes are dropped (a new row of theirs is then only accepted if unknown)."""
    from common import parse_q
    w = {}
    changed = set()
    for line in rec["lines"]:
        if line.startswith("fnode "):
            t = line.split()
            wl = [x for x in t if x.startswith("world=")][0][6:].split(",")
            w[int(t[1])] = (parse_q(wl[0]), parse_q(wl[1]))
        elif line.startswith("fworld "):
            changed.add(int(line.split()[1]))
    for i in changed:
        w.pop(i, None)
    return w


def tabs_of(rec, upto=None):
    """[(line_no, preceding op line, returned text, {id: {g: (lo,hi)}})]"""
    res = []
    n = len(rec["lines"]) if upto is None else min(upto, len(rec["lines"]))
    last = ("", "")
    for k in range(n):
        line = rec["lines"][k]
        if line.startswith("ftab "):
            res.append((k, last[0], last[1], fol.parse_tab(rec["impl"][k])))
        elif line.startswith(("fup", "fdown", "fpass", "finfer", "fact", "fresetb", "fflush", "sadd", "fworld")):
            last = (line, rec["impl"][k])
    return res


def amount_of(out):
    return out.split()[2] if out.startswith("n ") else out.split()[1]


def is_inference(op):
    return op.startswith(("fup", "fdown", "fpass", "finfer"))


def moved(before, after, worlds):
    """did any bound move, reading an absent row as its world default?"""
    for i, rows in after.items():
        for g, b in rows.items():
            old = before.get(i, {}).get(g)
            if old is None:
                w = worlds.get(i)
                if w is None or b != w:
                    # a generated inner quantifier has no entry in `worlds`: any new row counts only if it differs from unknown
                    if w is None and b == fol.WORLDS["open"]:
                        continue
                    return (i, g, None, b)
            elif old != b:
                return (i, g, old, b)
    return None


def monotone(before, after):
    for i, rows in before.items():
        for g, (lo, hi) in rows.items():
            if g not in after.get(i, {}):
                return {"problem": "a grounding disappeared", "formula": i, "grounding": g}
            lo2, hi2 = after[i][g]
            if lo2 < lo or hi2 > hi:
                return {"problem": "a bound was loosened", "formula": i, "grounding": g, "before": [str(lo), str(hi)],
                        "after": [str(lo2), str(hi2)]}
    return None
