"""C02 — first-order inference is justified by the ground instances."""
import random
from fractions import Fraction as Fr

import fol
import streams
from common import parse_q, sub_seed, size

THEOREMS = ["LNN.C02_sound",
            "LNN.C02_sound_call",
            "LNN.C02_sound_infer",
            "LNN.C02_arity",
            "LNN.C02_no_contradiction",
            "LNN.C02_no_model_contradiction",
            "LNN.C02_no_model_contradiction_infer",
            "LNN.C02_no_leak",
            "LNN.C02_no_leak_reads",
            # never tighter than exhaustive propagation over the ground instances (Lemmas/FolTight.lean)
            "LNN.C02_never_tighter_call",
            "LNN.C02_never_tighter",
            "LNN.C02_never_tighter_infer",
            "LNN.C02_never_tighter_executed",
            "LNN.C02_closed_iff_ground",
            "LNN.C02_never_tighter_than_ground_fixpoint",
            "LNN.C02_point_is_closed"]
MODULES = ["LnnVerif.Props.C02", "LnnVerif.Props.C02Tight"]


def oracle(rec):
    m = rec["meta"]
    if rec["safe_upto"] < len(rec["lines"]) or m["errors"]:
        return None if not m["errors"] else {"exception": m["errors"]}
    last = next((o for l, o in reversed(list(zip(rec["lines"], rec["impl"]))) if l.startswith("ftab ")), None)
    tabs = fol.parse_tab(last)
    contra = rec["impl"][-1] == "c 1"
    if contra and not m["ground_contra"]:
        return {"problem": "the ground theory is consistent but first-order inference reports a contradiction"}
    # with a contradictory ground theory only the ground instances that are NOT connected to a contradiction are compared
    # (run_c02 leaves the others out of meta['ground'])
    for i, rows in tabs.items():
        for g, (lo, hi) in rows.items():
            gb = m["ground"].get(f"{i}:{g}")
            if gb is None:
                continue
            glo, ghi = parse_q(gb[0]), parse_q(gb[1])
            if lo > glo or hi < ghi:
                return {"problem": "a first-order bound is tighter than exhaustive propagation over the ground instances",
                        "formula": i, "grounding": g, "first_order": [str(lo), str(hi)], "ground": [str(glo), str(ghi)]}
    return None


def run(rep, tier, seed):
    n = size(tier, 100, 2000)
    cases = [fol.gen_c02_case(random.Random(sub_seed(seed, "c02", k)), interp=(k % 3 != 2)) for k in range(n)]
    # facts arriving between two inference calls for rows the join had materialised at a CLOSED default
    cases += [fol.gen_c02_late_case(random.Random(sub_seed(seed, "c02late", k))) for k in range(12)]
    recs, first_dis = streams.run_fol_stream(rep, "fol-qf", cases, {"tables", "reported", "contra"}, fn="run_c02")
    eq = looser = 0
    for r in recs:
        if "crash" in r:
            continue
        tabs = fol.parse_tab(next((o for l, o in reversed(list(zip(r["lines"], r["impl"]))) if l.startswith("ftab ")), "t"))
        nrows = sum(len(v) for v in tabs.values())
        hetero = any(len({tuple(v) for _, v in n["ops"] if v is not None}) > 1 for n in r["prog"]["kb"]["nodes"])
        rep.count_case(streams.canon(r["prog"]), nrows >= 4 and hetero and not r["meta"]["ground_contra"])
        if True:
            for i, rows in tabs.items():
                for g, (lo, hi) in rows.items():
                    gb = r["meta"]["ground"].get(f"{i}:{g}")
                    if gb:
                        if [str(lo), str(hi)] == [str(parse_q(gb[0])), str(parse_q(gb[1]))]:
                            eq += 1
                        else:
                            looser += 1
        bad = oracle(r)
        if bad:
            rep.violation("ground-justification", bad, {"program": streams.ser(r["prog"]), "failure": bad,
                                                        "protocol": r["lines"], "impl": r["impl"]})
        rep.sample({"kb": streams.ser(r["prog"]["kb"]), "n_consts": r["prog"]["n_consts"]}, limit=2)
    rep.extra.update({"rows_equal_to_ground_fixpoint": eq, "rows_looser_than_ground_fixpoint": looser,
                      "ground_contradictory_cases": sum(1 for r in recs if "crash" not in r and r["meta"]["ground_contra"])})
    rep.cov["rule"] = ("quantifier-free first-order KBs (predicates of arity 1-2 under all worlds, 1-3 connectives with equal / overlapping / "
                       "disjoint / permuted variables, weights, Not) over 2-3 constants; the same theory is instantiated at every tuple as a "
                       "propositional KB inside the implementation and propagated to convergence; every stored first-order bound must contain "
                       "the ground fixpoint's (never tighter), a consistent ground theory must not yield a first-order contradiction; tables also "
                       "compared with the Lean model; non-trivial = >= 4 rows, heterogeneous variable pattern, consistent ground theory")
    if first_dis is not None and not rep.violations:
        rep.extra["first_disagreement"] = {"program": streams.ser(first_dis["prog"]), "at": first_dis["disagreements"][:3]}


def replay(obj):
    import engine
    prog = streams.fix_prog(obj["replay"]["program"])
    prog["facts"] = [tuple(f) for f in prog["facts"]]
    if prog.get("late_facts"):
        prog["late_facts"] = [tuple(f) for f in prog["late_facts"]]
    rec = engine.run_cases("fol", "run_c02", [prog], jobs=1)[0]
    rec["safe_upto"] = len(rec["lines"])
    bad = oracle(rec)
    print("REPRODUCED" if bad else "not reproduced", bad)
    return 1 if bad else 0
