"""C07 — the inferred fixpoint does not depend on traversal or insertion order."""
import random
from fractions import Fraction as Fr

import engine
import prop
import streams
from common import sub_seed, size

THEOREMS = ["LNN.C07_confluent",
            "LNN.C07_contradiction_invariant",
            "LNN.C07_contradiction_iff",
            "LNN.C07_run_le_fixpoint",
            "LNN.C07_infer_vs_schedule",
            "LNN.C07_infer_vs_infer"]
MODULES = ["LnnVerif.Props.C07"]
FACETS = {"bounds", "contra", "reported"}


def gen_case(seed, k, mode):
    rng = random.Random(sub_seed(seed, "c07", k))
    kb = prop.gen_kb(rng, n_conn=(2, 6))
    case = {"kb": kb, "seed": rng.randrange(1 << 30), "n_schedules": 3}
    if mode == "interp":
        case["interp_atoms"] = {n["id"]: Fr(rng.randint(0, 8), 8) for n in kb["nodes"] if n["kind"] == "atom"}
        case["data_seed"] = rng.randrange(1 << 30)
    else:
        data = []
        for n in kb["nodes"]:
            if rng.random() < (0.8 if n["kind"] == "atom" else 0.3):
                lo, hi = prop.grid_bounds_any(rng, crossed_p=0.05)
                data.append((n["id"], lo, hi))
        case["data"] = data
    return case


def mixed_alpha(case):
    alphas = {str(n.get("alpha", Fr(1))) for n in case["kb"]["nodes"]}
    return len(alphas) > 1


def contra_under(alpha, lo, hi):
    """is_contradiction of a formula with threshold alpha: crossed, and not inside one classical region"""
    return lo > hi and not (lo >= alpha and hi >= alpha) and not (lo <= 1 - alpha and hi <= 1 - alpha)


def tolerated_crossing(rec):
    """the signature of D16 (silent arrest): some order ends with a formula whose bounds are crossed but tolerated under its OWN
    alpha, while the knowledge base contains a formula with a larger alpha under which the same bounds ARE a contradiction
    (its operators re-check their operands under their own alpha and stop without anything being reported)"""
    nodes = rec["prog"]["kb"]["nodes"]
    alpha = {n["id"]: Fr(n.get("alpha", 1)) for n in nodes}
    alphas = set(alpha.values())
    ids = rec["meta"]["ids"]
    for v in rec["meta"]["variants"]:
        for i, (lo, hi) in zip(ids, streams.parse_dump(v["final"])):
            if lo > hi and i in alpha and not contra_under(alpha[i], lo, hi):
                if any(a > alpha[i] and contra_under(a, lo, hi) for a in alphas):
                    return True
    return False


def oracle(rec):
    vs = rec["meta"]["variants"]
    if rec["safe_upto"] < len(rec["lines"]):
        return None          # some value left the exactly representable range: not judged
    contras = {v["contra"] for v in vs}
    # model_reproduces: the Lean model (which has the per-formula alpha and the silent arrest) computes exactly what the
    # implementation computed in every variant of this case, i.e. the order dependence is the listed one and not a new one
    flags = {"mixed_alpha": mixed_alpha(rec["prog"]), "tolerated_crossing": tolerated_crossing(rec),
             "model_reproduces": bool(rec.get("model_agrees"))}
    if len(contras) > 1:
        return dict(flags, problem="whether a contradiction is found depends on the order",
                    variants=[(v["kind"], v["roots"], v["contra"]) for v in vs])
    if vs[0]["contra"] == "c 0":
        finals = {v["final"] for v in vs}
        if len(finals) > 1:
            return dict(flags, problem="fixpoint depends on the order", variants=[(v["kind"], v["roots"], v["final"]) for v in vs])
    return None


def run(rep, tier, seed):
    # known finding D16 (mixed alpha): replay its witness; it is suppressed only while the witness still fails
    import json, os
    from common import VERIF
    wcase = streams.fix_prog(json.load(open(os.path.join(VERIF, "corpus/C07/known_d16_mixed_alpha.json")))["case"])
    if "data" in wcase:
        wcase["data"] = [tuple(d) for d in wcase["data"]]
    wrec = engine.run_cases("prop", "run_c07", [wcase], jobs=1)[0]
    if "crash" not in wrec:
        wrec["prog"] = wcase
        engine.model_outputs([wrec])
        wdis, wsafe, _ = engine.compare_record(wrec, FACETS)
        wrec["safe_upto"] = len(wrec["lines"])
        wrec["model_agrees"] = not wdis
        wbad = oracle(wrec)
        rep.extra["known_finding_D16_witness_reproduces"] = bool(wbad)
        if wbad and wbad.get("mixed_alpha") and wbad.get("tolerated_crossing") and wbad.get("model_reproduces"):
            rep.enable_known("D16")
    n = size(tier, 120, 2500)
    cases = [gen_case(seed, k, "interp") for k in range(n // 2)] + [gen_case(seed, k + 10 ** 6, "given") for k in range(n - n // 2)]
    # loops that gain one small dyadic step per sweep (17-33 sweeps on 6-8 formulae): the fixpoint is far away, and every order
    # has to reach it
    for k in range(4):
        cp = streams.gen_creep_program(seed, k)
        cases.insert(0, {"kb": cp["kb"], "data": cp["data"], "seed": 1000 + k, "n_schedules": 2})
    # a step that raises a lower bound and lowers the upper bound of the same formula by the same amount, alone in its sweep
    # (Not(A) = 1/2 pushes A from [1/4,3/4] to [1/2,1/2] downward; And(A, C) already holds what the old A gave it): a sweep
    # whose only change this is must still count as a change, or infer() stops before And(A, C) has seen the new A while
    # every node-level schedule goes on (kept deterministic: detection of S04/S05 must not depend on the seed)
    for act in ("lukt", "luk"):
        cases.insert(0, {"kb": {"nodes": [{"id": 0, "kind": "atom"}, {"id": 1, "kind": "atom"}, {"id": 2, "kind": "not", "ops": [0]},
                                          {"id": 3, "kind": "and", "ops": [0, 1], "act": act}], "roots": [2, 3]},
                         "data": [(0, Fr(1, 4), Fr(3, 4)), (1, Fr(1), Fr(1)), (2, Fr(1, 2), Fr(1, 2)), (3, Fr(1, 4), Fr(3, 4))],
                         "seed": 77, "n_schedules": 2})
    recs = engine.run_cases("prop", "run_c07", cases, chunksize=2)
    for r, c in zip(recs, cases):
        r["prog"] = c
    engine.model_outputs([r for r in recs if "lines" in r])
    ndis = ncmp = nskip = 0
    first = None
    for r in recs:
        if "crash" in r:
            rep.bump("harness_crashes")
            rep.extra.setdefault("first_crash", r["crash"])
            continue
        dis, safe, nc = engine.compare_record(r, FACETS)
        r["safe_upto"] = safe
        ncmp += nc
        nskip += safe < len(r["lines"])
        if dis:
            ndis += 1
            first = first or (r, dis)
        vs = r["meta"]["variants"]
        multi = vs[0].get("steps", 0) >= 3 and len({tuple(v["roots"]) for v in vs}) >= 1
        rep.count_case(streams.canon(r["prog"]), multi and safe == len(r["lines"]))
        r["model_agrees"] = not dis
        bad = oracle(r)
        if bad:
            rep.violation("order-dependence", bad, {"case": streams.ser(r["prog"]), "failure": bad, "data": r["meta"]["data"]})
        rep.sample({"kb": streams.ser(r["prog"]["kb"]), "variants": [(v["kind"], v.get("steps", v.get("rounds"))) for v in vs]}, limit=2)
    rep.obligation("correspondence:prop-orders", ndis == 0, f"{len(recs)} KBs x 5 orders, {ncmp} lines compared, {ndis} disagree")
    rep.extra.update({"prop-orders_cases": len(recs), "prop-orders_precision_skipped": nskip})
    rep.cov["rule"] = ("each random weighted KB (dyadic data, consistent and arbitrary) is run with infer(), with infer() after permuting "
                       "add_knowledge/add_data order, and with 3 random fair node-level schedules until a full round changes nothing "
                       "(judged by snapshots); all five runs are also replayed in the Lean model; non-trivial = infer needed >= 3 sweeps "
                       "and every value stayed exactly representable")
    if first and not rep.violations:
        rep.extra["first_disagreement"] = {"case": streams.ser(first[0]["prog"]), "at": first[1][:3]}


def replay(obj):
    case = streams.fix_prog(obj["replay"]["case"])
    case["kb"]["nodes"] = [dict(n) for n in case["kb"]["nodes"]]
    rec = engine.run_cases("prop", "run_c07", [case], jobs=1)[0]
    rec["safe_upto"] = len(rec["lines"])
    bad = oracle(rec)
    print("REPRODUCED" if bad else "not reproduced", bad)
    return 1 if bad else 0
