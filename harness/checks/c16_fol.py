"""first-order part of C16: reset_bounds() + infer() reproduces the first run exactly (bounds of every grounding;
the number of sweeps is deliberately not compared: a second run legitimately needs fewer, rows already exist)."""
import random

import engine
import streams
from checks._folcommon import tabs_of, worlds_of
from common import sub_seed, size, parse_q


def reset_oracle(rec):
    """right after reset_bounds() nothing an earlier pass proved may be left: every stored row reads its asserted fact, or
    its formula's world default if it was never asserted"""
    import fol
    w = worlds_of(rec)
    asserted = {}
    flushed = set()
    for k, line in enumerate(rec["lines"]):
        if line.startswith("fact "):
            t = line.split()
            asserted[(int(t[1]), t[2])] = (parse_q(t[3]), parse_q(t[4]))
            flushed.discard((int(t[1]), t[2]))
        elif line == "fflush":
            # flush() stores UNKNOWN as the data of every row that exists at this moment; rows created later read their
            # world default as before
            tabs = fol.parse_tab(rec["impl"][k + 1]) if k + 1 < len(rec["lines"]) and rec["lines"][k + 1].startswith("ftab ") else {}
            asserted = {}
            flushed = {(i, g) for i, rows in tabs.items() for g in rows}
        elif line.startswith("fresetb") and k + 1 < len(rec["lines"]) and rec["lines"][k + 1].startswith("ftab "):
            tabs = fol.parse_tab(rec["impl"][k + 1])
            for i, rows in tabs.items():
                for g, b in rows.items():
                    want = asserted.get((i, g), (0, 1) if (i, g) in flushed else w.get(i))
                    if want is not None and b != want:
                        return {"problem": "a bound proved by an earlier pass survived reset_bounds()", "formula": i, "grounding": g,
                                "after_reset": list(map(str, b)), "data_or_world_default": list(map(str, want)),
                                "contradictory_data": False, "quantified": False, "reset_trace": True}
    return None


def oracle(rec):
    if rec.get("safe_upto", len(rec["lines"])) < len(rec["lines"]):
        return None
    bad = reset_oracle(rec)
    if bad:
        return bad
    for line, o in zip(rec["lines"], rec["impl"]):
        if line.startswith("fget ") and o and "CREATED-ROW" in o:
            return {"problem": "a query left a trace: get_data/state of a grounding created a row in the formula's table", "query": line,
                    "contradictory_data": False, "quantified": False, "query_trace": True}
    ts = [t for t in tabs_of(rec) if t[1].startswith("finfer")]
    if len(ts) < 2:
        return None
    # episode programs (flush + new data in between) end with two reset_bounds()+infer() pairs on the same data
    first, last = (ts[-2][3] if rec["prog"].get("episode") else ts[0][3]), ts[-1][3]
    repro = not rec.get("disagreements")          # the Lean model computes exactly what the implementation computed on this program
    contra = any(o == "c 1" for o in rec["impl"] if o)
    fg = any(n.get("fully_grounded") for n in rec["prog"]["kb"]["nodes"])
    qd = any(n["kind"] in ("forall", "exists") for n in rec["prog"]["kb"]["nodes"])
    for i, rows in first.items():
        for g, b in rows.items():
            b2 = last.get(i, {}).get(g)
            if b2 != b:
                return {"problem": "bounds after reset_bounds()+infer() differ from the first run", "formula": i, "grounding": g,
                        "first": list(map(str, b)), "again": None if b2 is None else list(map(str, b2)), "contradictory_data": contra, "fully_grounded": fg, "quantified": qd, "model_reproduces": repro}
    for i, rows in last.items():
        for g, b in rows.items():
            if g not in first.get(i, {}):
                return {"problem": "second run has a grounding the first run did not have", "formula": i, "grounding": g,
                        "contradictory_data": contra, "fully_grounded": fg, "quantified": qd, "model_reproduces": repro}
    if rec["meta"]["errors"]:
        return {"exception": rec["meta"]["errors"]}
    return None


def run(rep, tier, seed):
    # known finding D11: replay its witness first; it is suppressed only while the witness still fails
    import json, os, shrink
    from common import VERIF
    w = streams.fix_prog(json.load(open(os.path.join(VERIF, "corpus/C16/known_d11_contradictory_rerun.json")))["program"])
    w["facts"] = [tuple(f) for f in w["facts"]]
    wrec = shrink.run_one("fol", "run_fol_program", w)
    if "crash" not in wrec:
        engine.model_outputs([wrec])
        wrec["disagreements"] = engine.compare_record(wrec, {"tables", "reported"})[0]
    wbad = None if "crash" in wrec else oracle(wrec)
    rep.extra["known_finding_D11_witness_reproduces"] = bool(wbad)
    if wbad and wbad.get("contradictory_data") and wbad.get("model_reproduces"):
        rep.enable_known("D11")
    w = streams.fix_prog(json.load(open(os.path.join(VERIF, "corpus/C16/known_d14_fully_grounded_growth.json")))["program"])
    w["facts"] = [tuple(f) for f in w["facts"]]
    wrec = shrink.run_one("fol", "run_fol_program", w)
    if "crash" not in wrec:
        engine.model_outputs([wrec])
        wrec["disagreements"] = engine.compare_record(wrec, {"tables", "reported"})[0]
    wbad = None if "crash" in wrec else oracle(wrec)
    rep.extra["known_finding_D14_witness_reproduces"] = bool(wbad)
    if wbad and wbad.get("quantified") and not wbad.get("contradictory_data") and wbad.get("model_reproduces"):
        rep.enable_known("D14")
    # corpus: minimised past failures (everything in corpus/C16 that is not a known-finding witness) run first
    cprogs = []
    for fn in sorted(os.listdir(os.path.join(VERIF, "corpus/C16"))):
        if fn.endswith(".json") and not fn.startswith("known_"):
            cp = streams.fix_prog(json.load(open(os.path.join(VERIF, "corpus/C16", fn)))["program"])
            cp["facts"] = [tuple(f) for f in cp["facts"]]
            cprogs.append(cp)
    n = size(tier, 80, 1500)
    for name, quant, par in (("fol-qf", False, True), ("quant", True, True), ("qparent", True, 1.0)):
        # half of the quantifier-free programs are the plain infer / reset_bounds / infer sequence on small closed/axiom-world KBs
        progs = [streams.gen_fol_program(seed + 41, k, quant=quant, n_ops=(0, 6) if (quant or k % 2) else (0, 0), parents=par)
                 for k in range((n if quant else 2 * n) if par is True else n // 2)]
        for k, p in enumerate(progs):
            rng = random.Random(sub_seed(seed, "c16f", k))
            mid = list(p["ops"])
            if rng.random() < 0.5:
                mid.insert(rng.randint(0, len(mid)), ("print",))
            for _ in range(rng.choice([0, 1, 2])):
                # state / bounds queries between the runs, also of constants the formula has never seen
                pd = rng.choice(p["kb"]["preds"])
                g = [rng.choice([p["n_consts"], rng.randrange(p["n_consts"])]) for _ in range(pd["arity"])]
                mid.insert(rng.randint(0, len(mid)), ("get", pd["id"], g))
            p["ops"] = [("infer", 60)] + mid + [("resetb",), ("infer", 60)]
            if k % 4 == 3:
                # a model re-used for a second episode: flush(), new data for the same individuals, inference, revision
                # of some of the new data, then the usual reset_bounds() + infer() pair. Nothing the second episode's
                # inference proved may be taken for data by reset_bounds().
                ep = [("flush",)]
                for f in p["facts"]:
                    if rng.random() < 0.7:
                        ep.append(("fact", f[0], f[1], f[2], f[3]))
                ep.append(("infer", 60))
                for f in p["facts"]:
                    if rng.random() < 0.4:
                        ep.append(("fact", f[0], f[1], 0, 1))
                p["ops"] = [("infer", 60)] + mid + ep + [("resetb",), ("infer", 60), ("resetb",), ("infer", 60)]
                p["episode"] = True
        if not quant:
            progs = cprogs + progs
        recs, first = streams.run_fol_stream(rep, name, progs, {"tables", "reported"})
        for r in recs:
            if "crash" in r:
                continue
            rep.count_case(streams.canon(r["prog"]), True)
            bad = oracle(r)
            if bad:
                rep.violation("fol-history-dependence", bad, {"program": streams.ser(r["prog"]), "failure": bad,
                                                              "protocol": r["lines"], "impl": r["impl"]})
        if first is not None and not rep.violations:
            rep.extra.setdefault("first_disagreement_" + name, {"program": streams.ser(first["prog"]), "at": first["disagreements"][:3]})
