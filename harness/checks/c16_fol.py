"""first-order part of C16 (filled in when the fol stream exists)"""


def run(rep, tier, seed):
    return
