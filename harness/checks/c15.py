"""C15 — asserted data is stored, returned and validated faithfully."""
import random

import engine
import fol
import streams
from common import sub_seed, size

THEOREMS = ["LNN.C15_get_after_add",
            "LNN.C15_add_other_untouched",
            "LNN.C15_add_overwrites",
            "LNN.C15_reset_returns_data",
            "LNN.C15_accept_iff",
            "LNN.C15_reject",
            "LNN.C15_toBounds_ok_iff",
            "LNN.C15_add_keys",
            "LNN.C15_leaf_after_add",
            "LNN.C15_inference_keeps_leaves",
            "LNN.C15_reset_after_inference",
            "LNN.C15_reset_returns_assertion",
            "LNN.C15_enc_fact",
            "LNN.C15_enc_bool",
            "LNN.C15_enc_float",
            "LNN.C15_enc_pair",
            "LNN.C15_reject_kind",
            "LNN.C15_reject_kind_entry",
            "LNN.C15_checked_spec",
            "LNN.C15_checked_spec_single",
            "LNN.C15_assertAll_rows",
            "LNN.C15_flush_reads"]
MODULES = ["LnnVerif.Props.C15"]
FACETS = {"tables", "errors", "bounds", "state", None}


def judge(j):
    if j["kind"] == "add":
        if not j["valid"]:
            if not j["res"].startswith("e "):
                return {"problem": "invalid data was accepted", "op": j["op"], "result": j["res"]}
            if j["before"] != j["after"]:
                return {"problem": "rejected add_data changed the formula's table", "op": j["op"], "before": j["before"], "after": j["after"]}
            return None
        if j["res"] != "ok":
            return {"problem": "valid data was rejected", "op": j["op"], "result": j["res"]}
        exp = dict(j["before"])
        for g, tok, b in j["entries"]:
            exp[g] = b          # later entries overwrite earlier ones
        if exp != j["after"]:
            return {"problem": "get_data does not return exactly the asserted bounds for exactly the asserted groundings",
                    "op": j["op"], "expected": exp, "got": j["after"]}
    elif j["kind"] == "add-foreign":
        if not j["res"].startswith("e "):
            return {"problem": "add_data on something that is not a formula of the model was accepted", "op": j["op"]}
    elif j["kind"] == "reset":
        for g, b in j["asserted"].items():
            if j["table"].get(g) != b:
                return {"problem": "reset_bounds() did not return to the asserted data", "formula": j["target"], "grounding": g,
                        "asserted": b, "got": j["table"].get(g)}
    return None


def run(rep, tier, seed):
    # known finding D20 (data on a PARTIALLY quantified formula): replay the witness; listed only while it reproduces.
    # The store programs below assert data on every other kind of formula, fully quantified ones included.
    w = engine.run_cases("fol", "run_partial_quant_data", [{}], jobs=1)[0]
    rep.extra["known_finding_D20_witness"] = w
    if "crash" not in w:
        lost = w["after_add"] == ["1/4", "3/4"] and w["after_reset"] != ["1/4", "3/4"]
        refused = isinstance(w["add_after_inference"], str)
        if lost or refused:
            rep.enable_known("D20")
            rep.violation("partial-quantifier-data", {"witness": w, "lost_after_reset": lost, "refused_after_inference": refused}, {"witness": w})
        if w["after_add"] != ["1/4", "3/4"]:
            rep.violation("store-add", {"problem": "get_data after add_data on a partially quantified formula", "witness": w}, {"witness": w})
    n = size(tier, 150, 3000)
    progs = [fol.gen_store_program(random.Random(sub_seed(seed, "store", k))) for k in range(n)]
    recs, first_dis = streams.run_fol_stream(rep, "store", progs, None, fn="run_store_program")
    kinds = {}
    for r in recs:
        if "crash" in r:
            continue
        js = r["meta"]["judgements"]
        adds = [j for j in js if j["kind"] == "add"]
        overwrite = any(sum(1 for a in adds if a["target"] == j["target"] and a["res"] == "ok") >= 2 for j in adds)
        rejected = any(j["res"].startswith("e ") for j in adds)
        rep.count_case(streams.canon(r["prog"]), overwrite or rejected)
        for j in js:
            if j["kind"] in ("add", "add-foreign"):
                kinds[j["res"]] = kinds.get(j["res"], 0) + 1
            bad = judge(j)
            if bad:
                rep.violation("store", bad, {"program": streams.ser(r["prog"]), "failure": bad, "protocol": r["lines"], "impl": r["impl"]})
                break
        if r["meta"]["errors"]:
            rep.violation("store-exception", {"errors": r["meta"]["errors"]}, {"program": streams.ser(r["prog"])})
        rep.sample({"ops": [str(o)[:120] for o in r["prog"]["ops"][:5]]}, limit=2)
    rep.extra["add_data_results"] = kinds
    rep.cov["rule"] = ("random sequences of Model.add_data (Fact / bool / float / pair encodings; malformed: out-of-range floats and pairs, "
                       "pairs of length 0/1/3, str/int/None/list values, dict for a propositional formula, non-dict for a first-order one, "
                       "formula not in the model, non-Formula key), flush, reset_bounds, get_data, state, reset_world and infer over "
                       "predicates of arity 1-2 under each world, a connective, a Not and a fully quantified formula; tables compared with "
                       "the Lean model after every op and judged by a model-independent oracle; non-trivial = an overwrite or a rejection")
    if first_dis is not None and not rep.violations:
        rep.extra["first_disagreement"] = {"program": streams.ser(first_dis["prog"]), "at": first_dis["disagreements"][:3]}


def replay(obj):
    import engine
    prog = streams.fix_prog(obj["replay"]["program"])
    prog["ops"] = [tuple(o) for o in prog["ops"]]
    rec = engine.run_cases("fol", "run_store_program", [prog], jobs=1)[0]
    bad = next((b for b in map(judge, rec["meta"]["judgements"]) if b), None)
    print("REPRODUCED" if bad else "not reproduced", bad)
    return 1 if bad else 0
