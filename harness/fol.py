"""First-order programs: KB builder/mirror, execution on the implementation, protocol emission,
generators."""
import random
from fractions import Fraction as Fr

from common import q

ONE, ZERO = Fr(1), Fr(0)
EPS = "1/10000000"
WORLDS = {"open": (ZERO, ONE), "closed": (ZERO, ZERO), "axiom": (ONE, ONE)}


def gtxt(g):
    """canonical text of a grounding given as tuple of constant numbers"""
    return ".".join(map(str, g)) if g else "-"


class FolKB:
    """description:
    {'preds': [{'id','name','arity','world'}],
     'nodes': [{'id','kind', 'ops': [[op_id, [var names] | None], ...], 'w','b','alpha','act','world',
                'qvars': [...], 'fully_grounded': bool}],
     'roots': [ids], 'root_world': {id: world}}
    An operand with a variable list is *called* (predicates must be); None passes the object."""

    def __init__(self, desc):
        import impl
        L = impl.lnn()
        self.L = L
        self.desc = desc
        self.obj, self.idof, self.order = {}, {}, []
        self.desync = []
        self.requested = {n["id"]: n for n in desc["nodes"] if n["kind"] in ("and", "or", "implies")}
        self.vars = {}
        wmap = {"open": L.World.OPEN, "closed": L.World.CLOSED, "axiom": L.World.AXIOM}
        acts = {"luk": L.NeuralActivation.Lukasiewicz, "lukt": L.NeuralActivation.LukasiewiczTransparent}
        for p in desc["preds"]:
            kw = {}
            if p.get("world", "open") != "open":
                kw["world"] = wmap[p["world"]]
            o = L.Predicate(p.get("name", f"P{p['id']}"), arity=p["arity"], **kw)
            self._reg(p["id"], o)
        for n in desc["nodes"]:
            ops = []
            for oid, vs in n["ops"]:
                o = self.obj[oid]
                ops.append(o(*[self.var(v) for v in vs]) if vs is not None else o)
            kw = {}
            act = {}
            if "act" in n:
                act["type"] = acts[n["act"]]
            if "alpha" in n:
                act["alpha"] = float(n["alpha"])
            if "b" in n:
                act["bias"] = float(n["b"])
            if "w" in n:
                act["weights"] = tuple(float(w) for w in n["w"])
            if act:
                kw["activation"] = act
            if n.get("world", "open") != "open":
                kw["world"] = wmap[n["world"]]
            k = n["kind"]
            if k == "not":
                o = L.Not(ops[0], **kw)
            elif k in ("and", "or", "implies"):
                o = {"and": L.And, "or": L.Or, "implies": L.Implies}[k](*ops, **kw)
            elif k in ("iff", "xor"):
                o = (L.Iff if k == "iff" else L.XOr)(*ops, **kw)
                # the generated inner formulae are ordinary members of the model: register them before the composite
                inner = [o.Imp1, o.Imp2] if k == "iff" else list(o.conjunctions) + list(o.negations) + [o.disjunction]
                base = 1000 + 50 * n["id"]
                for t, x in enumerate(inner):
                    self._reg(base + t, x)
            elif k in ("forall", "exists"):
                cls = L.Forall if k == "forall" else L.Exists
                if n.get("fully_grounded"):
                    kw["fully_grounded"] = True
                qv = [self.var(v) for v in n.get("qvars", [])]
                o = cls(*qv, ops[0], **kw)
            else:
                raise ValueError(k)
            self._reg(n["id"], o)
        # quantifiers over several variables create inner quantifier objects: register them too
        nid = max(self.obj) + 1
        for i in list(self.order):
            o = self.obj[i]
            while type(o).__name__ in ("Forall", "Exists") and id(o.operands[0]) not in self.idof:
                o = o.operands[0]
                self._reg(nid, o, before=i)
                nid += 1
        self.model = L.Model()
        for r in desc["roots"]:
            w = desc.get("root_world", {}).get(r, desc.get("root_world", {}).get(str(r)))
            if w:
                self.model.add_knowledge(self.obj[r], world=wmap[w])
            else:
                self.model.add_knowledge(self.obj[r])

    def var(self, name):
        if name not in self.vars:
            self.vars[name] = self.L.Variable(name)
        return self.vars[name]

    def _reg(self, i, o, before=None):
        self.obj[i] = o
        self.idof[id(o)] = i
        if before is None:
            self.order.append(i)
        else:
            self.order.insert(self.order.index(before), i)

    # ---------------------------------------------------------------- mirror
    def node_line(self, i):
        import impl
        o = self.obj[i]
        cn = type(o).__name__
        kind = {"Predicate": "pred", "Not": "not", "And": "and", "Or": "or", "Implies": "implies",
                "Forall": "forall", "Exists": "exists", "Iff": "and", "XOr": "and"}[cn]
        ops = [self.idof[id(x)] for x in o.operands]
        neuron = o.neuron
        alpha = impl.fr(neuron.alpha)
        if kind in ("and", "or", "implies"):
            ws = [Fr(float(w)) for w in neuron.weights.detach().tolist()]
            b = impl.fr(neuron.bias)
            t = 1 if type(neuron).__name__ == "LukasiewiczTransparent" else 0
            # requested parameters win over what the object holds (see impl.PropKB.node_line)
            req = self.requested.get(i, {})
            if cn in ("And", "Or", "Implies"):
                if "w" in req:
                    ws = [Fr(x) for x in req["w"]]
                if "b" in req:
                    b = Fr(req["b"])
                if "act" in req:
                    t = 1 if req["act"] == "lukt" else 0
                if "alpha" in req:
                    alpha = Fr(req["alpha"])
        else:
            ws, b, t = [Fr(1)] * len(ops), Fr(1), 1
        maps = "-"
        if kind in ("and", "or", "implies"):
            maps = ";".join(gtxt(m) if m else "-" for m in o.operand_map)
        w = tuple(Fr(float(x)) for x in o.world)
        free, fg, nested = "-", 0, 0
        if kind in ("forall", "exists"):
            free = gtxt(tuple(o.free_vars))
            fg = 1 if o.fully_grounded else 0
            nested = 1 if type(o.operands[0]).__name__ in ("Forall", "Exists") else 0
        prop = 1 if o.propositional else 0
        opss = ";".join(f"{j}:{q(x)}" for j, x in zip(ops, ws)) if ops else "-"
        return (f"fnode {i} {kind} a={q(alpha)} b={q(b)} t={t} ops={opss} maps={maps} world={q(w[0])},{q(w[1])} "
                f"free={free} fg={fg} nested={nested} prop={prop}")

    def header_lines(self):
        return ["reset"] + [self.node_line(i) for i in self.order]

    # constant k is named "n", "n_n", "n_n_n", ...: legal identifiers whose concatenations collide (('n','n_n') and
    # ('n_n','n') both flatten to 'n_n_n'), whose sorted order is the index order, and none of which is a prefix-free code:
    # anything that builds a key by joining names instead of using the tuple shows up
    @staticmethod
    def _name(k):
        return "_".join(["n"] * (int(k) + 1))

    def const_no(self, name):
        return name.count("n") - 1

    def table(self, i):
        """{grounding (tuple of constant numbers): (lo, hi)} as the public API shows it"""
        import impl
        o = self.obj[i]
        if o.propositional:
            return {(): impl.bounds_of(o)}
        res = {}
        quant = type(o).__name__ in ("Forall", "Exists")
        for g, row in o.grounding_table.items():
            key = tuple(self.const_no(c) for c in g)
            # what get_data()/state() return: the formula's own table. (For a quantifier with free variables the per-group
            # neurons hold a second copy; `desync` lists the rows where the two differ.)
            d = o.neuron.bounds_table[row].detach().reshape(-1).tolist()
            res[key] = (Fr(d[0]), Fr(d[1]))
            if quant and len(o.neurons) > row:
                d2 = o.neurons[row].get_data().detach().reshape(-1).tolist()
                if (Fr(d2[0]), Fr(d2[1])) != res[key]:
                    self.desync.append((i, key, res[key], (Fr(d2[0]), Fr(d2[1]))))
        return res

    def tab_line(self, ids=None):
        ids = ids or self.order
        return "ftab " + ",".join(map(str, ids))

    def tab_out(self, ids=None):
        ids = ids or self.order
        parts = []
        self.desync = []
        for i in ids:
            t = self.table(i)
            parts.append(f"{i}:" + ";".join(f"{gtxt(g)}={q(t[g][0])},{q(t[g][1])}" for g in sorted(t)))
        # (self.desync is informational only: after a parent formula has written to the table and before the quantifier's
        # next own pass the two copies legitimately differ; the table is what the public API shows)
        return "t " + " ".join(parts)

    def registered_ids(self):
        return [self.idof[id(o)] for o in self.model.nodes.values() if id(o) in self.idof]

    def expand(self, i, direction):
        """a public call on a composite formula (Iff / XOr) as the list of primitive node calls it performs"""
        o = self.obj[i]
        cn = type(o).__name__
        if cn == "Iff":
            inner = [self.idof[id(o.Imp1)], self.idof[id(o.Imp2)]]
            return inner + [i] if direction.startswith("up") else [i] + inner
        if cn == "XOr":
            cj = [self.idof[id(x)] for x in o.conjunctions]
            ng = [self.idof[id(x)] for x in o.negations]
            dj = [self.idof[id(o.disjunction)]]
            return cj + ng + dj + [i] if direction.startswith("up") else [i] + ng + cj + dj
        return [i]

    def calls(self, log, direction):
        top = [self.idof[e[2]] for e in log if e[0] == 0 and e[1] == direction and e[2] in self.idof]
        return [j for i in top for j in self.expand(i, direction)]

    def cname(self, g):
        names = tuple(self._name(k) for k in g)
        return names[0] if len(names) == 1 else names


def parse_tab(line):
    """'t 0:1.2=l,u;... 1:...' -> {id: {g: (lo,hi)}}"""
    res = {}
    for tok in line.split()[1:]:
        i, rest = tok.split(":", 1)
        if i == "DESYNC":
            continue
        rows = {}
        if rest:
            for r in rest.split(";"):
                g, b = r.split("=")
                lo, hi = b.split(",")
                rows[g] = (Fr(lo), Fr(hi))
        res[int(i)] = rows
    return res


# ------------------------------------------------------------------ execution

def run_fol_program(prog):
    """prog: {'kb': desc, 'facts': [(id, g, lo, hi)], 'ops': [...]}.
    ops: ('up', id) ('down', id, idx) ('passup',) ('passdown',) ('infer', max) ('fact', id, g, lo, hi)
         ('get', id, g) ('resetb',) ('flush',)"""
    import impl
    L = impl.lnn()
    impl.take_log()
    kb = FolKB(prog["kb"])
    lines = kb.header_lines()
    out = ["ok"] * len(lines)
    meta = {"ids": list(kb.order), "errors": [], "registered": sorted(kb.registered_ids()),
            "kinds": {i: type(kb.obj[i]).__name__ for i in kb.order}}
    meta["quant"] = {i: {"free": list(kb.obj[i].free_vars), "kind": type(kb.obj[i]).__name__.lower(),
                         "fg": bool(kb.obj[i].fully_grounded), "body": kb.idof[id(kb.obj[i].operands[0])],
                         "world": [q(Fr(float(x))) for x in kb.obj[i].world]}
                     for i in kb.order if type(kb.obj[i]).__name__ in ("Forall", "Exists")}
    ids = lambda l: ",".join(map(str, l)) if l else "-"

    def add_fact(i, g, lo, hi):
        o = kb.obj[i]
        if o.propositional:
            kb.model.add_data({o: (float(lo), float(hi))})
        else:
            kb.model.add_data({o: {kb.cname(g): (float(lo), float(hi))}})
        lines.append(f"fact {i} {gtxt(g)} {q(lo)} {q(hi)}")
        out.append("ok")

    order = list(prog["facts"])
    if prog.get("fact_shuffle_seed") is not None:
        random.Random(prog["fact_shuffle_seed"]).shuffle(order)
    for i, g, lo, hi in order:
        add_fact(i, tuple(g), lo, hi)

    def snap():
        t = kb.tab_out()
        c = "c %d" % (1 if kb.model.has_contradiction() else 0)
        lines.append(kb.tab_line())
        out.append(t)
        lines.append("fcontra " + ids(meta["registered"]))
        out.append(c)

    snap()
    for op in prog["ops"]:
        impl.take_log()
        try:
            if op[0] == "up":
                r = kb.obj[op[1]].upward()
                ex = kb.expand(op[1], "up")
                lines.append(f"fup {op[1]}" if len(ex) == 1 else f"fpass up {ids(ex)}")
                out.append("r " + q(impl.amount(r)))
            elif op[0] == "down":
                idx = op[2]
                o = kb.obj[op[1]]
                ex = kb.expand(op[1], "down")
                if len(ex) > 1:
                    idx = None          # composite: the expanded pass has no index restriction
                r = o.downward(index=idx) if idx is not None else o.downward()
                lines.append(f"fdown {op[1]} {'-' if idx is None else idx}" if len(ex) == 1 else f"fpass down {ids(ex)}")
                out.append("r " + q(impl.amount(r)))
            elif op[0] in ("upg", "downg"):
                # node-level call restricted to given groundings (honoured by join-free connectives only)
                o = kb.obj[op[1]]
                gs = [tuple(g) for g in op[-1]]
                names = {kb.cname(g) for g in gs}
                gtxts = ";".join(gtxt(g) for g in gs)
                if op[0] == "upg":
                    r = o.upward(groundings=names)
                    lines.append(f"fupg {op[1]} {gtxts}")
                else:
                    idx = op[2]
                    r = o.downward(index=idx, groundings=names) if idx is not None else o.downward(groundings=names)
                    lines.append(f"fdowng {op[1]} {'-' if idx is None else idx} {gtxts}")
                out.append("r " + q(impl.amount(r)))
            elif op[0] in ("passup", "passdown"):
                d = "up" if op[0] == "passup" else "down"
                steps, r = (kb.model.upward() if d == "up" else kb.model.downward())
                sched = kb.calls(impl.take_log(), d + "ward")
                lines.append(f"fpass {d} {ids(sched)}")
                out.append("r " + q(impl.amount(r)))
            elif op[0] == "infer":
                mx = op[1]
                steps, r = kb.model.infer(max_steps=mx)
                log = impl.take_log()
                ups, downs = kb.calls(log, "upward"), kb.calls(log, "downward")
                per_u, per_d = len(ups) // max(steps, 1), len(downs) // max(steps, 1)
                su, sd = ups[:per_u], downs[:per_d]
                if steps and (su * steps != ups or sd * steps != downs):
                    meta["errors"].append("sweeps-differ")
                lines.append(f"finfer {EPS} {mx} {ids(meta['registered'])} {ids(su)} {ids(sd)}")
                out.append(f"n {steps} {q(impl.amount(r))}")
            elif op[0] in ("infer_source", "infer_query"):
                # restricted inference: Model.infer(source=f) / set_query(f) + infer_query()
                mx = op[2]
                o = kb.obj[op[1]]
                if op[0] == "infer_source":
                    steps, r = kb.model.infer(source=o, max_steps=mx)
                else:
                    # set_query = add_knowledge(formula, world=OPEN): the query's stored rows are reset to UNKNOWN
                    kb.model.set_query(o)
                    lines.append(f"fworld {op[1]} 0,1")
                    out.append("ok")
                    steps, r = kb.model.infer_query(max_steps=mx)
                log = impl.take_log()
                ups, downs = kb.calls(log, "upward"), kb.calls(log, "downward")
                per_u, per_d = len(ups) // max(steps, 1), len(downs) // max(steps, 1)
                su, sd = ups[:per_u], downs[:per_d]
                if steps and (su * steps != ups or sd * steps != downs):
                    meta["errors"].append("sweeps-differ")
                meta.setdefault("restricted_calls", []).append(sorted(set(ups) | set(downs)))
                stops = op[0] == "infer_query" and bool(o.propositional) and not kb.model._converge
                if steps == 0:
                    su, sd = [], []
                lines.append(f"finfer {EPS} {mx} {ids(meta['registered'])} {ids(su)} {ids(sd)}" + (f" {op[1]}" if stops else ""))
                out.append(f"n {steps} {q(impl.amount(r))}")
            elif op[0] == "fact":
                add_fact(op[1], tuple(op[2]), op[3], op[4])
            elif op[0] == "get":
                o = kb.obj[op[1]]
                before = len(o.grounding_table) if not o.propositional else 0
                d = o.get_data(kb.cname(tuple(op[2]))).detach().reshape(-1).tolist()
                after = len(o.grounding_table) if not o.propositional else 0
                lines.append(f"fget {op[1]} {gtxt(tuple(op[2]))}")
                out.append(f"b {q(Fr(d[0]))},{q(Fr(d[1]))}" + ("" if before == after else " CREATED-ROW"))
            elif op[0] == "resetb":
                kb.model.reset_bounds()
                lines.append("fresetb")
                out.append("ok")
            elif op[0] == "flush":
                # Model.flush(): a model re-used for a second episode; every stored row's data and bounds become UNKNOWN
                kb.model.flush()
                lines.append("fflush")
                out.append("ok")
            elif op[0] == "print":
                import io, contextlib
                with contextlib.redirect_stdout(io.StringIO()):
                    kb.model.print()
                continue
            else:
                raise ValueError(op)
        except Exception as e:
            meta["errors"].append(f"{op}: {type(e).__name__}: {str(e)[:200]}")
            break
        try:
            snap()
        except Exception as e:
            # reading the tables through the public accessors failed after this call: a failure of the call, with the
            # program as its failing input
            meta["errors"].append(f"reading all tables after {op}: {type(e).__name__}: {str(e)[:200]}")
            break
    return {"lines": lines, "impl": out, "meta": meta}


# ------------------------------------------------------------------ generators

VARS = ["x", "y", "z"]


def grid(rng, den=8):
    return Fr(rng.randint(0, den), den)


def rand_bounds(rng, classical_p=0.5, crossed_p=0.0):
    r = rng.random()
    if r < classical_p:
        return rng.choice([(ONE, ONE), (ZERO, ZERO), (ONE, ONE), (ZERO, ONE)])
    a, b = grid(rng), grid(rng)
    lo, hi = min(a, b), max(a, b)
    if rng.random() < crossed_p and lo != hi:
        lo, hi = hi, lo
    return lo, hi


def gen_fol_kb(rng, n_preds=(2, 4), n_conn=(1, 3), max_arity=3, quant=False, worlds=True, weighted=True,
               nots=True, composites=True, parents=True):
    preds = []
    for i in range(rng.randint(*n_preds)):
        ar = rng.choice([1, 1, 2, 2, 3][: 3 + max_arity - 1]) if max_arity >= 3 else rng.randint(1, max_arity)
        w = rng.choice(["open", "open", "open", "closed", "axiom"]) if worlds else "open"
        preds.append({"id": i, "arity": ar, "world": w})
    nodes = []
    nid = len(preds)
    info = {p["id"]: ("pred", p["arity"], None) for p in preds}     # id -> (kind, arity, vars or None)
    roots = []
    for _ in range(rng.randint(*n_conn)):
        kind = rng.choice(["and", "or", "implies", "and", "or"] + (["not"] if nots else []))
        if composites and rng.random() < 0.12:
            kind = rng.choice(["iff", "xor"])
        ar = 1 if kind == "not" else 2 if kind in ("implies", "iff") else rng.choice([2, 2, 3])
        ops = []
        uvars = []
        for _ in range(ar):
            cands = list(info)
            oid = rng.choice(cands[-5:] if rng.random() < 0.6 else cands)
            k, a, vs = info[oid]
            if k == "pred":
                # mostly reuse variables already in play so that operands share variables
                pool = list(VARS)
                rng.shuffle(pool)
                if uvars and rng.random() < 0.75:
                    pool = sorted(pool, key=lambda v: (v not in uvars, rng.random()))
                chosen = pool[:a]
                if rng.random() < 0.5:
                    rng.shuffle(chosen)
                ops.append([oid, chosen])
                for v in chosen:
                    if v not in uvars:
                        uvars.append(v)
            else:
                ops.append([oid, None])
                for v in vs:
                    if v not in uvars:
                        uvars.append(v)
        n = {"id": nid, "kind": kind, "ops": ops}
        if kind in ("iff", "xor"):
            n["act"] = rng.choice(["lukt", "lukt", "luk"])
        elif kind != "not":
            n["act"] = rng.choice(["lukt", "lukt", "luk"])
            if weighted and rng.random() < 0.4:
                n["w"] = [rng.choice([Fr(1, 2), ONE, Fr(2), ONE]) for _ in range(ar)]
            if weighted and rng.random() < 0.3:
                n["b"] = rng.choice([ONE, Fr(1, 2), Fr(3, 2), ZERO])
            if worlds and rng.random() < 0.2:
                n["world"] = rng.choice(["closed", "axiom"])
        n["nvars"] = len(uvars)
        nodes.append(n)
        info[nid] = (kind, len(uvars), list(uvars))
        nid += 1
    used = {oid for n in nodes for oid, _ in n["ops"]}
    roots = [n["id"] for n in nodes if n["id"] not in used]
    roots += [p["id"] for p in preds if p["id"] not in used]
    desc = {"preds": preds, "nodes": nodes, "roots": roots}
    if quant:
        # quantify some roots (connective bodies, or unary predicates)
        new_roots = []
        for r in roots:
            k, a, vs = info[r]
            if k == "pred" and a != 1:
                new_roots.append(r)
                continue
            if rng.random() < 0.8:
                if k == "pred":
                    vs = ["x"]
                    body = [r, ["x"]]
                    qv = ["x"]
                else:
                    body = [r, None]
                    m = rng.randint(1, len(vs))
                    qv = rng.sample(vs, m) if rng.random() < 0.5 else list(vs)
                    if parents is True and len(vs) >= 2:
                        pass
                    elif parents and parents is not True and parents >= 1 and len(vs) >= 2:
                        qv = rng.sample(vs, rng.randint(1, len(vs) - 1))      # keep a free variable
                n = {"id": nid, "kind": rng.choice(["forall", "exists"]), "ops": [body], "qvars": qv}
                if rng.random() < 0.15:
                    n["fully_grounded"] = True
                if worlds and rng.random() < 0.25:
                    n["world"] = rng.choice(["axiom", "closed"])
                nodes.append(n)
                free_left = [] if k == "pred" else [v for v in vs if v not in qv]
                if free_left and rng.random() < (0.5 if parents is True or not parents else 0.15):
                    # quantify the remaining variables with the OTHER kind: Exists(x, Forall(y, ...)) etc.
                    nid += 1
                    qv2 = free_left if rng.random() < 0.7 else free_left[:1]
                    nodes.append({"id": nid, "kind": "exists" if n["kind"] == "forall" else "forall",
                                  "ops": [[nid - 1, None]], "qvars": qv2})
                    free_left = [v for v in free_left if v not in qv2]
                if free_left and parents and rng.random() < (0.5 if parents is True else parents):
                    # a formula with free variables used as a sub-formula: S(x) -> Forall(y, ...), Not(Exists(y, ...)), ...
                    qid = nid
                    nid += 1
                    pk = rng.choice(["implies", "implies", "and", "or", "not"])
                    if pk == "not":
                        pn = {"id": nid, "kind": "not", "ops": [[qid, None]]}
                        if worlds and rng.random() < 0.6:
                            pn["world"] = rng.choice(["axiom", "axiom", "closed"])
                    else:
                        pp = rng.choice(preds)
                        pool = list(free_left) + [v for v in VARS if v not in free_left]
                        if rng.random() < 0.3:
                            rng.shuffle(pool)
                        pops = [[pp["id"], pool[:pp["arity"]]], [qid, None]]
                        if rng.random() < 0.4:
                            pops.reverse()
                        pn = {"id": nid, "kind": pk, "ops": pops, "act": rng.choice(["lukt", "lukt", "luk"])}
                        if worlds and rng.random() < 0.5:
                            pn["world"] = rng.choice(["axiom", "axiom", "closed"])
                    nodes.append(pn)
                    if pk != "not" and rng.random() < 0.45:
                        # the same quantified sub-formula used by a SECOND formula: one parent proves a bound for a grounding,
                        # the other hands it new groundings before its own next pass
                        new_roots.append(nid)
                        nid += 1
                        pp2 = rng.choice(preds)
                        pool2 = list(free_left) + [v for v in VARS if v not in free_left]
                        rng.shuffle(pool2) if rng.random() < 0.3 else None
                        pops2 = [[pp2["id"], pool2[:pp2["arity"]]], [qid, None]]
                        if rng.random() < 0.5:
                            pops2.reverse()
                        pn2 = {"id": nid, "kind": rng.choice(["or", "and", "implies"]), "ops": pops2, "act": rng.choice(["lukt", "luk"])}
                        if worlds and rng.random() < 0.3:
                            pn2["world"] = rng.choice(["axiom", "closed"])
                        nodes.append(pn2)
                new_roots.append(nid)
                nid += 1
            else:
                new_roots.append(r)
        desc["roots"] = new_roots
    return desc


def gen_facts(rng, desc, n_consts=(2, 4), density=0.6, classical_p=0.5, crossed_p=0.0):
    nc = rng.randint(*n_consts)
    facts = []
    import itertools
    for p in desc["preds"]:
        # some predicates start with an empty table (everything about them is derived), some with a sparse one
        d = rng.choice([0.0, 0.25, density, density, density, density]) if len(desc["preds"]) > 1 else density
        for g in itertools.product(range(nc), repeat=p["arity"]):
            if rng.random() < d:
                lo, hi = rand_bounds(rng, classical_p, crossed_p)
                facts.append((p["id"], list(g), lo, hi))
    return facts, nc


def gen_fol_ops(rng, desc, n_ops=(2, 10), mid_facts=0.0, n_consts=4, restrict_p=0.0):
    """mid_facts: share of ops that assert a further fact between inference calls (data arriving over time: tables and
    quantifier groups then grow in an order that is not the sorted one)"""
    conn = [n["id"] for n in desc["nodes"]]
    ar = {n["id"]: len(n["ops"]) for n in desc["nodes"]}
    kinds = {n["id"]: n["kind"] for n in desc["nodes"]}
    nvars = {n["id"]: n.get("nvars") for n in desc["nodes"]}
    homog = [n["id"] for n in desc["nodes"] if n["kind"] in ("and", "or", "implies") and n.get("nvars")
             and len({tuple(vs) if vs is not None else None for _, vs in n["ops"]}) == 1
             and all(vs is not None for _, vs in n["ops"])]
    ops = []
    for _ in range(rng.randint(*n_ops)):
        r = rng.random()
        if mid_facts and rng.random() < mid_facts:
            p = rng.choice(desc["preds"])
            lo, hi = rand_bounds(rng, 0.5, 0.0)
            ops.append(("fact", p["id"], [rng.randrange(n_consts) for _ in range(p["arity"])], lo, hi))
            continue
        if r < 0.55 and conn:
            i = rng.choice(conn)
            restricted = None
            if restrict_p and homog and rng.random() < 0.6:
                i = rng.choice(homog)          # the restriction is honoured by join-free connectives: aim at them
            if restrict_p and kinds[i] in ("and", "or", "implies") and nvars.get(i) and rng.random() < restrict_p:
                # upward/downward(groundings={...}): one to three groundings, known or not
                restricted = []
                for _ in range(rng.randint(1, 3)):
                    g = [rng.randrange(n_consts + 1) for _ in range(nvars[i])]
                    if g not in restricted:
                        restricted.append(g)
            if rng.random() < 0.5:
                ops.append(("up", i) if restricted is None else ("upg", i, restricted))
            else:
                idx = None
                if kinds[i] in ("and", "or", "implies") and rng.random() < 0.25:
                    idx = rng.randrange(ar[i])
                ops.append(("down", i, idx) if restricted is None else ("downg", i, idx, restricted))
        elif r < 0.7:
            ops.append(("passup",))
        elif r < 0.85:
            ops.append(("passdown",))
        else:
            ops.append(("infer", rng.choice([1, 2, 20])))
    return ops


# ------------------------------------------------------------------ store programs (C14 / C15)

def val_token(v):
    """('F','TRUE') | ('B',1) | ('N',Fr) | ('T',[Fr..]) | ('O',kind) -> protocol token"""
    k = v[0]
    if k == "F":
        return "F:" + v[1]
    if k == "B":
        return "B:%d" % v[1]
    if k == "N":
        return "N:" + q(v[1])
    if k == "T":
        return "T:" + ",".join(q(x) for x in v[1])
    return "O"


def val_py(L, v):
    k = v[0]
    if k == "F":
        return getattr(L.Fact, v[1])
    if k == "B":
        return bool(v[1])
    if k == "N":
        return float(v[1])
    if k == "T":
        return tuple(float(x) for x in v[1])
    return {"str": "TRUE", "int": 1, "none": None, "list": [0.0, 1.0]}[v[1]]


def val_bounds(v):
    """the bounds a VALID value denotes (None if invalid), independent of the model"""
    k = v[0]
    if k == "F":
        return {"TRUE": (ONE, ONE), "FALSE": (ZERO, ZERO), "UNKNOWN": (ZERO, ONE), "CONTRADICTION": (ONE, ZERO)}[v[1]]
    if k == "B":
        return (ONE, ONE) if v[1] else (ZERO, ZERO)
    if k == "N":
        return (v[1], v[1]) if 0 <= v[1] <= 1 else None
    if k == "T":
        xs = v[1]
        return (xs[0], xs[1]) if len(xs) == 2 and all(0 <= x <= 1 for x in xs) else None
    return None


def run_store_program(prog):
    """ops: ('sadd', target, mode, payload) target = id | 'absent' | 'nonformula'; mode single|dict
            ('flush',) ('resetb',) ('get', id, g) ('state', id, g) ('infer', k) ('world', id, w)"""
    import impl
    L = impl.lnn()
    impl.take_log()
    kb = FolKB(prog["kb"])
    lines = kb.header_lines()
    out = ["ok"] * len(lines)
    meta = {"ids": list(kb.order), "errors": [], "registered": sorted(kb.registered_ids()), "judgements": []}
    ids = lambda l: ",".join(map(str, l)) if l else "-"
    absent = L.Predicate("Absent", arity=1)
    wmap = {"open": L.World.OPEN, "closed": L.World.CLOSED, "axiom": L.World.AXIOM}
    # what the harness knows independently of any model: asserted data and current world per formula
    asserted = {i: {} for i in kb.order}
    exempt = {i: set() for i in kb.order}
    world = {i: tuple(Fr(float(x)) for x in kb.obj[i].world) for i in kb.order}
    bq = lambda b: [q(b[0]), q(b[1])]

    def snap():
        lines.append(kb.tab_line())
        out.append(kb.tab_out())

    snap()
    for op in prog["ops"]:
        impl.take_log()
        try:
            if op[0] == "sadd":
                _, target, mode, payload = op
                if mode == "single":
                    arg = val_py(L, payload)
                    argtxt = val_token(payload)
                else:
                    arg = {kb.cname(tuple(g)): val_py(L, v) for g, v in payload}
                    argtxt = ";".join(f"{gtxt(tuple(g))}={val_token(v)}" for g, v in payload) or "-"
                if target == "absent":
                    key, idtxt = absent, "99"
                elif target == "nonformula":
                    key, idtxt = "P0", "-"
                else:
                    key, idtxt = kb.obj[target], str(target)
                before = kb.table(target) if isinstance(target, int) else None
                try:
                    kb.model.add_data({key: arg})
                    res = "ok"
                except Exception as e:
                    name = type(e).__name__
                    res = "e " + (name if name in ("TypeError", "IndexError", "Exception", "KeyError") else "Other:" + name)
                lines.append(f"sadd {idtxt} {mode} {argtxt}")
                out.append(res)
                if isinstance(target, int):
                    after = kb.table(target)
                    is_prop = bool(kb.obj[target].propositional)
                    entries = [((), payload)] if mode == "single" else [(tuple(g), v) for g, v in payload]
                    expected = [(gtxt(g), val_token(v), None if val_bounds(v) is None else bq(val_bounds(v))) for g, v in entries]
                    valid = all(e[2] is not None for e in expected) and ((mode == "single") == is_prop)
                    meta["judgements"].append({"kind": "add", "op": lines[-1], "res": res, "target": target, "valid": valid,
                                               "entries": expected,
                                               "before": {gtxt(g): bq(b) for g, b in before.items()},
                                               "after": {gtxt(g): bq(b) for g, b in after.items()}})
                    if res == "ok":
                        for g, v in entries:
                            if val_bounds(v) is not None:
                                asserted[target][g] = val_bounds(v)
                                exempt[target].discard(g)
                else:
                    meta["judgements"].append({"kind": "add-foreign", "op": lines[-1], "res": res, "target": target})
            elif op[0] == "flush":
                kb.model.flush()
                lines.append("fflush"); out.append("ok")
                for i in kb.order:
                    # flush() "sets all facts to UNKNOWN": what reset_bounds() returns to for the rows stored at this moment
                    # is not fixed by the properties (the data they had, or UNKNOWN): they are exempt from the C14/C15
                    # judgements until asserted again. The correspondence with the model pins the actual behaviour.
                    exempt[i] |= set(kb.table(i)) if not kb.obj[i].propositional else {()}
                    asserted[i] = {}
            elif op[0] == "resetb":
                kb.model.reset_bounds()
                lines.append("fresetb"); out.append("ok")
                for i in kb.order:
                    if type(kb.obj[i]).__name__ in ("Forall", "Exists") and not kb.obj[i].propositional:
                        continue
                    t = kb.table(i)
                    meta["judgements"].append({"kind": "reset", "target": i, "world": bq(world[i]),
                                               "asserted": {gtxt(g): bq(b) for g, b in asserted[i].items()},
                                               "exempt": sorted(gtxt(g) for g in exempt[i]),
                                               "table": {gtxt(g): bq(b) for g, b in t.items()}})
            elif op[0] == "get":
                o = kb.obj[op[1]]
                g = tuple(op[2])
                before = len(o.grounding_table) if not o.propositional else 0
                d = (o.get_data(kb.cname(g)) if g else o.get_data()).detach().reshape(-1).tolist()
                after = len(o.grounding_table) if not o.propositional else 0
                lines.append(f"fget {op[1]} {gtxt(g)}")
                out.append(f"b {q(Fr(d[0]))},{q(Fr(d[1]))}" + ("" if before == after else " CREATED-ROW"))
                meta["judgements"].append({"kind": "get", "target": op[1], "g": gtxt(g), "got": [q(Fr(d[0])), q(Fr(d[1]))],
                                           "created": before != after, "world": bq(world[op[1]]),
                                           "known": (g in kb.table(op[1])) if g else True})
            elif op[0] == "state":
                o = kb.obj[op[1]]
                g = tuple(op[2])
                try:
                    st = (o.state(kb.cname(g)) if g else o.state()).name
                except Exception as e:
                    st = "EXC:" + type(e).__name__
                lines.append(f"fstate {op[1]} {gtxt(g)}")
                out.append("s " + st)
            elif op[0] == "world":
                w = op[2]
                # the two public routes to a new world assumption for a formula that is already in the model, alternating:
                # Formula.reset_world(w) and Model.add_knowledge(formula, world=w)
                meta["world_ops"] = meta.get("world_ops", 0) + 1
                if meta["world_ops"] % 2:
                    kb.model.add_knowledge(kb.obj[op[1]], world=wmap[w])
                else:
                    kb.obj[op[1]].reset_world(wmap[w])
                lo, hi = WORLDS[w]
                world[op[1]] = (lo, hi)
                # rows that were asserted before: whether their data survives reset_world is not fixed by the properties
                # (exempt until asserted again); every never-asserted row must read the new default from now on
                exempt[op[1]] |= set(asserted[op[1]])
                asserted[op[1]] = {}
                lines.append(f"fworld {op[1]} {q(lo)},{q(hi)}"); out.append("ok")
            elif op[0] == "infer":
                steps, r = kb.model.infer(max_steps=op[1])
                log = impl.take_log()
                ups, downs = kb.calls(log, "upward"), kb.calls(log, "downward")
                per_u, per_d = len(ups) // max(steps, 1), len(downs) // max(steps, 1)
                lines.append(f"finfer {EPS} {op[1]} {ids(meta['registered'])} {ids(ups[:per_u])} {ids(downs[:per_d])}")
                out.append(f"n {steps} {q(impl.amount(r))}")
            else:
                raise ValueError(op)
        except Exception as e:
            meta["errors"].append(f"{op}: {type(e).__name__}: {str(e)[:200]}")
            break
        snap()
    return {"lines": lines, "impl": out, "meta": meta}


def gen_store_program(rng, malformed_p=0.3):
    """a small mixed KB (predicates of arity 1-2 under each world, a first-order connective, a Not, a
    fully quantified Forall) and a random op sequence over it"""
    w = lambda: rng.choice(["open", "closed", "axiom"])
    preds = [{"id": 0, "arity": 1, "world": w()}, {"id": 1, "arity": 2, "world": w()}, {"id": 2, "arity": 1, "world": w()}]
    nodes = [{"id": 3, "kind": rng.choice(["and", "or", "implies"]), "ops": [[0, ["x"]], [1, ["x", "y"]]]},
             {"id": 4, "kind": "not", "ops": [[2, ["x"]]]},
             {"id": 5, "kind": rng.choice(["forall", "exists"]), "ops": [[2, ["x"]]], "qvars": ["x"]}]
    if rng.random() < 0.4:
        nodes[0]["world"] = w()
    desc = {"preds": preds, "nodes": nodes, "roots": [3, 4, 5]}
    arity = {0: 1, 1: 2, 2: 1, 3: 2, 4: 1, 5: 0}
    nc = 3

    def rand_g(i):
        return [rng.randrange(nc) for _ in range(arity[i])]

    def good_val():
        r = rng.random()
        if r < 0.3:
            return ("F", rng.choice(["TRUE", "FALSE", "UNKNOWN", "TRUE", "CONTRADICTION"]))
        if r < 0.45:
            return ("B", rng.randint(0, 1))
        if r < 0.65:
            return ("N", Fr(rng.randint(0, 8), 8))
        a, b = Fr(rng.randint(0, 8), 8), Fr(rng.randint(0, 8), 8)
        return ("T", [min(a, b), max(a, b)])

    def bad_val():
        r = rng.random()
        if r < 0.25:
            return ("N", rng.choice([Fr(3, 2), Fr(-1, 4), Fr(9, 8), Fr(2)]))
        if r < 0.5:
            # wrong length; out of range on the outer side, on the inner side (necessarily crossed), on both
            return ("T", rng.choice([[Fr(1, 2)], [], [Fr(0), Fr(1, 2), Fr(1)], [Fr(-1, 8), Fr(1, 2)], [Fr(1, 2), Fr(5, 4)],
                                     [Fr(3, 2), Fr(1, 2)], [Fr(1, 2), Fr(-1, 2)], [Fr(5, 4), Fr(1)], [Fr(0), Fr(-1, 8)],
                                     [Fr(9, 8), Fr(5, 4)], [Fr(-1, 4), Fr(-1, 8)], [Fr(-1, 8), Fr(9, 8)], [Fr(2), Fr(-1)]]))
        return ("O", rng.choice(["str", "int", "none", "list"]))

    ops = []
    for _ in range(rng.randint(4, 14)):
        r = rng.random()
        if r < 0.6:
            target = rng.choice([0, 1, 2, 0, 1, 2, 3, 4, 5])
            is_prop = target == 5
            mal = rng.random() < malformed_p
            if mal and rng.random() < 0.2:
                ops.append(("sadd", rng.choice(["absent", "nonformula"]), "single", good_val()))
            elif is_prop:
                if mal and rng.random() < 0.3:
                    ops.append(("sadd", target, "dict", [([0], good_val())]))
                else:
                    ops.append(("sadd", target, "single", bad_val() if mal else good_val()))
            else:
                if mal and rng.random() < 0.3:
                    ops.append(("sadd", target, "single", good_val()))
                else:
                    n = rng.randint(1, 3)
                    gs = []
                    while len(gs) < n:
                        g = rand_g(target)
                        if g not in gs:
                            gs.append(g)
                    entries = [(g, good_val()) for g in gs]
                    if mal:
                        k = rng.randrange(len(entries))
                        entries[k] = (entries[k][0], bad_val())
                    ops.append(("sadd", target, "dict", entries))
        elif r < 0.68:
            ops.append(("flush",))
        elif r < 0.78:
            ops.append(("resetb",))
        elif r < 0.9:
            i = rng.choice([0, 1, 2, 3, 4, 5])
            ops.append((rng.choice(["get", "state"]), i, rand_g(i)))
        elif r < 0.92:
            ops.append(("infer", rng.choice([1, 2, 10])))
        else:
            # reset_world on first-order tables AND on the proposition-like (fully quantified) formula, whose stored data
            # must follow the new default too; often followed by reset_bounds, which reads that stored data
            t = rng.choice([0, 1, 2, 3, 5, 5])
            ops.append(("world", t, w()))
            if t == 5 or rng.random() < 0.3:
                if rng.random() < 0.6:
                    ops.append((rng.choice(["get", "state"]), 5, []))
                    ops.append(("resetb",))
                    ops.append(("get", 5, []))
            else:
                # the new default must govern everything that is not asserted from now on: a grounding never seen before,
                # the rows the next inference creates, and what reset_bounds() returns to
                never = [rng.choice([nc, rng.randrange(nc)]) for _ in range(arity[t])]
                ops.append(("get", t, never))
                if rng.random() < 0.7:
                    ops.append(("infer", rng.choice([1, 2])))
                    ops.append(("get", t, rand_g(t)))
                if rng.random() < 0.4:
                    ops.append(("resetb",))
    if rng.random() < 0.35:
        # facts arriving AGAIN after inference moved their rows: re-asserting the very value a row holds as data (or UNKNOWN for a
        # row inference created at an OPEN default) must bring the row back to it, like any other assertion
        g, h = [rng.randrange(nc)], [rng.randrange(nc)]
        wide = ("T", [Fr(1, 4), Fr(3, 4)])
        ops += [("sadd", 2, "dict", [(g, wide)]), ("sadd", 4, "dict", [(g, ("N", Fr(1, 2)))]), ("infer", 2),
                ("sadd", 2, "dict", [(g, wide)]), ("get", 2, g)]
        if h != g:
            ops += [("sadd", 4, "dict", [(h, ("F", "TRUE"))]), ("infer", 2), ("sadd", 2, "dict", [(h, ("F", "UNKNOWN"))]), ("get", 2, h)]
    return {"kb": desc, "ops": ops}


# ------------------------------------------------------------------ C02: ground-instance oracle

def run_c02(case):
    """first-order inference vs exhaustive propagation over the ground instances, both executed by the
    implementation. case: {'kb', 'facts', 'n_consts', 'ops'}"""
    import itertools
    import impl
    L = impl.lnn()
    late = [tuple(f) for f in case.get("late_facts", [])]
    ops = list(case["ops"])
    if late:
        # facts that arrive between two inference calls; the ground theory is the one with the FINAL facts
        ops = ops + [("fact", f[0], f[1], f[2], f[3]) for f in late] + [("infer", 60)]
    rec = run_fol_program({"kb": case["kb"], "facts": case["facts"], "ops": ops,
                           "fact_shuffle_seed": case.get("fact_shuffle_seed")})
    kb = FolKB(case["kb"])          # a second, untouched copy only to read structure (operand maps, parameters)
    nc = case["n_consts"]
    # ---- ground propositional KB
    G = {}          # (formula id, grounding tuple) -> lnn object
    model = L.Model()
    facts = {(f[0], tuple(f[1])): (f[2], f[3]) for f in case["facts"]}
    facts.update({(f[0], tuple(f[1])): (f[2], f[3]) for f in late})
    data = {}
    acts = {"Lukasiewicz": L.NeuralActivation.Lukasiewicz, "LukasiewiczTransparent": L.NeuralActivation.LukasiewiczTransparent}
    for i in kb.order:
        o = kb.obj[i]
        cn = type(o).__name__
        if cn == "Predicate":
            for g in itertools.product(range(nc), repeat=o.arity):
                p = L.Proposition(f"P{i}_" + "_".join(map(str, g)))
                G[(i, g)] = p
                b = facts.get((i, g))
                if b is None:
                    b = tuple(Fr(float(x)) for x in o.world)
                data[p] = (float(b[0]), float(b[1]))
        elif cn == "Not":
            j = kb.idof[id(o.operands[0])]
            ar = o.operands[0].num_unique_vars
            for g in itertools.product(range(nc), repeat=ar):
                G[(i, g)] = L.Not(G[(j, g)])
        elif cn in ("And", "Or", "Implies"):
            nv = o.num_unique_vars
            act = {"type": acts[type(o.neuron).__name__], "alpha": float(o.neuron.alpha.detach() if hasattr(o.neuron.alpha, "detach") else o.neuron.alpha),
                   "bias": float(o.neuron.bias.detach()), "weights": tuple(float(w) for w in o.neuron.weights.detach().tolist())}
            for g in itertools.product(range(nc), repeat=nv):
                ops = []
                for k, x in enumerate(o.operands):
                    j = kb.idof[id(x)]
                    ops.append(G[(j, tuple(g[s] for s in o.operand_map[k]))])
                cls = {"And": L.And, "Or": L.Or, "Implies": L.Implies}[cn]
                c = cls(*ops, activation=dict(act))
                G[(i, g)] = c
                w = tuple(Fr(float(x)) for x in o.world)
                if w != (ZERO, ONE):
                    data[c] = (float(w[0]), float(w[1]))
        else:
            raise ValueError(cn)
    roots = [G[k] for k in G if k[0] in case["kb"]["roots"]]
    model.add_knowledge(*roots)
    model.add_data({k: v for k, v in data.items() if k in model})
    gsteps, _ = model.infer(max_steps=300)
    ground = {}
    # An instance is compared only when nothing it is connected to (through operands or users, in any number of steps) is
    # contradictory in the ground run. Inside such a connected component the two engines arrest differently and both
    # legitimately: the propositional engine stops a connective when ANY operand is contradictory, the first-order one
    # checks per row and (through `contradicting_bounds(stacked=True)`) only the first two operand columns, so a bound may
    # be derived through a contradictory third operand in one engine and not in the other. The property speaks about what
    # the ground theory implies; a contradictory component implies everything. Components without a contradiction are
    # compared in full, which is where a leak between groundings shows.
    adj = {}
    for o in G.values():
        for x in o.operands:
            adj.setdefault(id(o), set()).add(id(x))
            adj.setdefault(id(x), set()).add(id(o))
    tainted = set()
    stack = []
    for o in G.values():
        b = impl.bounds_of(o)
        if b[0] > b[1]:
            stack.append(id(o))
    while stack:
        k = stack.pop()
        if k in tainted:
            continue
        tainted.add(k)
        stack.extend(adj.get(k, ()))
    for (i, g), o in G.items():
        if o in model and id(o) not in tainted:
            ground[f"{i}:{gtxt(g)}"] = [q(x) for x in impl.bounds_of(o)]
    rec["meta"]["ground_tainted"] = len(tainted)
    rec["meta"]["ground"] = ground
    rec["meta"]["ground_contra"] = bool(model.has_contradiction())
    rec["meta"]["ground_steps"] = gsteps
    rec["meta"]["ground_size"] = len(G)
    return rec


def gen_c02_negshare_case(rng):
    """a negated predicate that also occurs un-negated in another rule, both rules given (axioms), the premises known for
    DIFFERENT individuals: Not(P) receives its groundings from its own rule, P from the other one, in different orders"""
    ar = rng.choice([1, 1, 2])
    vs = VARS[:ar]
    preds = [{"id": 0, "arity": ar, "world": "open"}, {"id": 1, "arity": ar, "world": "open"}, {"id": 2, "arity": ar, "world": "open"}]
    nodes = [{"id": 3, "kind": "not", "ops": [[0, list(vs)]]},
             {"id": 4, "kind": rng.choice(["implies", "implies", "or"]), "ops": [[1, list(vs)], [3, None]], "act": rng.choice(["lukt", "luk"]), "world": "axiom"},
             {"id": 5, "kind": "implies", "ops": [[2, list(vs)], [0, list(vs)]], "act": rng.choice(["lukt", "luk"]), "world": "axiom"}]
    roots = [4, 5] if rng.random() < 0.6 else [5, 4]
    nc = rng.randint(2, 4)
    import itertools
    gs = list(itertools.product(range(nc), repeat=ar))
    rng.shuffle(gs)
    k = max(1, len(gs) // 2)
    facts = []
    for g in gs[:k]:
        if rng.random() < 0.8:
            facts.append((1, list(g), ONE, ONE) if rng.random() < 0.7 else (1, list(g), *rand_bounds(rng, 0.3, 0.0)))
    for g in gs[k:]:
        if rng.random() < 0.8:
            facts.append((2, list(g), ONE, ONE) if rng.random() < 0.7 else (2, list(g), *rand_bounds(rng, 0.3, 0.0)))
    if rng.random() < 0.3 and gs:
        facts.append((0, list(rng.choice(gs)), *rand_bounds(rng, 0.5, 0.0)))
    return {"kb": {"preds": preds, "nodes": nodes, "roots": roots}, "facts": facts, "n_consts": nc,
            "ops": [("infer", rng.choice([1, 3, 60]))]}


def gen_c02_late_case(rng):
    """a CLOSED-world premise R and an AXIOM rule R(v) -> S(v): the rule's grounding management materialises R's rows at the
    default FALSE for every individual S is known for (the rule is vacuous there, so nothing is derived from the default);
    then R is asserted TRUE for some of them BETWEEN two inference calls. The asserted ground atoms decide the ground theory:
    the late facts must simply replace the materialised default."""
    import itertools
    ar = rng.choice([1, 1, 2])
    vs = VARS[:ar]
    preds = [{"id": 0, "arity": ar, "world": "closed"}, {"id": 1, "arity": ar, "world": "open"}]
    rule = {"id": 2, "kind": "implies", "ops": [[0, list(vs)], [1, list(vs)]], "act": rng.choice(["lukt", "luk"]), "world": "axiom"}
    nc = rng.randint(2, 3)
    gs = [list(g) for g in itertools.product(range(nc), repeat=ar)]
    rng.shuffle(gs)
    facts, late = [], []
    for k, g in enumerate(gs):
        facts.append((1, g, rng.choice([Fr(0), Fr(1, 4), Fr(1, 2)]), ONE))       # S known, open above
        r = rng.random()
        if k == 0 or r < 0.4:
            late.append((0, g, ONE, ONE))                                         # R(g) asserted TRUE after the first inference
        elif r < 0.6:
            facts.append((0, g, ONE, ONE))                                        # R(g) TRUE from the start
    return {"kb": {"preds": preds, "nodes": [rule], "roots": [2]}, "facts": facts, "late_facts": late, "n_consts": nc,
            "ops": [("infer", 60)]}


def gen_c02_case(rng, interp=True):
    if not interp and rng.random() < 0.3:
        return gen_c02_negshare_case(rng)
    desc = gen_fol_kb(rng, n_preds=(2, 3), n_conn=(1, 3), max_arity=2, quant=False, worlds=True, weighted=True, composites=False)
    for n in desc["nodes"]:
        n.pop("world", None)            # connective worlds stay OPEN: the drawn interpretation need not satisfy them
    nc = rng.randint(2, 3)
    import itertools
    facts = []
    for p in desc["preds"]:
        # some predicates are known for few individuals only: their tables, and those of the formulae over them, are then
        # filled from several sides and in different orders
        dens = rng.choice([0.6, 0.6, 0.25, 0.1])
        for g in itertools.product(range(nc), repeat=p["arity"]):
            w = p.get("world", "open")
            v = grid(rng)
            if interp:
                if rng.random() < dens:
                    lo = Fr(rng.randint(0, int(v * 8)), 8) if rng.random() < 0.7 else ZERO
                    hi = Fr(rng.randint(-(-v * 8 // 1), 8), 8) if rng.random() < 0.7 else ONE
                    if rng.random() < 0.4:
                        lo, hi = rng.choice([(ONE, ONE), (ZERO, ZERO), (ZERO, ONE)])
                    facts.append((p["id"], list(g), lo, hi))
                # an unasserted atom keeps the world default, which is a consistent reading by itself
            else:
                if rng.random() < dens:
                    # some contradictory facts among consistent ones: a leak between groundings shows up at the consistent ones
                    lo, hi = rand_bounds(rng, 0.5, 0.2)
                    facts.append((p["id"], list(g), lo, hi))
    ops = [("infer", 60)]
    return {"kb": desc, "facts": facts, "n_consts": nc, "ops": ops}


# ------------------------------------------------------------------ C09: natural join is evaluated

def run_c09(case):
    """one connective over predicates. case: {'kb','facts','n_consts','op_fact': (g, lo, hi) | None}
    upward(), table dump; then (optionally) assert the operator at one join tuple and downward()."""
    prog = {"kb": case["kb"], "facts": case["facts"], "ops": [("up", case["conn"])]}
    if case.get("variant") == "downfirst":
        # the downward step is the first call ever made on the connective (it has no row yet)
        prog["ops"] = [("down", case["conn"], None)]
    elif case.get("variant") == "late":
        # facts of further groundings arrive between the upward and the downward call
        prog["ops"] = [("up", case["conn"])] + [("fact", f[0], f[1], f[2], f[3]) for f in case["late"]] + [("down", case["conn"], None)]
    elif case.get("op_fact"):
        g, lo, hi = case["op_fact"]
        prog["ops"] += [("fact", case["conn"], g, lo, hi), ("down", case["conn"], None)]
    rec = run_fol_program(prog)
    kb = FolKB(case["kb"])
    o = kb.obj[case["conn"]]
    rec["meta"]["operand_map"] = [list(m) for m in o.operand_map]
    rec["meta"]["operand_ids"] = [kb.idof[id(x)] for x in o.operands]
    rec["meta"]["num_vars"] = o.num_unique_vars
    rec["meta"]["weights"] = [q(Fr(float(w))) for w in o.neuron.weights.detach().tolist()]
    rec["meta"]["bias"] = q(Fr(float(o.neuron.bias)))
    rec["meta"]["alpha"] = q(Fr(float(o.neuron.alpha)))
    rec["meta"]["kind"] = type(o).__name__.lower()
    return rec


# ------------------------------------------------------------------ C12: interpretation-first quantified tables

def unique_vars(desc, i, cache=None):
    """variable tuple of formula i as the implementation orders it (first appearance over the operands)"""
    cache = {} if cache is None else cache
    if i in cache:
        return cache[i]
    p = next((p for p in desc["preds"] if p["id"] == i), None)
    if p is not None:
        return None
    n = next(n for n in desc["nodes"] if n["id"] == i)
    uv = []
    for oid, vs in n["ops"]:
        vs = vs if vs is not None else unique_vars(desc, oid, cache)
        for v in vs:
            if v not in uv:
                uv.append(v)
    if n["kind"] in ("forall", "exists"):
        uv = [v for v in uv if v not in n["qvars"]]
    cache[i] = uv
    return uv


def eval_formula(desc, i, env, atom, nc, weights):
    """exact truth value of formula i under variable assignment env (dict var->const) and atom values;
    quantifiers are read as the nested conjunction / disjunction over ALL constants (complete tables)."""
    import exact
    p = next((p for p in desc["preds"] if p["id"] == i), None)
    n = next((n for n in desc["nodes"] if n["id"] == i), None)
    k = n["kind"]
    vals = []
    for oid, vs in n["ops"]:
        if any(pp["id"] == oid for pp in desc["preds"]):
            vals.append(lambda e, oid=oid, vs=vs: atom[(oid, tuple(e[v] for v in vs))])
        else:
            vals.append(lambda e, oid=oid: eval_formula(desc, oid, e, atom, nc, weights))
    if k == "not":
        return 1 - vals[0](env)
    if k in ("and", "or", "implies"):
        w, b = weights[i]
        xs = [f(env) for f in vals]
        lo, hi = exact.act_up(k, w, b, xs, xs)
        return lo
    if k in ("forall", "exists"):
        def nest(qv, e):
            if not qv:
                return vals[0](e)
            # Forall(x, y, body) is Forall(x, Forall(y, body)): the first variable is the outermost
            inner = [nest(qv[1:], dict(e, **{qv[0]: c})) for c in range(nc)]
            if k == "forall":
                return exact.clamp(1 - sum(1 - x for x in inner))
            return exact.clamp(sum(inner))
        return nest(list(n["qvars"]), env)
    raise ValueError(k)


def run_c12(case):
    """complete tables around a drawn interpretation; the quantified roots get bounds around their value
    (fully quantified ones via add_data); infer(); every fact must still contain the interpretation."""
    import itertools
    import impl
    L = impl.lnn()
    kbs = FolKB(case["kb"])         # structure / parameters only
    weights = {}
    for i in kbs.order:
        o = kbs.obj[i]
        if type(o).__name__ in ("And", "Or", "Implies"):
            weights[i] = ([Fr(float(w)) for w in o.neuron.weights.detach().tolist()], Fr(float(o.neuron.bias)))
    desc, nc = case["kb"], case["n_consts"]
    atom = {(f[0], tuple(f[1])): f[2] for f in case["atoms"]}
    rng = random.Random(case["seed"])
    facts = []
    for (pid, g), v in atom.items():
        lo = Fr(rng.randint(0, int(v * 8)), 8) if rng.random() < 0.6 else ZERO
        hi = Fr(rng.randint(-(-v * 8 // 1), 8), 8) if rng.random() < 0.6 else ONE
        if rng.random() < 0.3:
            lo = hi = v
        facts.append((pid, list(g), lo, hi))
    qfacts = []
    qvals = {}
    staged = bool(case.get("staged"))
    for n in desc["nodes"]:
        # staged cases: no data on quantifiers (a bound given for the quantifier over ALL instances does not hold for the
        # instances known in the first stage: the open-world reading, known finding D14)
        if n["kind"] in ("forall", "exists") and n["id"] in desc["roots"] and not staged:
            fv = unique_vars(desc, n["id"])
            if not fv:                   # fully quantified: a proposition-like formula that accepts data
                v = eval_formula(desc, n["id"], {}, atom, nc, weights)
                qvals[n["id"]] = q(v)
                r = rng.random()
                if r < 0.5:
                    lo, hi = v, v
                elif r < 0.8:
                    lo, hi = (Fr(int(v * 8), 8), ONE) if n["kind"] == "forall" else (ZERO, Fr(-(-v * 8 // 1), 8))
                else:
                    lo, hi = ZERO, ONE
                if (lo, hi) != (ZERO, ONE):
                    qfacts.append((n["id"], [], lo, hi))
    ops = list(case["ops"])
    if staged:
        # the individuals arrive in two stages, the one whose name sorts FIRST last: instance groups of a partially
        # quantified formula are then created in an order that is not the sorted one
        late = [f for f in facts if 0 in f[1]]
        facts = [f for f in facts if 0 not in f[1]]
        ops = [("infer", 60)] + [("fact", f[0], f[1], f[2], f[3]) for f in late] + ops
    prog = {"kb": desc, "facts": facts + qfacts, "ops": ops}
    rec = run_fol_program(prog)
    rec["meta"]["staged"] = staged
    rec["meta"]["atom"] = {f"{pid}:{gtxt(g)}": q(v) for (pid, g), v in atom.items()}
    rec["meta"]["qvals"] = qvals
    rec["meta"]["qfacts"] = [(i, q(lo), q(hi)) for i, _, lo, hi in qfacts]
    return rec


def gen_c12_case(rng):
    import itertools
    npred = rng.randint(1, 2)
    preds = [{"id": k, "arity": rng.choice([1, 1, 2, 2, 3]), "world": "open"} for k in range(npred)]
    nodes, nid = [], npred
    kind = rng.choice(["forall", "exists"])
    high = kind == "forall"
    wide = rng.random() < 0.4          # three body variables: up to two FREE variables per quantifier
    if rng.random() < 0.6 or preds[0]["arity"] != 1:
        # connective body over the predicates
        ops = []
        for p in preds:
            vs = rng.sample(VARS if (wide or p["arity"] > 2) else VARS[:2], p["arity"])
            ops.append([p["id"], vs])
        if len(ops) == 1:
            ops.append([preds[0]["id"], list(reversed(ops[0][1])) if preds[0]["arity"] == 2 else ops[0][1]])
        body = {"id": nid, "kind": rng.choice(["and", "or", "implies"]) if len(ops) == 2 else rng.choice(["and", "or"]), "ops": ops}
        nodes.append(body)
        bvars = []
        for _, vs in ops:
            for v in vs:
                if v not in bvars:
                    bvars.append(v)
        nid += 1
        qbody = [body["id"], None]
    else:
        preds = preds[:1]
        bvars = ["x"]
        qbody = [preds[0]["id"], ["x"]]
    m = rng.randint(1, len(bvars))
    qv = list(bvars) if rng.random() < 0.6 else rng.sample(bvars, m)
    if len(bvars) >= 2 and rng.random() < 0.45:
        # explicit nesting of quantifiers of DIFFERENT kinds, e.g. Exists(x, Forall(y, body))
        other = "exists" if kind == "forall" else "forall"
        inner_vars = [bvars[-1]] if rng.random() < 0.7 else bvars[1:]
        outer_vars = [v for v in bvars if v not in inner_vars]
        nodes.append({"id": nid, "kind": other, "ops": [qbody], "qvars": inner_vars})
        nid += 1
        qn = {"id": nid, "kind": kind, "ops": [[nid - 1, None]], "qvars": outer_vars}
    else:
        qn = {"id": nid, "kind": kind, "ops": [qbody], "qvars": qv}
    nodes.append(qn)
    nc = rng.randint(2, 3)
    atoms = []
    for p in preds:
        for g in itertools.product(range(nc), repeat=p["arity"]):
            if high:
                v = rng.choice([ONE, ONE, ONE, Fr(7, 8), Fr(3, 4), Fr(1, 2), ZERO])
            else:
                v = rng.choice([ZERO, ZERO, ZERO, Fr(1, 8), Fr(1, 4), Fr(1, 2), ONE])
            atoms.append((p["id"], list(g), v))
    ops = [("infer", 60)]
    if rng.random() < 0.5:
        ops = [("passup",), ("down", nid, None), ("infer", 60)]
    return {"kb": {"preds": preds, "nodes": nodes, "roots": [nid]}, "atoms": atoms, "n_consts": nc,
            "seed": rng.randrange(1 << 30), "ops": ops, "staged": rng.random() < 0.35}


# ------------------------------------------------------------------ C18: training first-order models

def run_fol_train(case):
    """a first-order model that has ALREADY inferred (its tables hold rows created by inference), then Model.train() with the
    default optimiser; judged on the implementation only: asserted facts must be what reset_bounds() returns to afterwards
    (facts are not trainable), rows nobody asserted return to their world default, and the bounds train() leaves are those of
    reset_bounds() + infer()"""
    import signal
    import impl
    L = impl.lnn()
    impl.take_log()
    kb = FolKB(case["kb"])
    asserted = {}
    for i, g, lo, hi in case["facts"]:
        kb.model.add_data({kb.obj[i]: {kb.cname(tuple(g)): (float(lo), float(hi))}})
        asserted[(i, tuple(g))] = (lo, hi)
    for i, g, lo, hi in case.get("labels", []):
        kb.model.add_labels({kb.obj[i]: {kb.cname(tuple(g)): (float(lo), float(hi))}})
    meta = {"errors": [], "bad": None}
    kb.model.infer(max_steps=8)
    world = {i: tuple(Fr(float(x)) for x in kb.obj[i].world) for i in kb.order}

    def _alarm(signum, frame):
        raise TimeoutError()

    signal.signal(signal.SIGALRM, _alarm)
    signal.alarm(90)
    try:
        kb.model.train(losses={L.Loss.SUPERVISED: None, L.Loss.CONTRADICTION: None}, epochs=case.get("epochs", 3),
                       learning_rate=float(case.get("lr", Fr(1, 8))), max_steps=8)
    except TimeoutError:
        meta["errors"].append("timeout")
        return {"lines": [], "impl": [], "meta": meta}
    except Exception as e:
        meta["errors"].append(f"train raised {type(e).__name__}: {str(e)[:200]}")
        return {"lines": [], "impl": [], "meta": meta}
    finally:
        signal.alarm(0)
    final = {i: kb.table(i) for i in kb.order}
    kb.model.reset_bounds()
    for i in kb.order:
        if type(kb.obj[i]).__name__ in ("Forall", "Exists"):
            continue
        for g, b in kb.table(i).items():
            want = asserted.get((i, g), world[i])
            if b != want:
                meta["bad"] = {"problem": "after train(), reset_bounds() does not return to the asserted fact / world default: training "
                                          "changed the stored data", "formula": i, "grounding": gtxt(g),
                               "data_or_default": [q(want[0]), q(want[1])], "after_train_and_reset": [q(b[0]), q(b[1])],
                               "asserted": (i, g) in asserted}
                return {"lines": [], "impl": [], "meta": meta}
    kb.model.infer(max_steps=8)
    again = {i: kb.table(i) for i in kb.order}
    if again != final:
        i = next(i for i in kb.order if again[i] != final[i])
        meta["bad"] = {"problem": "the bounds train() left behind are not those of reset_bounds() + infer()", "formula": i,
                       "left_behind": {gtxt(g): [q(b[0]), q(b[1])] for g, b in final[i].items()},
                       "reset_infer": {gtxt(g): [q(b[0]), q(b[1])] for g, b in again[i].items()}}
    return {"lines": [], "impl": [], "meta": meta}


# ------------------------------------------------------------------ C18: losses on first-order models

def run_fol_losses(case):
    """a first-order program, then the built-in losses evaluated by Model.loss_fn on the state it left"""
    import impl
    L = impl.lnn()
    impl.take_log()
    kb = FolKB(case["kb"])
    lines = kb.header_lines()
    out = ["ok"] * len(lines)
    ids = lambda l: ",".join(map(str, l)) if l else "-"
    for i, g, lo, hi in case["facts"]:
        kb.model.add_data({kb.obj[i]: {kb.cname(tuple(g)): (float(lo), float(hi))}})
        lines.append(f"fact {i} {gtxt(tuple(g))} {q(lo)} {q(hi)}"); out.append("ok")
    labels = case.get("labels", [])
    for i, g, lo, hi in labels:
        kb.model.add_labels({kb.obj[i]: {kb.cname(tuple(g)): (float(lo), float(hi))}})
    steps, r = kb.model.infer(max_steps=case.get("max_steps", 6))
    log = impl.take_log()
    ups, downs = kb.calls(log, "upward"), kb.calls(log, "downward")
    per_u, per_d = len(ups) // max(steps, 1), len(downs) // max(steps, 1)
    reg = sorted(kb.registered_ids())
    lines.append(f"finfer {EPS} {case.get('max_steps', 6)} {ids(reg)} {ids(ups[:per_u])} {ids(downs[:per_d])}")
    out.append(f"n {steps} {q(impl.amount(r))}")
    lines.append(kb.tab_line()); out.append(kb.tab_out())
    cc, uc, sc = case["coeffs"]
    lc = kb.model.loss_fn({L.Loss.CONTRADICTION: float(cc)})[0]
    lu = kb.model.loss_fn({L.Loss.UNCERTAINTY: float(uc)})[0]
    lines.append(f"floss c {q(cc)} {ids(reg)}"); out.append("l " + q(Fr(float(lc))))
    lines.append(f"floss u {q(uc)} {ids(reg)}"); out.append("l " + q(Fr(float(lu))))
    meta = {"errors": [], "tables": {i: {gtxt(g): [q(b[0]), q(b[1])] for g, b in kb.table(i).items()} for i in kb.order},
            "alpha": {i: q(Fr(float(kb.obj[i].neuron.alpha))) for i in kb.order}, "registered": reg,
            "closs": q(Fr(float(lc))), "uloss": q(Fr(float(lu)))}
    if labels:
        ls = kb.model.loss_fn({L.Loss.SUPERVISED: float(sc)})[0]
        meta["sloss"] = q(Fr(float(ls)))
    return {"lines": lines, "impl": out, "meta": meta}


# ------------------------------------------------------------------ C15 known finding D20: data on a partially quantified formula

def run_partial_quant_data(case):
    """witness of D20. Two scenarios on q = Forall(y, And(P(x,y), Q(y))) with x free:
    (1) add_data({q: {'a': (1/4, 3/4)}}), reset_bounds(): what does q('a') read?
    (2) inference creates the group q('a') first, then add_data on it: accepted?"""
    import impl
    L = impl.lnn()
    res = {}

    def mk():
        m = L.Model()
        P = L.Predicate("P", 2)
        Q = L.Predicate("Q")
        x, y = L.Variables("x", "y")
        q_ = L.Forall(y, L.And(P(x, y), Q(y)))
        m.add_knowledge(q_)
        return m, P, Q, q_

    m, P, Q, qf = mk()
    m.add_data({qf: {"a": (0.25, 0.75)}})
    res["after_add"] = [q(Fr(v)) for v in qf.get_data("a").detach().reshape(-1).tolist()]
    m.reset_bounds()
    try:
        res["after_reset"] = [q(Fr(v)) for v in qf.get_data("a").detach().reshape(-1).tolist()]
    except Exception as e:
        res["after_reset"] = "EXC:" + type(e).__name__
    m, P, Q, qf = mk()
    m.add_data({P: {("a", "1"): L.Fact.TRUE}, Q: {"1": L.Fact.TRUE}})
    m.upward()
    try:
        m.add_data({qf: {"a": (0.25, 0.75)}})
        res["add_after_inference"] = [q(Fr(v)) for v in qf.get_data("a").detach().reshape(-1).tolist()]
    except Exception as e:
        res["add_after_inference"] = "EXC:" + type(e).__name__ + ": " + str(e)[:80]
    return res


# ------------------------------------------------------------------ C20, first-order part

def run_c20_fol(case):
    """case: {'kb','facts','source', 'mode': 'source'|'query'}: restricted inference on one model, full inference on a second,
    identically built one. meta: descendants of the source, tables before / after restricted / after full."""
    mode = case.get("mode", "source")
    a = run_fol_program({"kb": case["kb"], "facts": case["facts"],
                         "ops": [("infer_source" if mode == "source" else "infer_query", case["source"], 40)]})
    b = run_fol_program({"kb": case["kb"], "facts": case["facts"], "ops": [("infer", 40)]})
    kb = FolKB(case["kb"])
    seen, todo = set(), [kb.obj[case["source"]]]
    while todo:
        o = todo.pop()
        if id(o) in seen:
            continue
        seen.add(id(o))
        todo.extend(o.operands)
    inside = sorted(kb.idof[x] for x in seen if x in kb.idof)
    tabsa = [o for l, o in zip(a["lines"], a["impl"]) if l.startswith("ftab ")]
    tabsb = [o for l, o in zip(b["lines"], b["impl"]) if l.startswith("ftab ")]
    meta = {"inside": inside, "ids": list(kb.order), "errors": a["meta"]["errors"] + b["meta"]["errors"],
            "before": tabsa[0] if tabsa else None, "restricted": tabsa[-1] if tabsa else None, "full": tabsb[-1] if tabsb else None,
            "restricted_calls": (a["meta"].get("restricted_calls") or [[]])[0],
            "full_contra": any(o == "c 1" for o in b["impl"]),
            "worlds": {i: [q(Fr(float(x))) for x in kb.obj[i].world] for i in kb.order}}
    return {"lines": a["lines"] + b["lines"], "impl": a["impl"] + b["impl"], "meta": meta}
