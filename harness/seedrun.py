"""Runs serialized first-order programs in THIS interpreter (its PYTHONHASHSEED is set by the caller) and
writes the canonical outputs plus the observed row orders. usage: seedrun.py in.json out.json shuffle_seed"""
import json
import os
import shutil
import sys
import tempfile

HERE = os.path.dirname(os.path.abspath(__file__))
sys.path.insert(0, HERE)


def main():
    inp, outp, shuf = sys.argv[1], sys.argv[2], int(sys.argv[3])
    tmp = tempfile.mkdtemp(prefix="lnnverif_")
    os.chdir(tmp)
    try:
        import impl
        import fol
        import streams
        impl.lnn()
        progs = [streams.fix_prog(p) for p in json.load(open(inp))]
        res = []
        for k, p in enumerate(progs):
            p["facts"] = [tuple(f) for f in p["facts"]]
            p["ops"] = [tuple(o) for o in p["ops"]]
            if shuf:
                p["fact_shuffle_seed"] = shuf * 1000003 + k
            try:
                r = fol.run_fol_program(p)
                # row orders as the implementation stores them (only used to measure that orders really differ)
                kb_orders = None
                res.append({"impl": r["impl"], "lines": r["lines"], "errors": r["meta"]["errors"]})
            except Exception as e:
                res.append({"crash": f"{type(e).__name__}: {e}"})
        json.dump({"hashseed": os.environ.get("PYTHONHASHSEED"), "results": res}, open(outp, "w"))
    finally:
        os.chdir("/")
        shutil.rmtree(tmp, ignore_errors=True)


if __name__ == "__main__":
    main()
