"""Shared plumbing for the checks: paths, exact arithmetic helpers, the Lean driver, evidence,
violation reporting. Pure stdlib; never imports torch/lnn (workers do)."""
import hashlib
import json
import os
import subprocess
import sys
import time
from fractions import Fraction as Fr

VERIF = os.path.dirname(os.path.dirname(os.path.abspath(__file__)))
REPO = os.environ.get("LNN_REPO", "/repo")
LEAN_DIR = os.path.join(VERIF, "lean")
EVIDENCE_DIR = os.environ.get("VERIF_EVIDENCE_DIR") or os.path.join(VERIF, "evidence")      # redirected only by tools/regress_seeds_wt.sh
REPLAY_DIR = os.environ.get("VERIF_REPLAY_DIR") or os.path.join(VERIF, "replays")
CORPUS_DIR = os.path.join(VERIF, "corpus")
KNOWN_FINDINGS = os.path.join(VERIF, "known_findings.json")
PY = "/venv/bin/python"

TRUSTED_BASE = [
    "Lean 4.33.0 kernel; axioms allowed: propext, Classical.choice, Quot.sound (audited per theorem on every run)",
    "Mathlib definitions of Field / LinearOrder / IsStrictOrderedRing / Rat / List.sum / Function.update",
    "statements in lean/LnnVerif/Props/*.lean say what the properties say",
    "correspondence harness (generators, line protocol, canonicaliser, diff) and the Lean interpreter running Driver.lean",
    "modelled, not verified: torch tensor semantics, pandas joins, networkx DFS, autograd, optimisers",
    "not modelled: float32 rounding on non-dyadic data, nan/inf, negative weights, bindings, Congruent",
]


def size(tier, quick, thorough):
    """number of cases for a tier; "escalate" = the intensified failing-input search after a broken obligation"""
    return {"quick": quick, "thorough": thorough}.get(tier, 3 * quick)


def seed_from_env(default=0):
    try:
        return int(os.environ.get("VERIF_SEED", default))
    except ValueError:
        return default


def sub_seed(*parts):
    h = hashlib.sha256(("|".join(str(p) for p in parts)).encode()).digest()
    return int.from_bytes(h[:8], "big")


# ---------------------------------------------------------------- exact numbers

def q(x):
    """exact rational text of a Fraction/int/float (floats are converted exactly)"""
    if isinstance(x, float):
        x = Fr(x)
    x = Fr(x)
    return str(x.numerator) if x.denominator == 1 else f"{x.numerator}/{x.denominator}"


def parse_q(s):
    return Fr(s)


def is_pow2(n):
    return n > 0 and (n & (n - 1)) == 0


def float_safe(x, max_den=1 << 12):
    """value small enough that every float32 operation the engine performs on it is exact"""
    x = Fr(x)
    return is_pow2(x.denominator) and x.denominator <= max_den and abs(x.numerator) < (1 << 20)


# ---------------------------------------------------------------- Lean side

_built = False


def lake_build():
    """build the Lean library (no-op when up to date). Returns (ok, output)."""
    global _built
    p = subprocess.run(["lake", "build"], cwd=LEAN_DIR, capture_output=True, text=True)
    _built = p.returncode == 0
    return p.returncode == 0, (p.stdout + p.stderr)[-4000:]


def run_driver(lines, timeout=1800):
    """pipe protocol lines to the Lean model, return its output lines"""
    inp = "\n".join(lines) + "\n"
    p = subprocess.run(
        ["lake", "env", "lean", "--run", "Driver.lean"],
        cwd=LEAN_DIR, input=inp, capture_output=True, text=True, timeout=timeout,
    )
    if p.returncode != 0:
        raise RuntimeError("lean driver failed: " + p.stderr[-2000:])
    out = p.stdout.split("\n")
    if out and out[-1] == "":
        out.pop()
    return out


def run_driver_parallel(programs, jobs=8, timeout=1800):
    """programs: list of list-of-lines (each program starts with its own `reset`).
    Returns list of list-of-output-lines, same shape."""
    from concurrent.futures import ThreadPoolExecutor
    if not programs:
        return []
    jobs = max(1, min(jobs, len(programs)))
    chunks = [programs[i::jobs] for i in range(jobs)]

    def work(chunk):
        flat = [l for prog in chunk for l in prog]
        out = run_driver(flat, timeout=timeout)
        if len(out) != len(flat):
            raise RuntimeError(f"driver returned {len(out)} lines for {len(flat)} inputs")
        res, k = [], 0
        for prog in chunk:
            res.append(out[k:k + len(prog)])
            k += len(prog)
        return res

    with ThreadPoolExecutor(jobs) as ex:
        results = list(ex.map(work, chunks))
    out = [None] * len(programs)
    for j, res in enumerate(results):
        for k, r in enumerate(res):
            out[j + k * jobs] = r
    return out


ALLOWED_AXIOMS = {"propext", "Classical.choice", "Quot.sound"}
FORBIDDEN = ["sorry", "admit", "native_decide", "bv_decide", "implemented_by", "unsafe ", "maxHeartbeats 0"]


def audit_theorems(names):
    """`#print axioms` for the given theorem names (module LnnVerif.Props.All must export them).
    Returns dict name -> {'ok': bool, 'axioms': [...], 'msg': str}."""
    src = "import LnnVerif.Props.All\n" + "".join(f"#print axioms {n}\n" for n in names)
    tmp = os.path.join(LEAN_DIR, f".audit_{os.getpid()}.lean")
    with open(tmp, "w") as f:
        f.write(src)
    try:
        p = subprocess.run(["lake", "env", "lean", tmp], cwd=LEAN_DIR, capture_output=True, text=True, timeout=900)
    finally:
        os.unlink(tmp)
    text = p.stdout + p.stderr
    res = {}
    # output blocks: "'name' depends on axioms: [a, b]" or "'name' does not depend on any axioms"
    import re
    flat = re.sub(r"\s+", " ", text)
    for n in names:
        m = re.search(r"'" + re.escape(n) + r"' depends on axioms: \[([^\]]*)\]", flat)
        if m:
            ax = [a.strip() for a in m.group(1).split(",") if a.strip()]
            bad = [a for a in ax if a not in ALLOWED_AXIOMS]
            res[n] = {"ok": not bad, "axioms": ax, "msg": "" if not bad else f"forbidden axioms {bad}"}
        elif re.search(r"'" + re.escape(n) + r"' does not depend on any axioms", flat):
            res[n] = {"ok": True, "axioms": [], "msg": ""}
        elif ("Unknown constant `" + n + "`") in text or ("unknown constant '" + n + "'") in text:
            res[n] = {"ok": False, "axioms": [], "msg": "theorem not found in LnnVerif.Props.All"}
        else:
            res[n] = {"ok": False, "axioms": [], "msg": "audit file failed: " + text[-400:]}
    return res


def built_sources():
    """the .lean files that are part of the library (reachable from LnnVerif.lean) plus the driver"""
    import re
    seen, todo = set(), ["LnnVerif"]
    while todo:
        m = todo.pop()
        path = os.path.join(LEAN_DIR, m.replace(".", "/") + ".lean")
        if m in seen or not os.path.exists(path):
            continue
        seen.add(m)
        for imp in re.findall(r"^import\s+(LnnVerif[\w.]*)", open(path).read(), flags=re.M):
            todo.append(imp)
    files = [os.path.join(LEAN_DIR, m.replace(".", "/") + ".lean") for m in sorted(seen)]
    return files + [os.path.join(LEAN_DIR, "Driver.lean")]


def grep_forbidden():
    """scan the library's lean sources for sorry/admit/axiom/native_decide...; comment text is ignored"""
    import re
    hits = []
    if True:
        for path in built_sources():
            txt = open(path).read()
            # strip block comments and line comments
            txt2 = re.sub(r"/-.*?-/", lambda m: "\n" * m.group(0).count("\n"), txt, flags=re.S)
            for ln, line in enumerate(txt2.split("\n"), 1):
                code = line.split("--")[0]
                for w in FORBIDDEN:
                    if w in code:
                        hits.append(f"{os.path.relpath(path, VERIF)}:{ln}: {w.strip()}")
                if re.match(r"\s*axiom\s", code):
                    hits.append(f"{os.path.relpath(path, VERIF)}:{ln}: axiom")
    return hits


# ---------------------------------------------------------------- repo identity

def repo_identity():
    def g(*a):
        try:
            return subprocess.run(["git", "-C", REPO, *a], capture_output=True, text=True).stdout.strip()
        except Exception:
            return "?"
    return {"head": g("rev-parse", "HEAD"), "dirty": bool(g("status", "--porcelain", "--", "lnn"))}


# ---------------------------------------------------------------- known findings

def load_known_findings():
    if not os.path.exists(KNOWN_FINDINGS):
        return []
    return json.load(open(KNOWN_FINDINGS)).get("findings", [])


# ---------------------------------------------------------------- evidence / verdict

class Report:
    """collects what one check run did and writes the evidence file"""

    def __init__(self, pid, tier, seed):
        self.pid, self.tier, self.seed = pid, tier, seed
        self.t0 = time.time()
        self.obligations = []      # (name, ok, detail)
        self.violations = []       # dicts
        self.known = []            # strings printed as KNOWN-FINDING
        self.cov = {"evaluations": 0, "distinct_nontrivial": 0, "samples": [], "rule": ""}
        self.extra = {}
        self.assumptions = []
        self._hashes = set()
        # replays of earlier runs of this check are stale
        if os.path.isdir(REPLAY_DIR):
            for fn in os.listdir(REPLAY_DIR):
                if fn.startswith(f"{pid}_{tier}_"):
                    try:
                        os.unlink(os.path.join(REPLAY_DIR, fn))
                    except OSError:
                        pass

    def obligation(self, name, ok, detail=""):
        self.obligations.append((name, bool(ok), detail))

    def count_case(self, canonical_text, nontrivial):
        self.cov["evaluations"] += 1
        h = hashlib.sha1(canonical_text.encode()).hexdigest()
        if nontrivial and h not in self._hashes:
            self._hashes.add(h)
            self.cov["distinct_nontrivial"] += 1

    def sample(self, s, limit=3):
        if len(self.cov["samples"]) < limit:
            self.cov["samples"].append(s)

    def bump(self, key, n=1):
        self.extra[key] = self.extra.get(key, 0) + n

    MAX_REPLAYS = 3

    def enable_known(self, fid):
        """the witness of a listed known finding reproduced on this run: print its KNOWN-FINDING line and
        do not report further failing inputs of exactly that class as new violations"""
        for f in load_known_findings():
            if f["id"] == fid and f["property"] == self.pid:
                self._known_on = getattr(self, "_known_on", {})
                self._known_on[fid] = f
                self.known.append(f"{fid}: {f['what']}")

    def _matches_known(self, kind, detail):
        for fid, f in getattr(self, "_known_on", {}).items():
            m = f.get("match", {})
            if m.get("kind") != kind:
                continue
            if all(isinstance(detail, dict) and detail.get(k) == v for k, v in m.get("detail", {}).items()):
                return fid
        return None

    def violation(self, kind, detail, replay_obj, no_input=False):
        fid = self._matches_known(kind, detail)
        if fid and not no_input:
            self.bump("known_finding_hits_" + fid)
            return
        os.makedirs(REPLAY_DIR, exist_ok=True)
        k = len(self.violations)
        if k >= self.MAX_REPLAYS and not no_input:
            # further failing inputs are only counted (the evidence says how many)
            self.bump("failing_inputs_not_written")
            return
        path = os.path.join(REPLAY_DIR, f"{self.pid}_{self.tier}_{self.seed}_{k}.json")
        with open(path, "w") as f:
            json.dump({"property": self.pid, "kind": kind, "detail": detail, "replay": replay_obj,
                       "repo": repo_identity()}, f, indent=1, default=str)
        self.violations.append({"kind": kind, "detail": detail, "path": path, "no_input": no_input})

    def finish(self, level="proof", checker_cmd=""):
        wall = time.time() - self.t0
        n_ob = len(self.obligations)
        n_ok = sum(1 for o in self.obligations if o[1])
        cov = dict(self.cov)
        cov.update({
            "obligations": n_ob, "discharged": n_ok,
            "checker_cmd": checker_cmd or "cd lean && lake build && lake env lean <#print axioms of the property theorems>; correspondence: harness vs `lake env lean --run Driver.lean`",
            "trusted_base": TRUSTED_BASE,
            "obligation_list": [{"name": o[0], "ok": o[1], "detail": o[2]} for o in self.obligations],
            "repo": repo_identity(),
        })
        cov.update(self.extra)
        ev = {
            "property_id": self.pid, "tier": self.tier, "seed": self.seed, "level": level,
            "coverage": cov, "assumptions": self.assumptions, "wall_s": round(wall, 2),
            "violations": len(self.violations),
        }
        os.makedirs(EVIDENCE_DIR, exist_ok=True)
        with open(os.path.join(EVIDENCE_DIR, f"{self.pid}.json"), "w") as f:
            json.dump(ev, f, indent=1, default=str)
        for k in self.known:
            print(f"KNOWN-FINDING: property={self.pid} {k}")
        # failing inputs first, then broken obligations without input
        real = [v for v in self.violations if not v["no_input"]]
        noin = [v for v in self.violations if v["no_input"]]
        for v in real:
            print(f"VIOLATION property={self.pid} replay={os.path.relpath(v['path'], VERIF)}")
        if not real:
            for v in noin:
                print(f"VIOLATION property={self.pid} replay={os.path.relpath(v['path'], VERIF)} no-failing-input-found")
        sys.stdout.flush()
        return 1 if self.violations else 0
