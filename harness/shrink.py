"""greedy shrinking of failing programs (drop facts, ops, unused formulae) while they keep failing"""
import copy

import engine


def run_one(mod, fn, prog):
    rec = engine.run_cases(mod, fn, [prog], jobs=1)[0]
    rec["prog"] = prog
    if "lines" in rec:
        rec["safe_upto"] = len(rec["lines"])
    return rec


def shrink_fol(prog, fails, mod="fol", fn="run_fol_program", budget=120):
    """fails(rec) -> truthy when the program still exhibits the failure"""
    cur = copy.deepcopy(prog)
    tries = 0

    def ok(p):
        nonlocal tries
        tries += 1
        rec = run_one(mod, fn, p)
        return "crash" not in rec and bool(fails(rec))

    changed = True
    while changed and tries < budget:
        changed = False
        # drop unused root predicates / last nodes
        used = {oid for n in cur["kb"]["nodes"] for oid, _ in n["ops"]}
        for r in list(cur["kb"]["roots"]):
            if tries >= budget:
                break
            p = copy.deepcopy(cur)
            p["kb"]["roots"] = [x for x in p["kb"]["roots"] if x != r]
            if not p["kb"]["roots"]:
                continue
            is_node = any(n["id"] == r for n in p["kb"]["nodes"])
            if is_node:
                n = next(n for n in p["kb"]["nodes"] if n["id"] == r)
                p["kb"]["nodes"] = [x for x in p["kb"]["nodes"] if x["id"] != r]
                # its operands that are used by nobody else become roots
                used2 = {oid for x in p["kb"]["nodes"] for oid, _ in x["ops"]}
                for oid, _ in n["ops"]:
                    if oid not in used2 and oid not in p["kb"]["roots"]:
                        p["kb"]["roots"].append(oid)
                p["ops"] = [o for o in p["ops"] if not (len(o) > 1 and o[1] == r)]
            else:
                if r in used:
                    continue
                p["kb"]["preds"] = [x for x in p["kb"]["preds"] if x["id"] != r]
                p["facts"] = [f for f in p["facts"] if f[0] != r]
            if ok(p):
                cur, changed = p, True
        for k in range(len(cur["facts"]) - 1, -1, -1):
            if tries >= budget:
                break
            p = copy.deepcopy(cur)
            del p["facts"][k]
            if ok(p):
                cur, changed = p, True
        for k in range(len(cur["ops"]) - 1, -1, -1):
            if tries >= budget:
                break
            p = copy.deepcopy(cur)
            del p["ops"][k]
            if ok(p):
                cur, changed = p, True
    return cur
