"""Adapter around the real `lnn` package (imported from /repo's working tree, in-process).

* builds lnn objects from the harness' KB descriptions,
* records every node-level upward/downward call (class-level wrappers installed from here; the
  repository needs no hooks),
* turns what the implementation holds into protocol lines for the Lean model and into canonical
  output lines (exact rationals, no floats).

Only imported inside worker processes."""
import os
import sys
from fractions import Fraction as Fr

from common import REPO, q

_lnn = None
LOG = []        # [depth, direction, object id, index arg, returned amount]
_DEPTH = [0]


def lnn():
    global _lnn
    if _lnn is None:
        # the working tree of /repo must win over any installed copy
        sys.path[:] = [p for p in sys.path if os.path.abspath(p or ".") != REPO]
        sys.path.insert(0, REPO)
        import torch
        torch.set_num_threads(1)
        import lnn as m
        assert os.path.abspath(m.__file__).startswith(REPO + os.sep), m.__file__
        _lnn = m
        _install_recorders()
    return _lnn


def _wrap(cls, name):
    orig = cls.__dict__[name]

    def w(self, *a, **k):
        d = _DEPTH[0]
        _DEPTH[0] += 1
        idx = None
        if name == "downward":
            idx = a[0] if a else k.get("index")
        entry = [d, name, id(self), idx, None]
        LOG.append(entry)
        try:
            r = orig(self, *a, **k)
        finally:
            _DEPTH[0] -= 1
        entry[4] = r
        return r

    w.__wrapped__ = orig
    setattr(cls, name, w)


def _install_recorders():
    from lnn.symbolic.logic.connective_neuron import _ConnectiveNeuron
    from lnn.symbolic.logic.binary_neuron import Iff
    from lnn.symbolic.logic.n_ary_neuron import XOr
    from lnn.symbolic.logic.unary_operator import Not, _Quantifier
    for cls in (_ConnectiveNeuron, Iff, XOr, Not, _Quantifier):
        for name in ("upward", "downward"):
            if name in cls.__dict__:
                _wrap(cls, name)


def take_log():
    out = [tuple(e) for e in LOG]
    del LOG[:]
    return out


# ------------------------------------------------------------------ exact readers

def fr(x):
    """exact Fraction of a python float / 0-d tensor"""
    if hasattr(x, "item"):
        x = x.item()
    return Fr(float(x))


def amount(x):
    if x is None:
        return Fr(0)
    return fr(x)


def bounds_of(obj):
    d = obj.get_data().detach().reshape(-1).tolist()
    return Fr(d[0]), Fr(d[1])


# ------------------------------------------------------------------ propositional KBs

class PropKB:
    """Builds the lnn objects of a propositional KB description and mirrors it as model nodes.

    description: {'nodes': [{'id', 'kind', 'ops', 'w', 'b', 'alpha', 'act'}...], 'roots': [ids]}
    kinds: atom | not | and | or | implies | iff | xor
    """

    def __init__(self, desc):
        L = lnn()
        self.desc = desc
        self.obj = {}          # model id -> lnn object
        self.idof = {}         # id(object) -> model id
        self.order = []        # model ids in dependency order (operands first)
        self.user_ids = []
        self.requested = {n["id"]: n for n in desc["nodes"] if n["kind"] in ("atom", "and", "or", "implies")}
        next_id = max(n["id"] for n in desc["nodes"]) + 1
        acts = {"luk": L.NeuralActivation.Lukasiewicz, "lukt": L.NeuralActivation.LukasiewiczTransparent}
        for n in desc["nodes"]:
            k = n["kind"]
            wmap = {"axiom": L.World.AXIOM, "closed": L.World.CLOSED, "open": L.World.OPEN}
            if k == "atom":
                kw = {}
                if n.get("alpha", Fr(1)) != 1:
                    kw["activation"] = {"alpha": float(n["alpha"])}
                if n.get("world", "open") != "open":
                    kw["world"] = wmap[n["world"]]
                o = L.Proposition(n.get("name", f"p{n['id']}"), **kw)
                new = [(n["id"], o)]
            else:
                ops = [self.obj[j] for j in n["ops"]]
                act = {}
                if "act" in n:
                    act["type"] = acts[n["act"]]
                if "alpha" in n:
                    act["alpha"] = float(n["alpha"])
                if "b" in n:
                    act["bias"] = float(n["b"])
                if "w" in n:
                    act["weights"] = tuple(float(w) for w in n["w"])
                kw = {"activation": act} if act else {}
                if n.get("world", "open") != "open" and k in ("and", "or", "implies"):
                    kw["world"] = wmap[n["world"]]
                if k == "not":
                    o = L.Not(ops[0])
                    new = [(n["id"], o)]
                elif k in ("and", "or", "implies"):
                    cls = {"and": L.And, "or": L.Or, "implies": L.Implies}[k]
                    o = cls(*ops, **kw)
                    new = [(n["id"], o)]
                elif k == "iff":
                    o = L.Iff(*ops, **kw)
                    new = [(next_id, o.Imp1), (next_id + 1, o.Imp2), (n["id"], o)]
                    next_id += 2
                elif k == "xor":
                    o = L.XOr(*ops, **kw)
                    inner = list(o.conjunctions) + list(o.negations) + [o.disjunction]
                    new = [(next_id + t, x) for t, x in enumerate(inner)] + [(n["id"], o)]
                    next_id += len(inner)
                else:
                    raise ValueError(k)
            for i, o2 in new:
                self.obj[i] = o2
                self.idof[id(o2)] = i
                self.order.append(i)
            self.user_ids.append(n["id"])
        self.model = L.Model()
        self.roots = list(desc["roots"])

    def add_roots(self, order=None):
        L = lnn()
        wmap = {"axiom": L.World.AXIOM, "closed": L.World.CLOSED, "open": L.World.OPEN}
        rw = self.desc.get("root_world", {})
        for r in (order or self.roots):
            w = rw.get(r, rw.get(str(r)))
            if w:
                self.model.add_knowledge(self.obj[r], world=wmap[w])
            else:
                self.model.add_knowledge(self.obj[r])

    # --- mirror as model nodes -------------------------------------------------
    def node_line(self, i):
        L = lnn()
        o = self.obj[i]
        cn = type(o).__name__
        kind = {"Proposition": "atom", "Not": "not", "And": "and", "Or": "or", "Implies": "implies",
                "Iff": "and", "XOr": "and"}[cn]
        ops = [self.idof[id(x)] for x in o.operands]
        neuron = o.neuron
        alpha = fr(neuron.alpha)
        # parameters the description REQUESTED win over what the built object holds: the model then computes the meaning the
        # user configured, and an object that silently holds something else disagrees with it
        req = self.requested.get(i, {})
        if "alpha" in req:
            alpha = Fr(req["alpha"])
        if kind in ("atom", "not"):
            ws, b, t = [], Fr(1), 1
        else:
            ws = [Fr(float(w)) for w in neuron.weights.detach().tolist()]
            b = fr(neuron.bias)
            t = 1 if type(neuron).__name__ == "LukasiewiczTransparent" else 0
            if "w" in req and cn in ("And", "Or", "Implies"):
                ws = [Fr(w) for w in req["w"]]
            if "b" in req and cn in ("And", "Or", "Implies"):
                b = Fr(req["b"])
            if "act" in req and cn in ("And", "Or", "Implies"):
                t = 1 if req["act"] == "lukt" else 0
        pre, post, pidx = [], [], 0
        if cn == "Iff":
            pre = [self.idof[id(o.Imp1)], self.idof[id(o.Imp2)]]
            post = list(pre)
            pidx = 1
        elif cn == "XOr":
            cj = [self.idof[id(x)] for x in o.conjunctions]
            ng = [self.idof[id(x)] for x in o.negations]
            dj = [self.idof[id(o.disjunction)]]
            pre = cj + ng + dj
            post = ng + cj + dj
        opss = ";".join(f"{j}:{q(w)}" for j, w in zip(ops, ws)) if ws else (
            ";".join(f"{j}:1" for j in ops) if ops else "-")
        ids = lambda l: ",".join(map(str, l)) if l else "-"
        return (f"node {i} {kind} a={q(alpha)} b={q(b)} t={t} ops={opss} pre={ids(pre)} "
                f"post={ids(post)} pidx={pidx}")

    def header_lines(self):
        # world assumptions (constructor keyword, add_knowledge(world=)) are initial data of the formula: read them back
        init = []
        for i in self.order:
            lo, hi = bounds_of(self.obj[i])
            if (lo, hi) != (Fr(0), Fr(1)):
                init.append(f"set {i} {q(lo)} {q(hi)}")
        return ["reset"] + [self.node_line(i) for i in self.order] + init

    def all_ids(self):
        return list(self.order)

    def dump(self):
        return "d " + " ".join("%s,%s" % tuple(q(x) for x in bounds_of(self.obj[i])) for i in self.order)

    def dump_line(self):
        return "dump " + ",".join(map(str, self.order))

    def registered_ids(self):
        """ids of objects in Model.nodes"""
        return [self.idof[id(o)] for o in self.model.nodes.values() if id(o) in self.idof]

    def calls(self, log, direction):
        """top-level calls of one direction from a call log -> model ids"""
        return [self.idof[e[2]] for e in log if e[0] == 0 and e[1] == direction and e[2] in self.idof]
