"""Runs cases on the implementation (worker pool), on the Lean model (driver), and compares."""
import importlib
import multiprocessing as mp
import os
import shutil
import sys
import tempfile
import traceback

from common import float_safe, parse_q, run_driver_parallel

HERE = os.path.dirname(os.path.abspath(__file__))
_tmpdir = None


def _init_worker():
    global _tmpdir
    # lnn writes LNN_INFO.log into the cwd: work in a private temporary directory
    _tmpdir = tempfile.mkdtemp(prefix=f"lnnverif_{os.getppid()}_")
    os.chdir(_tmpdir)
    if HERE not in sys.path:
        sys.path.insert(0, HERE)
    import atexit
    atexit.register(lambda: shutil.rmtree(_tmpdir, ignore_errors=True))
    if os.environ.get("VERIF_COVERAGE"):
        # analysis mode (tools/impl_coverage.sh): which lines of /repo/lnn do the streams of this check reach?
        import coverage
        import multiprocessing.util as mpu
        cov = coverage.Coverage(data_file=os.path.join(os.environ["VERIF_COVERAGE"], "cov"), data_suffix=True,
                                include=["/repo/lnn/*"], config_file=False)
        cov.start()

        def _save():
            cov.stop()
            cov.save()
        mpu.Finalize(None, _save, exitpriority=10)
    import impl
    impl.lnn()


def _call(args):
    modname, fname, case = args
    try:
        mod = importlib.import_module(modname)
        return getattr(mod, fname)(case)
    except Exception as e:
        return {"crash": f"{type(e).__name__}: {e}", "trace": traceback.format_exc()[-3000:]}


def run_cases(modname, fname, cases, jobs=None, chunksize=4):
    """run `modname.fname(case)` for every case inside worker processes that have lnn loaded"""
    jobs = jobs or min(14, max(1, (os.cpu_count() or 2) - 2))
    jobs = max(1, min(jobs, len(cases)))
    ctx = mp.get_context("fork")
    with ctx.Pool(jobs, initializer=_init_worker) as pool:
        res = pool.map(_call, [(modname, fname, c) for c in cases], chunksize=chunksize)
        if os.environ.get("VERIF_COVERAGE"):
            pool.close()        # let the workers exit normally so that their coverage data is written
            pool.join()
    # workers are killed by Pool.__exit__ without running atexit: sweep their temp dirs (only this process' workers:
    # checks of other properties may be running at the same time)
    for d in os.listdir(tempfile.gettempdir()):
        if d.startswith(f"lnnverif_{os.getpid()}_"):
            shutil.rmtree(os.path.join(tempfile.gettempdir(), d), ignore_errors=True)
    return res


def model_outputs(records, jobs=8):
    progs = [r["lines"] for r in records if "lines" in r]
    outs = run_driver_parallel(progs, jobs=jobs)
    k = 0
    for r in records:
        if "lines" in r:
            r["model"] = outs[k]
            k += 1
    return records


FACET_OF = {"d": "bounds", "r": "reported", "n": "reported", "c": "contra", "s": "state",
            "t": "tables", "g": "groundings", "e": "errors", "b": "bounds", "ok": None}


_RAT = None


def values_in(line):
    """all rationals occurring in a model output line (after its tag)"""
    global _RAT
    import re
    if _RAT is None:
        _RAT = re.compile(r"-?\d+(?:/\d+)?")
    body = line.split(" ", 1)[1] if " " in line else ""
    vals = []
    for tok in _RAT.findall(body):
        try:
            vals.append(parse_q(tok))
        except Exception:
            pass
    return vals


def compare_record(rec, facets):
    """Walk one program. Returns (disagreements, safe_upto, n_compared):
    disagreements = [(line_no, input line, impl, model)], only for facets of interest and only
    while every model value seen so far was float-safe; safe_upto = number of lines that are in
    the exactly comparable prefix."""
    dis = []
    safe_upto = len(rec["lines"])
    ncmp = 0
    for k, (line, a, b) in enumerate(zip(rec["lines"], rec["impl"], rec["model"])):
        if b.startswith("e BadOp"):
            dis.append((k, line, a, b))
            continue
        if any(not float_safe(v) for v in values_in(b)):
            safe_upto = k
            break
        if a is None:
            continue
        tag = b.split(" ", 1)[0]
        facet = FACET_OF.get(tag, "other")
        if facet is None or (facets is not None and facet not in facets):
            continue
        ncmp += 1
        if tag == "n":
            # steps and total (the model additionally prints its converged flag)
            if a.split()[:3] != b.split()[:3]:
                dis.append((k, line, a, b))
        elif a != b:
            dis.append((k, line, a, b))
    return dis, safe_upto, ncmp
