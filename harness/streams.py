"""Program streams shared by several properties."""
import json
import random
from fractions import Fraction as Fr

import engine
import prop
from common import parse_q, sub_seed


# ------------------------------------------------------------------ (de)serialisation of programs

def ser(x):
    if isinstance(x, Fr):
        return {"$q": f"{x.numerator}/{x.denominator}"}
    if isinstance(x, dict):
        return {str(k): ser(v) for k, v in x.items()}
    if isinstance(x, (list, tuple)):
        return [ser(v) for v in x]
    return x


def deser(x):
    if isinstance(x, dict):
        if set(x.keys()) == {"$q"}:
            return Fr(x["$q"])
        return {k: deser(v) for k, v in x.items()}
    if isinstance(x, list):
        return [deser(v) for v in x]
    return x


def fix_prog(p):
    """after a JSON round trip: tuples for ops, int keys where needed"""
    p = deser(p)
    if "ops" in p:
        p["ops"] = [tuple(o) for o in p["ops"]]
    if "data" in p:
        p["data"] = [tuple(d) for d in p["data"]]
    if p.get("interp_atoms") is not None:
        p["interp_atoms"] = {int(k): v for k, v in p["interp_atoms"].items()}
    return p


def canon(prog):
    return json.dumps(ser(prog), sort_keys=True)


# ------------------------------------------------------------------ propositional programs

def gen_prop_program(seed, k, mode="interp", **opts):
    rng = random.Random(sub_seed(seed, "prop", k))
    downward = opts.pop("downward", True)
    n_ops = opts.pop("n_ops", (3, 16))
    node_level = opts.pop("node_level", True)
    model_level = opts.pop("model_level", True)
    crossed_p = opts.pop("crossed_p", 0.0)
    if mode != "interp":
        # world assumptions (Proposition(world=), And(..., world=), add_knowledge(world=)) are data, not part of an
        # interpretation: only in the streams whose data is arbitrary
        opts.setdefault("worlds", True)
    kb = prop.gen_kb(rng, downward=downward, **opts)
    conn = [n["id"] for n in kb["nodes"] if n["kind"] != "atom"]
    ar = {n["id"]: len(n.get("ops", [])) for n in kb["nodes"]}
    prog = {"kb": kb, "ops": prop.gen_ops(rng, [n["id"] for n in kb["nodes"]], conn, ar, n_ops=n_ops,
                                          node_level=node_level, model_level=model_level)}
    if not downward:
        prog["ops"] = [o for o in prog["ops"] if o[0] in ("up", "passup")] or [("passup",)]
    if mode == "interp":
        prog["interp_atoms"] = {n["id"]: Fr(rng.randint(0, 8), 8) for n in kb["nodes"] if n["kind"] == "atom"}
        prog["data_seed"] = rng.randrange(1 << 30)
    else:
        data = []
        for n in kb["nodes"]:
            p = 0.8 if n["kind"] == "atom" else 0.3
            if rng.random() < p:
                lo, hi = prop.grid_bounds_any(rng, crossed_p=crossed_p)
                data.append((n["id"], lo, hi))
        prog["data"] = data
    if rng.random() < 0.3:
        ro = list(kb["roots"])
        rng.shuffle(ro)
        prog["root_order"] = ro
    return prog


ONE = Fr(1)


def gen_creep_program(seed, k):
    """a feedback loop through connectives that gains one small dyadic step per sweep: infer() needs about 1/step sweeps --
    many more than there are formulae or bounds in the model -- and ends exactly at a classical fixpoint. Data mode 'given'."""
    rng = random.Random(sub_seed(seed, "creep", k))
    step = rng.choice([Fr(1, 16), Fr(1, 16), Fr(1, 32)])
    act = lambda: rng.choice(["lukt", "lukt", "luk"])
    at = lambda i: {"id": i, "kind": "atom"}
    variant = k % 3
    if variant == 0:
        # A -> B, (B or K) -> A, K = step: L(A), L(B) rise by `step` per sweep up to TRUE
        nodes = [at(0), at(1), at(2),
                 {"id": 3, "kind": "implies", "ops": [0, 1], "act": act()},
                 {"id": 4, "kind": "or", "ops": [1, 2], "act": act()},
                 {"id": 5, "kind": "implies", "ops": [4, 0], "act": act()}]
        roots, data = [3, 5], [(2, step, step), (3, ONE, ONE), (5, ONE, ONE)]
    elif variant == 1:
        # C = Or(A, B) with weights (1, 1/2), L(B) = 2*step; C -> A, A -> D, D -> E: a chain behind the loop
        nodes = [at(0), at(1), at(2), at(3),
                 {"id": 4, "kind": "or", "ops": [0, 1], "w": [ONE, Fr(1, 2)], "act": act()},
                 {"id": 5, "kind": "implies", "ops": [4, 0], "act": act()},
                 {"id": 6, "kind": "implies", "ops": [0, 2], "act": act()},
                 {"id": 7, "kind": "implies", "ops": [2, 3], "act": act()}]
        roots, data = [5, 6, 7], [(1, 2 * step, ONE), (5, ONE, ONE), (6, ONE, ONE), (7, ONE, ONE)]
    else:
        # the mirror image on upper bounds: B -> A, A -> (B and K), K = 1 - step: U(A), U(B) fall by `step` per sweep to FALSE
        nodes = [at(0), at(1), at(2),
                 {"id": 3, "kind": "implies", "ops": [1, 0], "act": act()},
                 {"id": 4, "kind": "and", "ops": [1, 2], "act": act()},
                 {"id": 5, "kind": "implies", "ops": [0, 4], "act": act()}]
        roots, data = [3, 5], [(2, 1 - step, 1 - step), (3, ONE, ONE), (5, ONE, ONE)]
    rng.shuffle(roots)
    return {"kb": {"nodes": nodes, "roots": roots}, "data": data, "ops": [("infer", 200)]}


def parse_dump(line):
    """'d l,u l,u ...' -> [(l,u)...]"""
    return [tuple(parse_q(x) for x in tok.split(",")) for tok in line.split()[1:]]


def run_prop_stream(report, name, progs, facets, jobs=None):
    """Execute programs on implementation and model; record correspondence results in the report.
    Returns the records, each annotated with 'safe_upto' and 'disagreements'."""
    recs = engine.run_cases("prop", "run_prop_program", progs, jobs=jobs)
    for r, p in zip(recs, progs):
        r["prog"] = p
    ok_recs = [r for r in recs if "lines" in r]
    engine.model_outputs(ok_recs)
    n_dis = 0
    first = None
    compared = 0
    skipped = 0
    for r in recs:
        if "crash" in r:
            continue
        dis, safe, ncmp = engine.compare_record(r, facets)
        r["disagreements"], r["safe_upto"] = dis, safe
        compared += ncmp
        if safe < len(r["lines"]):
            skipped += 1
        if dis:
            n_dis += 1
            if first is None:
                first = r
    report.bump(f"{name}_programs", len(recs))
    report.bump(f"{name}_lines_compared", compared)
    report.bump(f"{name}_precision_skipped", skipped)
    crashes = [r for r in recs if "crash" in r]
    report.bump(f"{name}_harness_crashes", len(crashes))
    # a program the harness could not drive through the public API (an exception outside an inference call) is not
    # covered by anything: that is a broken obligation, not a statistic
    report.obligation(f"harness:{name}:every-program-ran", not crashes,
                      "" if not crashes else f"{len(crashes)} programs crashed; first: {crashes[0]['crash']}")
    report.obligation(f"correspondence:{name}", n_dis == 0,
                      f"{len(recs)} programs, {compared} lines compared, {n_dis} programs disagree")
    return recs, first


def corpus_programs(pid):
    """minimised past failures for a property (run first)"""
    import os
    from common import CORPUS_DIR
    d = os.path.join(CORPUS_DIR, pid)
    out = []
    if os.path.isdir(d):
        for fn in sorted(os.listdir(d)):
            if fn.endswith(".json") and not fn.startswith("fol_"):
                out.append(fix_prog(json.load(open(os.path.join(d, fn)))["program"]))
    return out


def corpus_fol(pid):
    """first-order corpus programs of a property: corpus/<pid>/fol_*.json"""
    import os
    from common import CORPUS_DIR
    d = os.path.join(CORPUS_DIR, pid)
    out = []
    if os.path.isdir(d):
        for fn in sorted(os.listdir(d)):
            if fn.startswith("fol_") and fn.endswith(".json"):
                p = fix_prog(json.load(open(os.path.join(d, fn)))["program"])
                p["facts"] = [tuple(f) for f in p["facts"]]
                out.append(p)
    return out


# ------------------------------------------------------------------ first-order programs

def gen_fol_program(seed, k, quant=False, crossed_p=0.0, n_ops=(2, 10), mid_facts=0.0, down_first=False, restrict_p=0.0, **opts):
    import fol
    rng = random.Random(sub_seed(seed, "fol", k, quant))
    kb = fol.gen_fol_kb(rng, quant=quant, **opts)
    facts, nc = fol.gen_facts(rng, kb, crossed_p=crossed_p)
    ops = fol.gen_fol_ops(rng, kb, n_ops=n_ops, mid_facts=mid_facts, n_consts=nc, restrict_p=restrict_p)
    if down_first:
        # the first inference call is a DOWNWARD one from a formula that is given (axiom / closed / asserted), onto an operand
        # predicate that has no rows yet: the join then is not a full product, several groundings project onto one new row
        conn = [n for n in kb["nodes"] if n["kind"] in ("and", "or", "implies")]
        if conn:
            n0 = rng.choice(conn)
            n0["world"] = rng.choice(["axiom", "axiom", "closed"])
            pids = [oid for oid, vs in n0["ops"] if vs is not None]
            if len(set(pids)) >= 2:
                narrow = min(pids, key=lambda i: (next(p["arity"] for p in kb["preds"] if p["id"] == i), rng.random()))
                facts = [f for f in facts if f[0] != narrow]
            ops = [rng.choice([("down", n0["id"], None), ("passdown",), ("infer", 1)])] + ops
    if mid_facts and ops and rng.random() < 0.4:
        # everything known about one individual arrives later, between inference calls: tables, joins and quantifier
        # groups then grow in an order that is not the sorted one
        c = rng.choice([0, 0, rng.randrange(nc)])
        late = [f for f in facts if c in f[1]]
        if late and len(late) < len(facts):
            facts = [f for f in facts if c not in f[1]]
            at = rng.randint(1, len(ops))
            ops = ops[:at] + [("fact", f[0], f[1], f[2], f[3]) for f in late] + ops[at:] + [("passup",), ("passdown",)]
    return {"kb": kb, "facts": facts, "ops": ops, "n_consts": nc}


def gen_downfirst_program(seed, k):
    """a given (axiom / closed) connective over a wide predicate with facts and a narrower predicate that has no rows yet, and
    a DOWNWARD call as the first inference: several groundings of the join project onto the same freshly created operand
    row, with different proposals (the per-row merge of a downward step), and the join is not a full product"""
    import fol
    from fractions import Fraction as Fr
    rng = random.Random(sub_seed(seed, "downfirst", k))
    aw = rng.choice([2, 2, 3])
    an = rng.randint(1, aw - 1)
    wide_vars = fol.VARS[:aw]
    narrow_vars = rng.sample(wide_vars, an)
    preds = [{"id": 0, "arity": aw, "world": "open"}, {"id": 1, "arity": an, "world": rng.choice(["open", "open", "closed"])}]
    kind = rng.choice(["implies", "implies", "or", "and"])
    ops = [[0, list(wide_vars)], [1, narrow_vars]]
    if kind != "implies" and rng.random() < 0.5:
        ops.reverse()
    if rng.random() < 0.25:
        preds.append({"id": 2, "arity": 1, "world": "open"})
        ops.append([2, [rng.choice(wide_vars)]])
    nid = len(preds)
    node = {"id": nid, "kind": kind, "ops": ops if kind != "implies" else ops[:2], "act": rng.choice(["lukt", "luk"]),
            "world": "closed" if kind == "and" else "axiom"}
    kb = {"preds": preds, "nodes": [node], "roots": [nid]}
    nc = rng.randint(3, 5)
    import itertools
    facts = []
    for g in itertools.product(range(nc), repeat=aw):
        if rng.random() < (0.45 if aw == 2 else 0.25):
            lo, hi = rng.choice([(Fr(1), Fr(1)), (Fr(0), Fr(0)), (Fr(1), Fr(1)), (Fr(0), Fr(1)), (Fr(1, 2), Fr(3, 4))])
            facts.append((0, list(g), lo, hi))
    if len(preds) > 2:
        for c in range(nc):
            if rng.random() < 0.5:
                facts.append((2, [c], Fr(1), Fr(1)))
    ops_ = [rng.choice([("down", nid, None), ("down", nid, None), ("passdown",)])]
    ops_ += rng.choice([[], [("passup",)], [("infer", 3)], [("down", nid, None)]])
    return {"kb": kb, "facts": facts, "ops": ops_, "n_consts": nc}


def run_fol_stream(report, name, progs, facets, jobs=None, fn="run_fol_program"):
    recs = engine.run_cases("fol", fn, progs, jobs=jobs, chunksize=2)
    for r, p in zip(recs, progs):
        r["prog"] = p
    engine.model_outputs([r for r in recs if "lines" in r])
    n_dis = compared = skipped = 0
    first = None
    for r in recs:
        if "crash" in r:
            continue
        dis, safe, ncmp = engine.compare_record(r, facets)
        r["disagreements"], r["safe_upto"] = dis, safe
        compared += ncmp
        skipped += safe < len(r["lines"])
        if dis:
            n_dis += 1
            first = first or r
    report.bump(f"{name}_programs", len(recs))
    report.bump(f"{name}_lines_compared", compared)
    report.bump(f"{name}_precision_skipped", skipped)
    crashes = [r for r in recs if "crash" in r]
    report.bump(f"{name}_harness_crashes", len(crashes))
    if crashes:
        report.extra.setdefault(f"{name}_first_crash", crashes[0]["crash"] + crashes[0].get("trace", "")[-500:])
    report.obligation(f"harness:{name}:every-program-ran", not crashes,
                      "" if not crashes else f"{len(crashes)} programs crashed; first: {crashes[0]['crash']}")
    report.obligation(f"correspondence:{name}", n_dis == 0,
                      f"{len(recs)} programs, {compared} lines compared, {n_dis} programs disagree")
    return recs, first
