"""Program streams shared by several properties."""
import json
import random
from fractions import Fraction as Fr

import engine
import prop
from common import parse_q, sub_seed


# ------------------------------------------------------------------ (de)serialisation of programs

def ser(x):
    if isinstance(x, Fr):
        return {"$q": f"{x.numerator}/{x.denominator}"}
    if isinstance(x, dict):
        return {str(k): ser(v) for k, v in x.items()}
    if isinstance(x, (list, tuple)):
        return [ser(v) for v in x]
    return x


def deser(x):
    if isinstance(x, dict):
        if set(x.keys()) == {"$q"}:
            return Fr(x["$q"])
        return {k: deser(v) for k, v in x.items()}
    if isinstance(x, list):
        return [deser(v) for v in x]
    return x


def fix_prog(p):
    """after a JSON round trip: tuples for ops, int keys where needed"""
    p = deser(p)
    if "ops" in p:
        p["ops"] = [tuple(o) for o in p["ops"]]
    if "data" in p:
        p["data"] = [tuple(d) for d in p["data"]]
    if p.get("interp_atoms") is not None:
        p["interp_atoms"] = {int(k): v for k, v in p["interp_atoms"].items()}
    return p


def canon(prog):
    return json.dumps(ser(prog), sort_keys=True)


# ------------------------------------------------------------------ propositional programs

def gen_prop_program(seed, k, mode="interp", **opts):
    rng = random.Random(sub_seed(seed, "prop", k))
    downward = opts.pop("downward", True)
    n_ops = opts.pop("n_ops", (3, 16))
    node_level = opts.pop("node_level", True)
    model_level = opts.pop("model_level", True)
    crossed_p = opts.pop("crossed_p", 0.0)
    if mode != "interp":
        # world assumptions (Proposition(world=), And(..., world=), add_knowledge(world=)) are data, not part of an
        # interpretation: only in the streams whose data is arbitrary
        opts.setdefault("worlds", True)
    kb = prop.gen_kb(rng, downward=downward, **opts)
    conn = [n["id"] for n in kb["nodes"] if n["kind"] != "atom"]
    ar = {n["id"]: len(n.get("ops", [])) for n in kb["nodes"]}
    prog = {"kb": kb, "ops": prop.gen_ops(rng, [n["id"] for n in kb["nodes"]], conn, ar, n_ops=n_ops,
                                          node_level=node_level, model_level=model_level)}
    if not downward:
        prog["ops"] = [o for o in prog["ops"] if o[0] in ("up", "passup")] or [("passup",)]
    if mode == "interp":
        prog["interp_atoms"] = {n["id"]: Fr(rng.randint(0, 8), 8) for n in kb["nodes"] if n["kind"] == "atom"}
        prog["data_seed"] = rng.randrange(1 << 30)
    else:
        data = []
        for n in kb["nodes"]:
            p = 0.8 if n["kind"] == "atom" else 0.3
            if rng.random() < p:
                lo, hi = prop.grid_bounds_any(rng, crossed_p=crossed_p)
                data.append((n["id"], lo, hi))
        prog["data"] = data
    if rng.random() < 0.3:
        ro = list(kb["roots"])
        rng.shuffle(ro)
        prog["root_order"] = ro
    return prog


def parse_dump(line):
    """'d l,u l,u ...' -> [(l,u)...]"""
    return [tuple(parse_q(x) for x in tok.split(",")) for tok in line.split()[1:]]


def run_prop_stream(report, name, progs, facets, jobs=None):
    """Execute programs on implementation and model; record correspondence results in the report.
    Returns the records, each annotated with 'safe_upto' and 'disagreements'."""
    recs = engine.run_cases("prop", "run_prop_program", progs, jobs=jobs)
    for r, p in zip(recs, progs):
        r["prog"] = p
    ok_recs = [r for r in recs if "lines" in r]
    engine.model_outputs(ok_recs)
    n_dis = 0
    first = None
    compared = 0
    skipped = 0
    for r in recs:
        if "crash" in r:
            continue
        dis, safe, ncmp = engine.compare_record(r, facets)
        r["disagreements"], r["safe_upto"] = dis, safe
        compared += ncmp
        if safe < len(r["lines"]):
            skipped += 1
        if dis:
            n_dis += 1
            if first is None:
                first = r
    report.bump(f"{name}_programs", len(recs))
    report.bump(f"{name}_lines_compared", compared)
    report.bump(f"{name}_precision_skipped", skipped)
    report.bump(f"{name}_harness_crashes", sum(1 for r in recs if "crash" in r))
    report.obligation(f"correspondence:{name}", n_dis == 0,
                      f"{len(recs)} programs, {compared} lines compared, {n_dis} programs disagree")
    return recs, first


def corpus_programs(pid):
    """minimised past failures for a property (run first)"""
    import os
    from common import CORPUS_DIR
    d = os.path.join(CORPUS_DIR, pid)
    out = []
    if os.path.isdir(d):
        for fn in sorted(os.listdir(d)):
            if fn.endswith(".json"):
                out.append(fix_prog(json.load(open(os.path.join(d, fn)))["program"]))
    return out


# ------------------------------------------------------------------ first-order programs

def gen_fol_program(seed, k, quant=False, crossed_p=0.0, n_ops=(2, 10), **opts):
    import fol
    rng = random.Random(sub_seed(seed, "fol", k, quant))
    kb = fol.gen_fol_kb(rng, quant=quant, **opts)
    facts, nc = fol.gen_facts(rng, kb, crossed_p=crossed_p)
    ops = fol.gen_fol_ops(rng, kb, n_ops=n_ops)
    return {"kb": kb, "facts": facts, "ops": ops, "n_consts": nc}


def run_fol_stream(report, name, progs, facets, jobs=None, fn="run_fol_program"):
    recs = engine.run_cases("fol", fn, progs, jobs=jobs, chunksize=2)
    for r, p in zip(recs, progs):
        r["prog"] = p
    engine.model_outputs([r for r in recs if "lines" in r])
    n_dis = compared = skipped = 0
    first = None
    for r in recs:
        if "crash" in r:
            continue
        dis, safe, ncmp = engine.compare_record(r, facets)
        r["disagreements"], r["safe_upto"] = dis, safe
        compared += ncmp
        skipped += safe < len(r["lines"])
        if dis:
            n_dis += 1
            first = first or r
    report.bump(f"{name}_programs", len(recs))
    report.bump(f"{name}_lines_compared", compared)
    report.bump(f"{name}_precision_skipped", skipped)
    crashes = [r for r in recs if "crash" in r]
    report.bump(f"{name}_harness_crashes", len(crashes))
    if crashes:
        report.extra.setdefault(f"{name}_first_crash", crashes[0]["crash"] + crashes[0].get("trace", "")[-500:])
    report.obligation(f"correspondence:{name}", n_dis == 0,
                      f"{len(recs)} programs, {compared} lines compared, {n_dis} programs disagree")
    return recs, first
