"""exact-rational reference arithmetic of the weighted Lukasiewicz neurons (used by oracles only)"""
from fractions import Fraction as Fr

ONE, ZERO = Fr(1), Fr(0)


def clamp(x):
    return min(ONE, max(ZERO, x))


def and_up(w, b, Ls, Us):
    return clamp(b - sum(wi * (1 - l) for wi, l in zip(w, Ls))), clamp(b - sum(wi * (1 - u) for wi, u in zip(w, Us)))


def act_up(kind, w, b, Ls, Us):
    if kind == "and":
        return and_up(w, b, Ls, Us)
    if kind == "or":
        l, u = and_up(w, b, [1 - x for x in Us], [1 - x for x in Ls])
        return 1 - u, 1 - l
    return (clamp(1 - b + w[0] * (1 - Us[0]) + w[1] * Ls[1]), clamp(1 - b + w[0] * (1 - Ls[0]) + w[1] * Us[1]))


def and_down(w, b, alpha, L, U, Ls, Us):
    fl = L + ((b - sum(w)) if L <= 0 else 0)
    fu = U + ((b - 1) if U >= 1 else 0)
    tl = [wi * (1 - l) for wi, l in zip(w, Ls)]
    tu = [wi * (1 - u) for wi, u in zip(w, Us)]
    sl, su = sum(tl), sum(tu)
    outL, outU = [], []
    for i, wi in enumerate(w):
        if wi == 0:
            outL.append(ZERO)
            outU.append(ONE)
            continue
        lo = 1 + (fl - b + (su - tu[i])) / wi if L > 1 - alpha else ZERO
        hi = 1 + (fu - b + (sl - tl[i])) / wi if U < alpha else ONE
        outL.append(clamp(lo))
        outU.append(clamp(hi))
    return outL, outU


def act_down(kind, w, b, alpha, L, U, Ls, Us):
    if kind == "and":
        return and_down(w, b, alpha, L, U, Ls, Us)
    if kind == "or":
        aL, aU = and_down(w, b, alpha, 1 - U, 1 - L, [1 - x for x in Us], [1 - x for x in Ls])
        return [1 - x for x in aU], [1 - x for x in aL]
    aL, aU = and_down(w, b, alpha, 1 - U, 1 - L, [Ls[0], 1 - Us[1]], [Us[0], 1 - Ls[1]])
    return [aL[0], 1 - aU[1]], [aU[0], 1 - aL[1]]


def agg(prev, new):
    return clamp(max(prev[0], new[0])), clamp(min(prev[1], new[1]))
