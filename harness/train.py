"""C18: Model.train with a scripted torch optimiser (public `optimizer=` argument) vs the Lean training model."""
import random
import signal
from fractions import Fraction as Fr

import prop
from common import q

ONE, ZERO = Fr(1), Fr(0)


class _Timeout(Exception):
    pass


def _alarm(signum, frame):
    raise _Timeout()


def run_train(case):
    """case: {'kb', 'data': [(id,lo,hi)], 'labels': [(id,lo,hi)], 'losses': {'c': coeff|None-absent, 's':, 'u':},
              'epochs': k, 'script': {epoch: {id: (db, [dw...])}}, 'adam': bool, 'negw': [ids]}"""
    import impl
    import torch
    L = impl.lnn()
    impl.take_log()
    kb = impl.PropKB(case["kb"])
    kb.add_roots()
    model = kb.model
    for i in case.get("negw", []):
        kb.obj[i].neuron.set_negative_weights(True)
    lines = kb.header_lines()
    out = ["ok"] * len(lines)
    for i, lo, hi in case["data"]:
        model.add_data({kb.obj[i]: (float(lo), float(hi))})
        lines.append(f"set {i} {q(lo)} {q(hi)}")
        out.append("ok")
    if case["labels"]:
        model.add_labels({kb.obj[i]: (float(lo), float(hi)) for i, lo, hi in case["labels"]})
    facts_before = {i: impl.bounds_of(kb.obj[i]) for i in kb.order}
    leaves_before = {i: [Fr(x) for x in kb.obj[i].neuron.leaves.detach().reshape(-1).tolist()] for i in kb.order}
    labels_before = {i: [Fr(x) for x in kb.obj[i].labels.reshape(-1).tolist()] for i, _, _ in case["labels"]}
    # learn the (static) sweep schedule, then return to the data
    model.upward()
    ups = kb.calls(impl.take_log(), "upward")
    model.downward()
    downs = kb.calls(impl.take_log(), "downward")
    model.reset_bounds()

    conn = [i for i in kb.order if type(kb.obj[i]).__name__ not in ("Proposition", "Not")]
    script = {int(e): {int(i): v for i, v in d.items()} for e, d in case["script"].items()}

    class Scripted(torch.optim.Optimizer):
        def __init__(self, params):
            super().__init__(params, {})
            self.epoch = 0

        @torch.no_grad()
        def step(self, closure=None):
            for i, (db, dw) in script.get(self.epoch, {}).items():
                n = kb.obj[i].neuron
                n.bias.data = n.bias.data + float(db)
                n.weights.data = n.weights.data + torch.tensor([float(x) for x in dw])
            self.epoch += 1

    snaps = []
    orig_project = model._project_params

    def project_and_snap():
        orig_project()
        snaps.append({i: (impl.fr(kb.obj[i].neuron.bias), [Fr(float(w)) for w in kb.obj[i].neuron.weights.detach().tolist()])
                      for i in conn})

    model._project_params = project_and_snap
    lmap = {"c": L.Loss.CONTRADICTION, "s": L.Loss.SUPERVISED, "u": L.Loss.UNCERTAINTY}
    losses = {lmap[k]: (None if v is None else float(v)) for k, v in case["losses"].items()}
    # max_steps is forwarded by train() to every infer(): with non-dyadic parameters (Adam) float rounding can make a sweep
    # creep by > 1e-7 for ever (observed; see DESIGN.md), the cap keeps the check finite and is applied to both sides
    cap = 200 if not case.get("adam") else 50
    kw = {"epochs": case["epochs"], "max_steps": cap}
    if not case.get("adam"):
        kw["optimizer"] = Scripted(model.parameters())
    else:
        kw["learning_rate"] = float(case.get("lr", Fr(1, 16)))
    meta = {"errors": [], "ids": kb.all_ids()}
    signal.signal(signal.SIGALRM, _alarm)
    signal.alarm(60)
    try:
        (running, history), inf_hist = model.train(losses=losses, **kw)
    except _Timeout:
        meta["errors"].append("train() did not return within 60 s")
        return {"lines": lines, "impl": out, "meta": meta}
    except Exception as e:
        meta["errors"].append(f"train raised {type(e).__name__}: {str(e)[:300]}")
        return {"lines": lines, "impl": out, "meta": meta}
    finally:
        signal.alarm(0)
    steps = len(snaps)
    # ---- observations for the oracle
    meta["steps"] = steps
    meta["history"] = [[q(Fr(x)) for x in h] for h in history]
    meta["facts_unchanged"] = all(
        [Fr(x) for x in kb.obj[i].neuron.leaves.detach().reshape(-1).tolist()] == leaves_before[i] for i in kb.order)
    meta["labels_unchanged"] = all([Fr(x) for x in kb.obj[i].labels.reshape(-1).tolist()] == labels_before[i] for i in labels_before)
    final_bounds = {i: impl.bounds_of(kb.obj[i]) for i in kb.order}
    params = {i: (impl.fr(kb.obj[i].neuron.bias), [Fr(float(w)) for w in kb.obj[i].neuron.weights.detach().tolist()]) for i in conn}
    meta["params"] = {i: [q(b), [q(w) for w in ws]] for i, (b, ws) in params.items()}
    import math
    meta["finite"] = all(math.isfinite(float(p)) for p in model.parameters() for p in p.detach().reshape(-1).tolist())
    meta["negw"] = list(case.get("negw", []))
    model.reset_bounds()
    model.infer(max_steps=cap)
    again = {i: impl.bounds_of(kb.obj[i]) for i in kb.order}
    meta["final_equals_reset_infer"] = again == final_bounds
    meta["final"] = {i: [q(b[0]), q(b[1])] for i, b in final_bounds.items()}
    meta["again"] = {i: [q(b[0]), q(b[1])] for i, b in again.items()}
    meta["crossed_final"] = [i for i, b in final_bounds.items() if b[0] > b[1]]
    if not case.get("adam"):
        ids = lambda l: ",".join(map(str, l)) if l else "-"
        lab = ";".join(f"{i}:{q(lo)},{q(hi)}" for i, lo, hi in case["labels"]) or "-"
        scr = "~".join(f"{e}:{i}:{q(db)}:{','.join(q(x) for x in dw)}" for e, d in sorted(script.items())
                       for i, (db, dw) in sorted(d.items()) if e < steps) or "-"
        co = lambda k: "-" if k not in case["losses"] else q(case["losses"][k] if case["losses"][k] is not None else {"c": 1, "s": 1, "u": 0}[k])
        lines.append(f"train steps={steps} eps={prop.EPS} max=200 up={ids(ups)} down={ids(downs)} nodes={ids(kb.order)} pnodes={ids(conn)} "
                     f"negw={ids(case.get('negw', []))} closs={co('c')} sloss={co('s')} uloss={co('u')} labels={lab} script={scr}")
        order = [k for k in ("c", "s", "u") if k in case["losses"]]
        # torch's loss_fn order is the dict order of `losses`
        parts = []
        for e in range(steps):
            by_key = dict(zip(list(case["losses"].keys()), history[e]))       # torch's order is the dict order of `losses`
            hl = [q(Fr(by_key[k])) for k in order]
            ps = " ".join(f"{i}:{q(snaps[e][i][0])}:{','.join(q(w) for w in snaps[e][i][1])}" for i in conn)
            parts.append(",".join(hl) + ";" + ps)
        out.append("T " + " | ".join(parts) + " || " + " ".join(f"{q(final_bounds[i][0])},{q(final_bounds[i][1])}" for i in kb.order))
    return {"lines": lines, "impl": out, "meta": meta}


def gen_train_case(rng, adam=False):
    kb = prop.gen_kb(rng, n_atoms=(2, 3), n_conn=(1, 3), kinds=["and", "or", "implies", "and", "or", "not"], alphas=False,
                     atom_alpha=False, max_arity=3)
    nodes = kb["nodes"]
    conn = [n for n in nodes if n["kind"] in ("and", "or", "implies")]
    if not conn:
        return None
    data = []
    for n in nodes:
        if n["kind"] == "atom" and rng.random() < 0.9:
            v = rng.choice([ZERO, ONE, Fr(1, 2), Fr(3, 4), Fr(1, 4)])
            data.append((n["id"], v, v) if rng.random() < 0.7 else (n["id"], min(v, Fr(1, 2)), max(v, Fr(1, 2))))
    labels = []
    for n in conn:
        if rng.random() < 0.7:
            labels.append((n["id"],) + rng.choice([(ONE, ONE), (ZERO, ZERO), (Fr(1, 2), ONE), (ZERO, Fr(1, 2))]))
    if rng.random() < 0.3:
        # a label-like fact on a connective, to provoke contradictions
        n = rng.choice(conn)
        data.append((n["id"],) + rng.choice([(ONE, ONE), (ZERO, ZERO)]))
    losses = {}
    for k in rng.sample(["c", "s", "u"], rng.randint(1, 3)):
        losses[k] = rng.choice([None, ONE, Fr(1, 2), Fr(2)])
    if "s" in losses and not labels:
        labels.append((conn[0]["id"], ONE, ONE))
    epochs = rng.randint(1, 4)
    script = {}
    for e in range(epochs):
        d = {}
        for n in conn:
            if rng.random() < 0.8:
                ar = len(n["ops"])
                big = rng.random() < 0.15
                d[n["id"]] = (rng.choice([Fr(1, 4), Fr(-1, 4), Fr(-1, 2), ZERO, Fr(1, 2), Fr(-4) if big else Fr(1, 8)]),
                              [rng.choice([Fr(1, 4), Fr(-1, 4), Fr(-1, 2), ZERO, Fr(1, 2), Fr(-8) if big else Fr(1, 4), Fr(1)]) for _ in range(ar)])
        script[e] = d
    case = {"kb": kb, "data": data, "labels": labels, "losses": losses, "epochs": epochs, "script": script, "adam": adam, "negw": []}
    if adam:
        case["epochs"] = rng.randint(1, 12)
        case["lr"] = rng.choice([Fr(1, 16), Fr(1, 4), Fr(1)])
        case["negw"] = []
    return case


def run_projection(case):
    """project_params of real neurons with arbitrary (also negative) parameters, with and without negative_weights"""
    import impl
    import torch
    L = impl.lnn()
    lines, out = ["reset"], ["ok"]
    for nrn in case["neurons"]:
        n = len(nrn["w"])
        props = [L.Proposition(f"p{k}") for k in range(n)]
        o = (L.And if nrn["kind"] == "and" else L.Or)(*props)
        if nrn["negw"]:
            o.neuron.set_negative_weights(True)
        o.neuron.weights.data = torch.tensor([float(w) for w in nrn["w"]])
        o.neuron.bias.data = torch.tensor(float(nrn["b"]))
        m = L.Model()
        m.add_knowledge(o)
        m._project_params()
        lines.append(f"proj {1 if nrn['negw'] else 0} {q(nrn['b'])} {','.join(q(w) for w in nrn['w'])}")
        out.append(f"p {q(impl.fr(o.neuron.bias))} {','.join(q(Fr(float(w))) for w in o.neuron.weights.detach().tolist())}")
    return {"lines": lines, "impl": out, "meta": {}}


def run_loss_gap(case):
    """known finding D15: bounds that cross inside one classical region (alpha < 1) are not flagged by is_contradiction, so
    the contradiction loss is 0 although the bounds cross, and the uncertainty loss is negative"""
    import impl
    L = impl.lnn()
    P = L.Proposition("p", activation={"alpha": 0.75})
    m = L.Model()
    m.add_knowledge(P)
    m.add_data({P: (0.125, 0.0625)})
    c = m.loss_fn({L.Loss.CONTRADICTION: 1.0})[0]
    u = m.loss_fn({L.Loss.UNCERTAINTY: 1.0})[0]
    return {"contradiction_loss": float(c), "uncertainty_loss": float(u), "crossed": True,
            "is_contradiction": bool(P.is_contradiction())}
