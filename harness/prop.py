"""Propositional programs: generator, execution on the implementation, protocol emission."""
import random
from fractions import Fraction as Fr

from common import q

ONE, ZERO = Fr(1), Fr(0)
EPS = "1/10000000"


def clamp(x):
    return min(ONE, max(ZERO, x))


# ------------------------------------------------------------------ generation

W_POW2 = [Fr(1, 4), Fr(1, 2), ONE, ONE, ONE, Fr(2), Fr(4), ZERO]
W_ANY = W_POW2 + [Fr(3, 4), Fr(3, 2), Fr(3), Fr(5, 4)]
BIASES = [ONE, ONE, ONE, Fr(1, 2), Fr(3, 2), Fr(2), Fr(3, 4), Fr(5, 4), ZERO]      # 0 is the legal lower end of the bias range
ALPHAS = [ONE, ONE, Fr(7, 8), Fr(3, 4)]


def alpha_ok(alpha, arity):
    return alpha >= Fr(arity, arity + 1)


def gen_kb(rng, n_atoms=(2, 5), n_conn=(1, 6), kinds=None, weighted=True, downward=True,
           alphas=True, atom_alpha=True, max_arity=4, worlds=False, repeat_p=0.1):
    kinds = kinds or ["and", "or", "implies", "not", "iff", "xor", "and", "or", "implies"]
    nodes = []
    na = rng.randint(*n_atoms)
    for i in range(na):
        n = {"id": i, "kind": "atom"}
        if atom_alpha and alphas and rng.random() < 0.15:
            n["alpha"] = rng.choice([Fr(7, 8), Fr(3, 4)])
        nodes.append(n)
    nc = rng.randint(*n_conn)
    wset = W_POW2 if downward else W_ANY
    nid = na
    for _ in range(nc):
        k = rng.choice(kinds)
        pool = list(range(nid))
        n = {"id": nid, "kind": k}
        if k == "not":
            n["ops"] = [rng.choice(pool)]
        else:
            if k in ("implies", "iff"):
                ar = 2
            elif k == "xor":
                ar = rng.choice([2, 2, 3])
            else:
                ar = rng.randint(2, max_arity)
            # prefer recent nodes so that graphs get deep; one formula object in several operand slots (And(A, A),
            # Or(A, B, A)) is legal: rarely by default, often when repeat_p is raised
            ops = []
            for _ in range(ar):
                c = rng.choice(pool[-4:] if rng.random() < 0.5 else pool)
                if c in ops and rng.random() >= repeat_p and len(set(pool)) > len(set(ops)):
                    c = rng.choice([p for p in pool if p not in ops])
                ops.append(c)
            n["ops"] = ops
            n["act"] = rng.choice(["lukt", "lukt", "luk"])
            own_arities = {"xor": [2, ar, ar * (ar - 1) // 2 + 1], "iff": [2]}.get(k, [ar])
            if alphas:
                cands = [a for a in ALPHAS if all(alpha_ok(a, x) for x in own_arities)]
                n["alpha"] = rng.choice(cands)
            if weighted and k != "xor":
                if rng.random() < 0.6:
                    n["w"] = [rng.choice(wset) for _ in range(ar)]
                if rng.random() < 0.5:
                    n["b"] = rng.choice(BIASES)
        nodes.append(n)
        nid += 1
    if worlds:
        for n in nodes:
            if n["kind"] in ("atom", "and", "or", "implies") and rng.random() < 0.12:
                n["world"] = rng.choice(["axiom", "closed"])
    used = {j for n in nodes for j in n.get("ops", [])}
    roots = [n["id"] for n in nodes if n["id"] not in used and n["kind"] != "atom"]
    if not roots:
        roots = [nodes[-1]["id"]]
    # a stray atom that is nobody's operand is added as its own root
    roots += [n["id"] for n in nodes if n["kind"] == "atom" and n["id"] not in used]
    rng.shuffle(roots)
    desc = {"nodes": nodes, "roots": roots}
    if worlds and rng.random() < 0.3:
        desc["root_world"] = {rng.choice(roots): rng.choice(["axiom", "closed"])}
    return desc


def grid_bounds_around(rng, v, den=16, point_p=0.15, wide_p=0.25):
    """bounds on the 1/den grid that contain v"""
    lo_max = (v * den).__floor__()
    hi_min = -((-v * den).__floor__())
    if rng.random() < wide_p:
        return ZERO, ONE
    if rng.random() < point_p and v.denominator <= den and den % v.denominator == 0:
        return v, v
    lo = Fr(rng.randint(0, lo_max), den) if rng.random() < 0.7 else ZERO
    hi = Fr(rng.randint(hi_min, den), den) if rng.random() < 0.7 else ONE
    return lo, hi


def grid_bounds_any(rng, den=8, crossed_p=0.0):
    a, b = Fr(rng.randint(0, den), den), Fr(rng.randint(0, den), den)
    lo, hi = min(a, b), max(a, b)
    if rng.random() < crossed_p and lo != hi:
        lo, hi = hi, lo
    r = rng.random()
    if r < 0.2:
        return ZERO, ONE
    if r < 0.3:
        return ONE, ONE
    if r < 0.4:
        return ZERO, ZERO
    return lo, hi


def gen_ops(rng, kb_ids, conn_ids, arities, n_ops=(3, 20), node_level=True, model_level=True):
    ops = []
    for _ in range(rng.randint(*n_ops)):
        r = rng.random()
        if node_level and conn_ids and r < 0.6:
            i = rng.choice(conn_ids)
            if rng.random() < 0.5:
                ops.append(("up", i))
            else:
                idx = None
                if rng.random() < 0.3 and arities.get(i, 0) >= 1:
                    idx = rng.randrange(arities[i])
                ops.append(("down", i, idx))
        elif model_level:
            t = rng.random()
            if t < 0.35:
                ops.append(("passup",))
            elif t < 0.7:
                ops.append(("passdown",))
            else:
                ops.append(("infer", rng.choice([1, 2, 3, 30])))
    return ops


# ------------------------------------------------------------------ execution on the implementation

def truth_values(kb, atom_vals):
    """exact truth value of every node under an atom assignment, under the parameters the description REQUESTED (the meaning
    the user configured); where nothing was requested -- defaults, the generated inner formulae of Iff / XOr -- the parameters
    the implementation holds"""
    import impl
    v = {}
    for i in kb.order:
        o = kb.obj[i]
        cn = type(o).__name__
        ops = [v[kb.idof[id(x)]] for x in o.operands]
        if cn == "Proposition":
            v[i] = atom_vals[i]
        elif cn == "Not":
            v[i] = 1 - ops[0]
        else:
            ws = [Fr(float(w)) for w in o.neuron.weights.detach().tolist()]
            b = impl.fr(o.neuron.bias)
            req = getattr(kb, "requested", {}).get(i, {})
            if cn in ("And", "Or", "Implies"):
                if "w" in req:
                    ws = [Fr(w) for w in req["w"]]
                if "b" in req:
                    b = Fr(req["b"])
            if cn in ("And", "Iff", "XOr"):
                v[i] = clamp(b - sum(w * (1 - x) for w, x in zip(ws, ops)))
            elif cn == "Or":
                v[i] = clamp(1 - b + sum(w * x for w, x in zip(ws, ops)))
            elif cn == "Implies":
                v[i] = clamp(1 - b + ws[0] * (1 - ops[0]) + ws[1] * ops[1])
            else:
                raise ValueError(cn)
    return v


def run_prop_program(prog):
    """Execute a propositional program on the implementation.

    prog: {'kb': desc, 'root_order': [...]|None, 'data': [(id, L, U)], 'ops': [...],
           'interp_atoms': {id: value}|None, 'data_mode': 'interp'|'given'}
    Returns {'lines', 'impl', 'meta'}: protocol lines for the model and what the implementation
    printed for each of them (None = not compared)."""
    import impl
    L = impl.lnn()
    impl.take_log()
    kb = impl.PropKB(prog["kb"])
    kb.add_roots(prog.get("root_order"))
    lines = kb.header_lines()
    out = ["ok"] * len(lines)
    meta = {"ids": kb.all_ids(), "errors": [], "sched": [], "registered": sorted(kb.registered_ids()),
            "kinds": {i: type(kb.obj[i]).__name__ for i in kb.order},
            "arity": {i: len(kb.obj[i].operands) for i in kb.order}}

    # interpretation-first data
    interp = None
    data = list(prog.get("data", []))
    if prog.get("interp_atoms") is not None:
        interp = truth_values(kb, {int(k): v for k, v in prog["interp_atoms"].items()})
        meta["interp"] = {i: q(x) for i, x in interp.items()}
        rng = random.Random(prog.get("data_seed", 0))
        data = []
        for i in kb.order:
            p = 0.8 if type(kb.obj[i]).__name__ == "Proposition" else prog.get("conn_data_p", 0.35)
            if rng.random() < p:
                lo, hi = grid_bounds_around(rng, interp[i])
                data.append((i, lo, hi))
    meta["data"] = [(i, q(l), q(u)) for i, l, u in data]
    for i, lo, hi in data:
        kb.model.add_data({kb.obj[i]: (float(lo), float(hi))})
        lines.append(f"set {i} {q(lo)} {q(hi)}")
        out.append("ok")
    lines.append(kb.dump_line())
    out.append(kb.dump())

    def snap():
        lines.append(kb.dump_line())
        out.append(kb.dump())
        lines.append("contra " + ",".join(map(str, meta["registered"])))
        out.append("c %d" % (1 if kb.model.has_contradiction() else 0))

    ids = lambda l: ",".join(map(str, l)) if l else "-"
    for op in prog["ops"]:
        impl.take_log()
        try:
            if op[0] == "up":
                r = kb.obj[op[1]].upward()
                lines.append(f"up {op[1]}")
                out.append("r " + q(impl.amount(r)))
            elif op[0] == "down":
                idx = op[2]
                r = kb.obj[op[1]].downward(index=idx) if idx is not None else kb.obj[op[1]].downward()
                lines.append(f"down {op[1]} {'-' if idx is None else idx}")
                out.append("r " + q(impl.amount(r)))
            elif op[0] in ("passup", "passdown"):
                d = "up" if op[0] == "passup" else "down"
                steps, r = (kb.model.upward() if d == "up" else kb.model.downward())
                log = impl.take_log()
                sched = kb.calls(log, d + "ward")
                meta["sched"].append((d, sched))
                lines.append(f"pass {d} {ids(sched)}")
                out.append("r " + q(impl.amount(r)))
            elif op[0] == "infer":
                mx = op[1]
                kw = {}
                if len(op) > 2 and op[2] is not None:
                    kw["source"] = kb.obj[op[2]]
                steps, r = kb.model.infer(max_steps=mx, **kw)
                log = impl.take_log()
                ups = kb.calls(log, "upward")
                downs = kb.calls(log, "downward")
                # the traversal is static: every sweep must repeat the first one
                per_u = len(ups) // max(steps, 1)
                per_d = len(downs) // max(steps, 1)
                su, sd = ups[:per_u], downs[:per_d]
                if steps and (su * steps != ups or sd * steps != downs):
                    meta["errors"].append("sweeps-differ")
                meta["sched"].append(("infer", su, sd, steps))
                qid = "-"
                conv = 0
                if kb.model.query is not None and id(kb.model.query) in kb.idof:
                    qid = str(kb.idof[id(kb.model.query)])
                    conv = 1 if kb.model._converge else 0
                lines.append(f"infer {EPS} {mx} {qid} {conv} {ids(su)} {ids(sd)}")
                out.append(f"n {steps} {q(impl.amount(r))}")
            elif op[0] == "data":
                _, i, lo, hi = op
                kb.model.add_data({kb.obj[i]: (float(lo), float(hi))})
                lines.append(f"set {i} {q(lo)} {q(hi)}")
                out.append("ok")
            elif op[0] == "resetb":
                kb.model.reset_bounds()
                lines.append("resetb")
                out.append("ok")
            elif op[0] == "print":
                import io, contextlib
                with contextlib.redirect_stdout(io.StringIO()):
                    kb.model.print()
                    for i in kb.order:
                        kb.obj[i].state()
                continue
            elif op[0] == "query":
                _, i, conv = op
                kb.model.set_query(kb.obj[i], converge=bool(conv))
                lines.append(f"set {i} 0 1")
                out.append("ok")
                continue
            else:
                raise ValueError(op)
        except Exception as e:  # an exception from the engine is an observable
            meta["errors"].append(f"{op}: {type(e).__name__}: {e}")
            break
        snap()
    return {"lines": lines, "impl": out, "meta": meta}


# ------------------------------------------------------------------ C07: order independence

def run_c07(case):
    """Run one KB + data under several orders: infer(), infer() with permuted roots, and random fair
    node-level schedules until a whole round changes nothing. Returns protocol lines of all variants
    (separated by `reset`) and the final dumps for the oracle."""
    import impl
    L = impl.lnn()
    rng = random.Random(case["seed"])
    variants = []
    lines, out = [], []
    data = None
    n_var = case.get("n_schedules", 3)
    for vi in range(2 + n_var):
        impl.take_log()
        kb = impl.PropKB(case["kb"])
        roots = list(kb.roots)
        if vi >= 1:
            rng.shuffle(roots)
        kb.add_roots(roots)
        hdr = kb.header_lines()
        lines += hdr
        out += ["ok"] * len(hdr)
        if data is None:
            if case.get("interp_atoms") is not None:
                interp = truth_values(kb, {int(k): v for k, v in case["interp_atoms"].items()})
                drng = random.Random(case.get("data_seed", 0))
                data = []
                for i in kb.order:
                    p = 0.8 if type(kb.obj[i]).__name__ == "Proposition" else 0.35
                    if drng.random() < p:
                        lo, hi = grid_bounds_around(drng, interp[i])
                        data.append((i, lo, hi))
            else:
                data = [tuple(d) for d in case["data"]]
        dd = list(data)
        if vi >= 1:
            rng.shuffle(dd)
        for i, lo, hi in dd:
            kb.model.add_data({kb.obj[i]: (float(lo), float(hi))})
            lines.append(f"set {i} {q(lo)} {q(hi)}")
            out.append("ok")
        registered = sorted(kb.registered_ids())
        ids = lambda l: ",".join(map(str, l)) if l else "-"
        info = {"kind": "infer" if vi < 2 else "schedule", "roots": roots}
        if vi < 2:
            steps, r = kb.model.infer(max_steps=200)
            log = impl.take_log()
            ups, downs = kb.calls(log, "upward"), kb.calls(log, "downward")
            per_u, per_d = len(ups) // max(steps, 1), len(downs) // max(steps, 1)
            lines.append(f"infer {EPS} 200 - 0 {ids(ups[:per_u])} {ids(downs[:per_d])}")
            out.append(f"n {steps} {q(impl.amount(r))}")
            info["steps"] = steps
        else:
            calls = [(d, i) for i in registered if type(kb.obj[i]).__name__ != "Proposition" for d in ("up", "down")]
            rounds = 0
            while rounds < 100:
                rounds += 1
                before = kb.dump()
                rng.shuffle(calls)
                for d, i in calls:
                    if d == "up":
                        r = kb.obj[i].upward()
                        lines.append(f"up {i}")
                    else:
                        r = kb.obj[i].downward()
                        lines.append(f"down {i} -")
                    out.append("r " + q(impl.amount(r)))
                if kb.dump() == before:
                    break
            info["rounds"] = rounds
        lines.append(kb.dump_line())
        out.append(kb.dump())
        lines.append("contra " + ids(registered))
        out.append("c %d" % (1 if kb.model.has_contradiction() else 0))
        info["final"] = out[-2]
        info["contra"] = out[-1]
        info["end_line"] = len(lines)
        variants.append(info)
    return {"lines": lines, "impl": out,
            "meta": {"variants": variants, "ids": kb.all_ids(), "data": [(i, q(l), q(u)) for i, l, u in data]}}


# ------------------------------------------------------------------ C20: source / query restricted inference

def streams_parse(line):
    from fractions import Fraction as F
    return [tuple(F(x) for x in tok.split(",")) for tok in line.split()[1:]]


def run_c20(case):
    import impl
    L = impl.lnn()
    lines, out = [], []
    meta = {"violations": [], "info": {}}
    ids = lambda l: ",".join(map(str, l)) if l else "-"

    def build():
        impl.take_log()
        kb = impl.PropKB(case["kb"])
        kb.add_roots()
        hdr = kb.header_lines()
        lines.extend(hdr)
        out.extend(["ok"] * len(hdr))
        if case.get("interp_atoms") is not None:
            interp = truth_values(kb, {int(k): v for k, v in case["interp_atoms"].items()})
            drng = random.Random(case.get("data_seed", 0))
            data = []
            for i in kb.order:
                p = 0.8 if type(kb.obj[i]).__name__ == "Proposition" else 0.35
                if drng.random() < p:
                    lo, hi = grid_bounds_around(drng, interp[i])
                    data.append((i, lo, hi))
        else:
            data = [tuple(d) for d in case["data"]]
        for i, lo, hi in data:
            kb.model.add_data({kb.obj[i]: (float(lo), float(hi))})
            lines.append(f"set {i} {q(lo)} {q(hi)}")
            out.append("ok")
        meta["data"] = [(i, q(l), q(u)) for i, l, u in data]
        return kb

    def snap(kb):
        lines.append(kb.dump_line())
        out.append(kb.dump())
        return out[-1]

    def do_infer(kb, **kw):
        impl.take_log()
        steps, r = kb.model.infer(max_steps=200, **kw)
        log = impl.take_log()
        ups, downs = kb.calls(log, "upward"), kb.calls(log, "downward")
        per_u, per_d = len(ups) // max(steps, 1), len(downs) // max(steps, 1)
        qid, conv = "-", 0
        if kb.model.query is not None:
            qid, conv = str(kb.idof[id(kb.model.query)]), (1 if kb.model._converge else 0)
        lines.append(f"infer {EPS} 200 {qid} {conv} {ids(ups[:per_u])} {ids(downs[:per_d])}")
        out.append(f"n {steps} {q(impl.amount(r))}")
        return steps, set(ups) | set(downs)

    def desc(kb, i):
        seen, todo = set(), [kb.obj[i]]
        while todo:
            o = todo.pop()
            if id(o) in seen:
                continue
            seen.add(id(o))
            todo.extend(o.operands)
        return {kb.idof[x] for x in seen}

    # ---- variant 1: infer(source=...) then full inference
    kb = build()
    src = case["source"]
    d0 = snap(kb)
    steps, touched = do_infer(kb, source=kb.obj[src])
    d1 = snap(kb)
    inside = desc(kb, src)
    meta["info"]["source"] = src
    meta["info"]["desc"] = sorted(inside)
    meta["info"]["outside"] = [i for i in kb.order if i not in inside]
    meta["info"]["restricted_steps"] = steps
    if not touched <= inside:
        meta["violations"].append({"problem": "source-restricted traversal left the source's sub-graph",
                                   "called": sorted(touched - inside)})
    meta["d0"], meta["d1"] = d0, d1
    do_infer(kb)
    meta["d2"] = snap(kb)
    lines.append("contra " + ids(sorted(kb.registered_ids())))
    out.append("c %d" % (1 if kb.model.has_contradiction() else 0))
    meta["contra_full"] = out[-1]

    # ---- variant 2: query with early stop, then converge=True on a fresh model
    qn = case["query"]
    kb = build()
    kb.model.set_query(kb.obj[qn], converge=False)
    # set_query(world=OPEN) re-adds the formula with a world: reset_world flushes its data to (0,1)
    lines.append(f"set {qn} 0 1"); out.append("ok")
    if len(kb.model.nodes) != len(set(map(id, kb.model.nodes.values()))):
        meta["violations"].append({"problem": "set_query registered an object twice", "nodes": len(kb.model.nodes)})
    steps_q, _ = do_infer(kb)
    meta["dq"] = snap(kb)
    meta["q_resolved_early"] = bool(kb.obj[qn].is_classically_resolved)
    meta["q_bounds_early"] = [q(x) for x in impl.bounds_of(kb.obj[qn])]
    kb = build()
    kb.model.set_query(kb.obj[qn], converge=True)
    lines.append(f"set {qn} 0 1"); out.append("ok")
    steps_c, _ = do_infer(kb)
    meta["dc"] = snap(kb)
    meta["q_bounds_conv"] = [q(x) for x in impl.bounds_of(kb.obj[qn])]
    meta["info"].update({"query": qn, "steps_early": steps_q, "steps_conv": steps_c})
    lines.append("contra " + ids(sorted(kb.registered_ids())))
    out.append("c %d" % (1 if kb.model.has_contradiction() else 0))
    meta["contra_conv"] = out[-1]
    # ---- variant 4: direction-restricted calls with a source, after traversals with OTHER sources
    kb = build()
    other = case.get("source2", src)
    for first in ("full-up", "other-source"):
        impl.take_log()
        if first == "full-up":
            steps, r = kb.model.infer(direction=L.Direction.UPWARD)
        else:
            steps, r = kb.model.infer(source=kb.obj[other], max_steps=3)
        log = impl.take_log()
        ups, downs = kb.calls(log, "upward"), kb.calls(log, "downward")
        if first == "full-up":
            lines.append(f"pass up {ids(ups)}"); out.append("r " + q(impl.amount(r)))
        else:
            per_u, per_d = len(ups) // max(steps, 1), len(downs) // max(steps, 1)
            lines.append(f"infer {EPS} 3 - 0 {ids(ups[:per_u])} {ids(downs[:per_d])}"); out.append(f"n {steps} {q(impl.amount(r))}")
        for direction in ("DOWNWARD", "UPWARD"):
            before = snap(kb)
            impl.take_log()
            # after the full upward pass through infer(Direction.X, source=), after the other-source run through the
            # convenience wrappers Model.downward(source=) / Model.upward(source=)
            if first == "full-up":
                steps, r = kb.model.infer(direction=getattr(L.Direction, direction), source=kb.obj[src])
            elif direction == "DOWNWARD":
                steps, r = kb.model.downward(source=kb.obj[src])
            else:
                steps, r = kb.model.upward(source=kb.obj[src])
            log = impl.take_log()
            called = kb.calls(log, direction.lower())
            lines.append(f"pass {'down' if direction == 'DOWNWARD' else 'up'} {ids(called)}"); out.append("r " + q(impl.amount(r)))
            after = snap(kb)
            inside4 = desc(kb, src)
            if not set(called) <= inside4:
                meta["violations"].append({"problem": f"infer(Direction.{direction}, source=) called formulae outside the source's sub-graph",
                                           "after": first, "called_outside": sorted(set(called) - inside4)})
            for i, a, b in zip(kb.order, streams_parse(before), streams_parse(after)):
                if i not in inside4 and a != b:
                    meta["violations"].append({"problem": f"infer(Direction.{direction}, source=) changed a formula outside the source's sub-graph",
                                               "after": first, "node": i, "before": [q(x) for x in a], "now": [q(x) for x in b]})
                    break
            missing = [i for i in inside4 if type(kb.obj[i]).__name__ != "Proposition" and i not in set(called)]
            if missing:
                meta["violations"].append({"problem": f"infer(Direction.{direction}, source=) did not visit formulae of the source's sub-graph",
                                           "after": first, "not_called": missing})
    # ---- variant 3: infer_query() == infer(source=query)
    kb = build()
    kb.model.set_query(kb.obj[qn], converge=True)
    lines.append(f"set {qn} 0 1"); out.append("ok")
    d0q = snap(kb)
    impl.take_log()
    steps, r = kb.model.infer_query(max_steps=200)
    log = impl.take_log()
    ups, downs = kb.calls(log, "upward"), kb.calls(log, "downward")
    per_u, per_d = len(ups) // max(steps, 1), len(downs) // max(steps, 1)
    lines.append(f"infer {EPS} 200 {qn} 1 {ids(ups[:per_u])} {ids(downs[:per_d])}")
    out.append(f"n {steps} {q(impl.amount(r))}")
    d1q = snap(kb)
    insideq = desc(kb, qn)
    if not (set(ups) | set(downs)) <= insideq:
        meta["violations"].append({"problem": "infer_query traversal left the query's sub-graph"})
    meta["iq"] = (d0q, d1q, sorted(insideq))
    meta["ids"] = kb.all_ids()
    # ---- variant 5 (implementation only): a query armed a SECOND time after its facts were revised must answer for the
    # revised facts -- exactly what a freshly built model with the final facts answers (the query's sub-graph consists of the
    # query and its atoms, so nothing else can differ)
    kb5 = impl.PropKB(case["kb"])
    kb5.add_roots()
    cand = [i for i in kb5.order if type(kb5.obj[i]).__name__ in ("And", "Or", "Implies") and kb5.obj[i].operands
            and all(type(o).__name__ == "Proposition" for o in kb5.obj[i].operands)]
    if cand:
        r5 = random.Random(case.get("data_seed", case.get("seed", 0)) + 5)
        q5 = r5.choice(cand)
        atoms = sorted({kb5.idof[id(o)] for o in kb5.obj[q5].operands})
        first = {a: float(r5.choice([0, 1])) for a in atoms}
        final = dict(first)
        flip = r5.choice(atoms)
        final[flip] = 1.0 - final[flip]

        def answer(kb):
            return {i: [q(x) for x in impl.bounds_of(kb.obj[i])] for i in [q5] + atoms}

        kb5.model.set_query(kb5.obj[q5])
        for a, v in first.items():
            kb5.model.add_data({kb5.obj[a]: (v, v)})
        kb5.model.infer_query(max_steps=200)
        ans1 = answer(kb5)
        for a, v in final.items():
            kb5.model.add_data({kb5.obj[a]: (v, v)})
        kb5.model.set_query(kb5.obj[q5])
        kb5.model.infer_query(max_steps=200)
        again = answer(kb5)
        kbf = impl.PropKB(case["kb"])
        kbf.add_roots()
        for a, v in final.items():
            kbf.model.add_data({kbf.obj[a]: (v, v)})
        kbf.model.set_query(kbf.obj[q5])
        kbf.model.infer_query(max_steps=200)
        fresh = answer(kbf)
        meta["info"]["rearmed_query"] = q5
        if again != fresh:
            meta["violations"].append({"problem": "a query armed again after its facts were revised does not answer for the revised facts: "
                                                  "infer_query() differs from a freshly built model holding the final facts",
                                       "query": q5, "first_facts": first, "final_facts": final, "first_answer": ans1,
                                       "rearmed_answer": again, "fresh_model_answer": fresh})
    return {"lines": lines, "impl": out, "meta": meta}


# ------------------------------------------------------------------ C08: training reaches the parameters every object owns NOW

def run_c08_train(case):
    """two structurally equal, separate propositions with TRAINABLE bounds (activation bounds_learning) under separate
    conjunctions; train, give one of them data again (which re-creates its Parameter object), train again: every trainable
    parameter a registered object owns at that moment and that receives a non-zero gradient must be moved by the optimiser
    (implementation only). case: {'first': (lo,hi), 'again': (lo,hi), 'which': 0|1, 'lr': Fr}"""
    import impl
    import torch
    L = impl.lnn()
    impl.take_log()
    ps = [L.Proposition("P", activation={"bounds_learning": True}) for _ in range(2)]
    qq = L.Proposition("Q")
    ands = [L.And(p, qq) for p in ps]
    m = L.Model()
    m.add_knowledge(*ands)
    lo, hi = (float(x) for x in case["first"])
    m.add_data({ps[0]: (lo, hi), ps[1]: (lo, hi), qq: L.Fact.TRUE})
    m.add_labels({a: L.Fact.TRUE for a in ands})
    kw = dict(losses=[L.Loss.SUPERVISED], epochs=2, learning_rate=float(case["lr"]), max_steps=8)
    meta = {"errors": [], "bad": None, "registered_once": len(m.nodes) == len(set(map(id, m.nodes.values())))}
    try:
        m.train(**kw)
        lo2, hi2 = (float(x) for x in case["again"])
        m.add_data({ps[case["which"]]: (lo2, hi2)})
        owned = {(n, name): prm for n, node in m.nodes.items() for name, prm in node.named_parameters() if prm.requires_grad}
        before = {k: prm.detach().clone() for k, prm in owned.items()}
        m.train(**kw)
    except Exception as e:
        meta["errors"].append(f"{type(e).__name__}: {str(e)[:200]}")
        return {"lines": [], "impl": [], "meta": meta}
    for (n, name), prm in owned.items():
        now = dict(m.nodes[n].named_parameters()).get(name)
        if now is not prm:
            meta["bad"] = {"problem": "training replaced a parameter object of a registered formula", "formula_number": n, "parameter": name}
            break
        g = prm.grad
        if g is not None and float(g.abs().sum()) > 0 and torch.equal(prm.detach(), before[(n, name)]):
            meta["bad"] = {"problem": "a registered formula's trainable parameter received a gradient but training did not move it: the "
                                      "optimiser does not hold the parameters the model's objects own now",
                           "formula_number": n, "formula": str(m.nodes[n]), "parameter": name,
                           "gradient": [float(x) for x in g.reshape(-1).tolist()],
                           "value": [float(x) for x in prm.detach().reshape(-1).tolist()]}
            break
    return {"lines": [], "impl": [], "meta": meta}


# ------------------------------------------------------------------ C08: every sub-formula object is a full member

def run_c08(case):
    """case: {'kb', 'before': [(id,lo,hi)], 'after': [(id,lo,hi)], 'root_groups': [[ids]...]}"""
    import impl
    L = impl.lnn()
    impl.take_log()
    kb = impl.PropKB(case["kb"])
    problems = []
    # data attached before the formulae are added (directly on the objects)
    for i, lo, hi in case["before"]:
        kb.obj[i].add_data((float(lo), float(hi)))
    try:
        for grp in case["root_groups"]:
            kb.model.add_knowledge(*[kb.obj[r] for r in grp])
        for i, lo, hi in case["after"]:
            kb.model.add_data({kb.obj[i]: (float(lo), float(hi))})
    except Exception as e:
        problems.append({"problem": "add_knowledge / add_data raised", "error": f"{type(e).__name__}: {e}"})
    lines = kb.header_lines()
    out = ["ok"] * len(lines)
    data = {}
    for i, lo, hi in list(case["before"]) + list(case["after"]):
        data[i] = (lo, hi)
    for i, (lo, hi) in data.items():
        lines.append(f"set {i} {q(lo)} {q(hi)}")
        out.append("ok")
    # ---- registry
    objs = [kb.obj[i] for i in kb.order]
    nodes = kb.model.nodes
    numbers = [o.formula_number for o in objs]
    for i, o in zip(kb.order, objs):
        if o.formula_number is None:
            problems.append({"problem": "sub-formula object has no formula number", "object": i})
        elif nodes.get(o.formula_number) is not o:
            other = nodes.get(o.formula_number)
            problems.append({"problem": "Model.nodes does not hold this object under its own number", "object": i,
                             "number": o.formula_number, "holds": None if other is None else kb.idof.get(id(other), "foreign")})
        if o not in kb.model.graph:
            problems.append({"problem": "object is not a node of the model graph", "object": i})
    if len(set(numbers)) != len(numbers):
        problems.append({"problem": "two objects share a formula number", "numbers": numbers})
    if len(nodes) != len(objs):
        problems.append({"problem": "Model.nodes has a different number of entries than there are sub-formula objects",
                         "nodes": len(nodes), "objects": len(objs)})
    # ---- parameter collection
    params = kb.model.parameters()
    for i, o in zip(kb.order, objs):
        for p in o.neuron.parameters():
            if not any(p is x for x in params):
                problems.append({"problem": "Model.parameters() misses a parameter of this object", "object": i})
                break
    # ---- model-wide operations
    ids = lambda l: ",".join(map(str, l)) if l else "-"

    def snap():
        lines.append(kb.dump_line())
        out.append(kb.dump())

    snap()
    try:
        impl.take_log()
        steps, r = kb.model.upward()
        log = impl.take_log()
        sched = kb.calls(log, "upward")
        reached = set(sched)
        for i, o in zip(kb.order, objs):
            if type(o).__name__ != "Proposition" and i not in reached:
                problems.append({"problem": "Model.upward() did not call this object", "object": i})
        lines.append(f"pass up {ids(sched)}"); out.append("r " + q(impl.amount(r)))
        snap()
        impl.take_log()
        steps, r = kb.model.downward()
        sched = kb.calls(impl.take_log(), "downward")
        for i, o in zip(kb.order, objs):
            if type(o).__name__ != "Proposition" and i not in set(sched):
                problems.append({"problem": "Model.downward() did not call this object", "object": i})
        lines.append(f"pass down {ids(sched)}"); out.append("r " + q(impl.amount(r)))
        snap()
        steps, r = kb.model.infer(max_steps=100)
        log = impl.take_log()
        ups, downs = kb.calls(log, "upward"), kb.calls(log, "downward")
        per_u, per_d = len(ups) // max(steps, 1), len(downs) // max(steps, 1)
        lines.append(f"infer {EPS} 100 - 0 {ids(ups[:per_u])} {ids(downs[:per_d])}"); out.append(f"n {steps} {q(impl.amount(r))}")
        snap()
        kb.model.reset_bounds()
        lines.append("resetb"); out.append("ok")
        snap()
        kb.model.flush()
        for i in kb.order:
            lines.append(f"set {i} 0 1"); out.append("ok")
        snap()
        for i, o in zip(kb.order, objs):
            if impl.bounds_of(o) != (ZERO, ONE):
                problems.append({"problem": "Model.flush() did not reach this object", "object": i})
    except Exception as e:
        problems.append({"problem": "a model-wide operation raised after data was attached", "error": f"{type(e).__name__}: {str(e)[:300]}"})
    return {"lines": lines, "impl": out, "meta": {"problems": problems, "ids": kb.all_ids(), "n_objects": len(objs)}}


def gen_c08_case(rng):
    kb = gen_kb(rng, n_atoms=(2, 4), n_conn=(2, 5), alphas=False, atom_alpha=False)
    nodes = kb["nodes"]
    nid = max(n["id"] for n in nodes) + 1
    conn = [n for n in nodes if n["kind"] not in ("atom",)]
    dup_pairs = 0
    for _ in range(rng.randint(1, 3)):
        src = rng.choice(conn)
        dup = dict(src)
        dup["id"] = nid
        if "ops" in dup:
            dup["ops"] = list(dup["ops"])
        nodes.append(dup)
        parents = [n for n in nodes if n["kind"] != "atom" and src["id"] in n.get("ops", []) and n["id"] != nid]
        r = rng.random()
        if parents and r < 0.4:
            p = rng.choice(parents)
            k = p["ops"].index(src["id"])
            p["ops"] = list(p["ops"])
            p["ops"][k] = nid                       # one use of the original now uses the structurally equal copy
            if src["id"] not in {j for n in nodes for j in n.get("ops", [])}:
                kb["roots"].append(src["id"])
        elif r < 0.75:
            nodes.append({"id": nid + 1, "kind": "not", "ops": [nid]})
            nodes.append({"id": nid + 2, "kind": "or", "ops": [src["id"], nid + 1]})
            if src["id"] in kb["roots"]:
                kb["roots"].remove(src["id"])
            kb["roots"].append(nid + 2)
            nid += 2
        else:
            kb["roots"].append(nid)
        nid += 1
        dup_pairs += 1
    # a user-written implication that is structurally equal to the one an Iff generates
    for n in list(nodes):
        if n["kind"] == "iff" and rng.random() < 0.7:
            nodes.append({"id": nid, "kind": "implies", "ops": list(n["ops"]),
                          **({"act": n["act"]} if "act" in n else {})})
            kb["roots"].append(nid)
            nid += 1
            dup_pairs += 1
    kb["nodes"] = sorted(nodes, key=lambda n: n["id"])
    # operands must be created before their users: re-sort topologically by id dependencies
    done, order = set(), []
    pending = list(kb["nodes"])
    while pending:
        for n in list(pending):
            if all(j in done for j in n.get("ops", [])):
                order.append(n)
                done.add(n["id"])
                pending.remove(n)
    kb["nodes"] = order
    ids_all = [n["id"] for n in order]
    before, after = [], []
    for i in ids_all:
        if rng.random() < 0.45:
            lo, hi = grid_bounds_any(rng)
            (before if rng.random() < 0.4 else after).append((i, lo, hi))
    roots = list(dict.fromkeys(kb["roots"]))
    rng.shuffle(roots)
    if rng.random() < 0.5 and len(roots) > 1:
        k = rng.randint(1, len(roots) - 1)
        groups = [roots[:k], roots[k:]]
    else:
        groups = [roots]
    if rng.random() < 0.3:
        groups.append([rng.choice(roots)])         # a root added a second time
    kb["roots"] = roots
    return {"kb": kb, "before": before, "after": after, "root_groups": groups, "dup_pairs": dup_pairs}
