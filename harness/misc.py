"""small implementation-side runners (worker side)"""
from fractions import Fraction as Fr

from common import q


def run_state_grid(case):
    """case: {'alpha': Fr, 'points': [(L,U)...]} -> lines/impl for the `state` protocol op.
    Uses a Proposition with the given alpha and the public add_data / state / is_contradiction."""
    import impl
    L = impl.lnn()
    a = case["alpha"]
    kw = {"activation": {"alpha": float(a)}} if a != 1 else {}
    lines, out = [], []
    for (lo, hi) in case["points"]:
        P = L.Proposition("p", **kw)
        m = L.Model()
        m.add_knowledge(P)
        m.add_data({P: (float(lo), float(hi))})
        try:
            st = P.state().name
        except Exception as e:
            st = "EXC:" + type(e).__name__
        c = 1 if bool(P.is_contradiction()) else 0
        hc = 1 if m.has_contradiction() else 0
        got = impl.bounds_of(P)
        lines.append(f"state {q(a)} {q(lo)} {q(hi)}")
        out.append(f"s {st} {c}")
        if hc != c or got != (lo, hi):
            out[-1] += f" MISMATCH has_contradiction={hc} stored={got}"
    return {"lines": ["reset"] + lines, "impl": ["ok"] + out, "meta": {"alpha": q(a)}}


def run_c03_batch(case):
    """one connective over distinct atoms; for every combination of bounds: add_data on all of them,
    connective.upward(), connective.downward(), dump, has_contradiction."""
    import impl
    L = impl.lnn()
    n = case["n"]
    nodes = [{"id": i, "kind": "atom"} for i in range(n)]
    nodes.append({"id": n, "kind": case["kind"], "ops": list(range(n)), "w": case["w"], "b": case["b"], "act": case["act"]})
    kb = impl.PropKB({"nodes": nodes, "roots": [n]})
    kb.add_roots()
    lines = kb.header_lines()
    out = ["ok"] * len(lines)
    conn = kb.obj[n]
    ids = ",".join(map(str, kb.order))
    for combo in case["combos"]:
        for i, (lo, hi) in enumerate(combo):
            kb.model.add_data({kb.obj[i]: (float(lo), float(hi))})
            lines.append(f"set {i} {q(lo)} {q(hi)}")
            out.append("ok")
        r = conn.upward()
        lines.append(f"up {n}")
        out.append("r " + q(impl.amount(r)))
        r = conn.downward()
        lines.append(f"down {n} -")
        out.append("r " + q(impl.amount(r)))
        lines.append("dump " + ids)
        out.append(kb.dump())
        lines.append("contra " + ids)
        out.append("c %d" % (1 if kb.model.has_contradiction() else 0))
    return {"lines": lines, "impl": out, "meta": {}}


# ------------------------------------------------------------------ C04: truth tables on trees

def tree_to_desc(tree, n_atoms):
    """nested tuples -> KB description with one object per sub-tree occurrence (atoms shared)"""
    nodes = [{"id": i, "kind": "atom"} for i in range(n_atoms)]
    sub = []          # (id, tree) of every non-atom sub-formula

    def rec(t):
        if t[0] == "atom":
            return t[1]
        ops = [rec(x) for x in t[1:]]
        nid = len(nodes)
        nodes.append({"id": nid, "kind": t[0], "ops": ops})
        sub.append((nid, t))
        return nid

    root = rec(tree)
    return {"nodes": nodes, "roots": [root]}, sub


def run_c04_trees(case):
    import impl
    L = impl.lnn()
    n_atoms = case["atoms"]
    vals3 = {"F": (0.0, 0.0), "U": (0.0, 1.0), "T": (1.0, 1.0)}
    lines, out, results = [], [], []
    import itertools
    for tree in case["trees"]:
        desc, sub = tree_to_desc(tree, n_atoms)
        impl.take_log()
        kb = impl.PropKB(desc)
        kb.add_roots()
        hdr = kb.header_lines()
        lines += hdr
        out += ["ok"] * len(hdr)
        ids = ",".join(map(str, kb.order))
        for val in itertools.product("FUT", repeat=n_atoms):
            kb.model.reset_bounds()
            lines.append("resetb"); out.append("ok")
            reg = set(kb.registered_ids())
            for i, x in enumerate(val):
                if i not in reg:
                    continue          # an atom the formula does not mention is not in the model
                kb.model.add_data({kb.obj[i]: vals3[x]})
                lines.append(f"set {i} {int(vals3[x][0])} {int(vals3[x][1])}"); out.append("ok")
            impl.take_log()
            steps, r = kb.model.upward()
            sched = kb.calls(impl.take_log(), "upward")
            lines.append("pass up " + ",".join(map(str, sched)))
            out.append("r " + q(impl.amount(r)))
            lines.append("dump " + ids)
            out.append(kb.dump())
            states = {i: kb.obj[i].state().name for i, _ in sub}
            # children-first: every operand of a called node was called earlier or is an atom
            seen = set()
            ok = True
            for i in sched:
                o = kb.obj[i]
                pre = []
                if type(o).__name__ == "Iff":
                    pre = [o.Imp1, o.Imp2]
                for x in o.operands:
                    j = kb.idof[id(x)]
                    if type(x).__name__ != "Proposition" and j not in seen and x not in pre and type(o).__name__ != "XOr":
                        ok = False
                seen.add(i)
            # the same evaluation by NODE-level calls (implementation only): formula.upward() on every sub-formula the user
            # wrote, operands before operators; one call per formula must evaluate it, composites (Iff, XOr) included
            kb.model.reset_bounds()
            for i, x in enumerate(val):
                if i in reg:
                    kb.model.add_data({kb.obj[i]: vals3[x]})
            for i, st in sub:
                if st[0] != "atom":
                    kb.obj[i].upward()
            states_node = {i: kb.obj[i].state().name for i, _ in sub}
            impl.take_log()
            results.append({"tree": tree, "val": "".join(val), "states": states, "children_first": ok, "states_node": states_node})
    return {"lines": lines, "impl": out, "meta": {"results": results}}


def run_c04_duals(case):
    """dual formulations must give identical bounds in both directions. case: {'w','b','act','A','B','op','kind'}
    kind 'or': Or(A,B) vs Not(And(Not A, Not B)); kind 'implies': Implies(A,B) vs Or(Not A, B)."""
    import impl
    L = impl.lnn()
    lines, out = [], []
    res = {}
    act = {"w": case["w"], "b": case["b"], "act": case["act"]}
    if case["kind"] == "or":
        d1 = {"nodes": [{"id": 0, "kind": "atom"}, {"id": 1, "kind": "atom"}, dict(id=2, kind="or", ops=[0, 1], **act)], "roots": [2]}
        d2 = {"nodes": [{"id": 0, "kind": "atom"}, {"id": 1, "kind": "atom"}, {"id": 3, "kind": "not", "ops": [0]},
                        {"id": 4, "kind": "not", "ops": [1]}, dict(id=5, kind="and", ops=[3, 4], **act),
                        {"id": 2, "kind": "not", "ops": [5]}], "roots": [2]}
    else:
        d1 = {"nodes": [{"id": 0, "kind": "atom"}, {"id": 1, "kind": "atom"}, dict(id=2, kind="implies", ops=[0, 1], **act)], "roots": [2]}
        d2 = {"nodes": [{"id": 0, "kind": "atom"}, {"id": 1, "kind": "atom"}, {"id": 3, "kind": "not", "ops": [0]},
                        dict(id=2, kind="or", ops=[3, 1], **act)], "roots": [2]}
    for name, d in (("direct", d1), ("dual", d2)):
        kb = impl.PropKB(d)
        kb.add_roots()
        hdr = kb.header_lines()
        lines += hdr
        out += ["ok"] * len(hdr)
        for i, key in ((0, "A"), (1, "B"), (2, "op")):
            lo, hi = case[key]
            kb.model.add_data({kb.obj[i]: (float(lo), float(hi))})
            lines.append(f"set {i} {q(lo)} {q(hi)}"); out.append("ok")
        for direction in ("up", "down"):
            impl.take_log()
            steps, r = (kb.model.upward() if direction == "up" else kb.model.downward())
            sched = kb.calls(impl.take_log(), direction + "ward")
            lines.append(f"pass {direction} " + ",".join(map(str, sched)))
            out.append("r " + q(impl.amount(r)))
            lines.append("dump 0,1,2")
            out.append("d " + " ".join("%s,%s" % tuple(q(x) for x in impl.bounds_of(kb.obj[i])) for i in (0, 1, 2)))
            res[(name, direction)] = out[-1]
    return {"lines": lines, "impl": out, "meta": {"res": {f"{a}:{b}": v for (a, b), v in res.items()}}}


# ------------------------------------------------------------------ C19: clamp and gradients

def run_c19_batch(case):
    """case: {'clamp': [Fr...], 'neurons': [{'kind','act','b','w':[..],'x':[..]}]}
    val_clamp on dyadic tensors (value and d/dx), and the upward activation of real neuron objects on point inputs
    with torch.autograd gradients w.r.t. bias, every weight and every input."""
    import impl
    import torch
    L = impl.lnn()
    from lnn import _utils
    lines, out = ["reset"], ["ok"]
    xs = case["clamp"]
    if xs:
        t = torch.tensor([float(x) for x in xs], requires_grad=True)
        y = _utils.val_clamp(t)
        y.sum().backward()
        for x, yv, g in zip(xs, y.detach().tolist(), t.grad.tolist()):
            lines.append(f"vclamp {q(x)}")
            out.append(f"g {q(Fr(yv))} {q(Fr(g))}")
    acts = {"luk": L.NeuralActivation.Lukasiewicz, "lukt": L.NeuralActivation.LukasiewiczTransparent}
    vals = []
    for nrn in case["neurons"]:
        n = len(nrn["w"])
        props = [L.Proposition(f"p{k}") for k in range(n)]
        cls = {"and": L.And, "or": L.Or, "implies": L.Implies}[nrn["kind"]]
        o = cls(*props, activation={"type": acts[nrn["act"]], "bias": float(nrn["b"]),
                                    "weights": tuple(float(w) for w in nrn["w"]), "bias_learning": True})
        neuron = o.neuron
        neuron.bias.requires_grad_(True)
        neuron.weights.requires_grad_(True)
        x = torch.tensor([[float(v) for v in nrn["x"]], [float(v) for v in nrn["x"]]], requires_grad=True)   # [bounds, arity], lower = upper
        y = o.func(x)              # the neuron's upward activation: [2]
        y[0].backward()
        db = neuron.bias.grad.item()
        dw = neuron.weights.grad.tolist()
        dx = x.grad[0].tolist() if nrn["kind"] != "implies" else None
        if nrn["kind"] == "implies":
            # lower bound of x -> y uses the UPPER bound of x and the lower bound of y
            dx = [x.grad[1][0].item(), x.grad[0][1].item()]
        lines.append(f"grad {nrn['kind']} {q(nrn['b'])} {','.join(q(w) for w in nrn['w'])} {','.join(q(v) for v in nrn['x'])}")
        line = f"g {q(Fr(y[0].item()))} {q(Fr(db))} {','.join(q(Fr(g)) for g in dw)} {','.join(q(Fr(g)) for g in dx)}"
        # the plain Lukasiewicz variant uses torch.clamp (zero gradient when saturated, by design): not compared with the
        # gradient-transparent model, its VALUE is judged by the oracle
        out.append(line if nrn["act"] == "lukt" else None)
        vals.append(line)
    # the neurons a quantifier builds for its instances (unit-weight And for Forall, Or for Exists): value and d/d(instance)
    qvals = []
    for qn in case.get("qneurons", []):
        P = L.Predicate("P")
        xv = L.Variable("x")
        qobj = (L.Forall if qn["kind"] == "forall" else L.Exists)(xv, P(xv))
        k = len(qn["x"])
        neuron = qobj._create_neuron(arity=k)
        xs = [float(v) for v in qn["x"]]
        ib = torch.tensor([[xs, xs]], requires_grad=True)          # [1, bounds, instances]
        y = neuron.func(ib)
        y[0][0].backward()
        qvals.append({"value": q(Fr(y[0][0].item())), "dx": [q(Fr(g)) for g in ib.grad[0][0].tolist()]})
    return {"lines": lines, "impl": out, "meta": {"neuron_lines": vals, "qneurons": qvals}}
