"""small implementation-side runners (worker side)"""
from fractions import Fraction as Fr

from common import q


def run_state_grid(case):
    """case: {'alpha': Fr, 'points': [(L,U)...]} -> lines/impl for the `state` protocol op.
    Uses a Proposition with the given alpha and the public add_data / state / is_contradiction."""
    import impl
    L = impl.lnn()
    a = case["alpha"]
    kw = {"activation": {"alpha": float(a)}} if a != 1 else {}
    lines, out = [], []
    for (lo, hi) in case["points"]:
        P = L.Proposition("p", **kw)
        m = L.Model()
        m.add_knowledge(P)
        m.add_data({P: (float(lo), float(hi))})
        try:
            st = P.state().name
        except Exception as e:
            st = "EXC:" + type(e).__name__
        c = 1 if bool(P.is_contradiction()) else 0
        hc = 1 if m.has_contradiction() else 0
        got = impl.bounds_of(P)
        lines.append(f"state {q(a)} {q(lo)} {q(hi)}")
        out.append(f"s {st} {c}")
        if hc != c or got != (lo, hi):
            out[-1] += f" MISMATCH has_contradiction={hc} stored={got}"
    return {"lines": ["reset"] + lines, "impl": ["ok"] + out, "meta": {"alpha": q(a)}}
